"""Positive control for C08.D1 (ownership of the pending-call table): a
function outside DBusClientConnection that touches the table.  The rule must
recognise this access on every run (the expected count on /repo is zero)."""


def steal(conn, serial):
    return conn._pendingCalls.pop(serial, None)
