"""Positive control for C09.D4 (iterate-while-calling-out): a loop over a live
instance container whose body calls the element.  The rule must recognise this
loop on every run (the expected count of violations on /repo is zero)."""


class Conn:
    def lost(self, reason):
        for cb in self._callbacks:
            cb(self, reason)
