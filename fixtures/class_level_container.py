"""Positive control for the per-instance rule (C09.D6, C11.D3, C15.D3, ...):
`Shared.items` is a class-level list mutated in place through self and never
bound on the instance - the rule must report it on every run; `Own.items` is
rebound in __init__ - the rule must stay silent on it."""


class Shared:
    items = []

    def add(self, x):
        self.items.append(x)


class Own:
    items = []

    def __init__(self):
        self.items = []

    def add(self, x):
        self.items.append(x)
