# positive control for common.class_memo_not_inherited: must match
class Base:
    def tables(self):
        t = getattr(self.__class__, '_tables', None)
        if t is None:
            t = [b.__dict__ for b in self.__class__.__mro__]
            self.__class__._tables = t
        return t
