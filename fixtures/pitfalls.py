# positive / negative controls for txsa.rules.pitfalls (parsed, never imported)


def pick_interface(obj, msg):
    # P1: no match -> `i` is the last interface, not None
    for i in obj.getInterfaces():
        if i.name == msg.interface:
            break
    m = i.methods.get(msg.member)
    return m


def pick_guarded(obj, name):
    m = None
    for i in obj.interfaces:
        m = i.methods.get(name)
        if m:
            break
    if m is None:
        raise AttributeError(name)
    return i.name, m


def pick_else(obj, name):
    for i in obj.interfaces:
        if i.name == name:
            break
    else:
        i = None
    return i


class P:
    def frame(self, data):
        # P2: the length is not recomputed after the buffer was cut
        self._buffer = self._buffer + data
        n = len(self._buffer)
        while self._buffer:
            if n < 16:
                return
            self._buffer = self._buffer[16:]

    def frame_fresh(self, data):
        self._buffer = self._buffer + data
        while True:
            n = len(self._buffer)
            if n < 16:
                return
            self._buffer = self._buffer[16:]


def parse_rule(text):
    kw = {}
    # P3: one list under two keys
    kw['args'] = kw['arg_paths'] = []
    return kw


def parse_rule_ok(text):
    kw = {}
    kw['args'], kw['arg_paths'] = [], []
    a = b = None
    return kw, a, b


_TEMPLATE = {'sender': None, 'args': [], 'arg_paths': []}


def parse_from_template(text):
    # P5: dict(T) copies the dict, not the lists in it
    kw = dict(_TEMPLATE)
    kw['args'].append((0, text))
    return kw


def parse_from_template_ok(text):
    kw = dict(_TEMPLATE)
    kw['args'] = [(0, text)]
    return kw


class Q:
    def introspect_coalesced(self, key):
        # P6: the same Deferred for two callers
        d = self._inflight.get(key)
        if d is not None:
            return d
        d = self.call(key)
        d.addBoth(self._done, key)
        self._inflight[key] = d
        return d

    def introspect_coalesced_direct(self, key):
        # P6 again, without a local: `return self._inflight[key]`
        if key in self._inflight:
            return self._inflight[key]
        d = self.call(key)
        d.addBoth(self._done, key)
        self._inflight[key] = d
        return d

    def introspect_fanout(self, key):
        waiting = self._waiting.get(key)
        if waiting is not None:
            d = Deferred()
            waiting.append(d)
            return d
        self._waiting[key] = []
        d = self.call(key)
        d.addBoth(self._fanout, key)
        return d


_busy = set()


def guarded_work(x):
    # P7: the marker stays when work() raises
    if id(x) in _busy:
        raise ValueError('recursive')
    _busy.add(id(x))
    r = work(x)
    _busy.remove(id(x))
    return r


def guarded_work_finally(x):
    if id(x) in _busy:
        raise ValueError('recursive')
    _busy.add(id(x))
    try:
        return work(x)
    finally:
        _busy.remove(id(x))


_depth = 0


def counted_work(x):
    # P7 (counter form): the count stays raised when work() raises
    global _depth
    if _depth >= 64:
        raise ValueError('too deep')
    _depth += 1
    r = work(x)
    _depth -= 1
    return r


def counted_work_finally(x):
    global _depth
    _depth += 1
    try:
        return work(x)
    finally:
        _depth -= 1


def sig_of(obj, seen=None):
    # P10: `seen` only grows - (x, x) is refused as a cycle
    if seen is None:
        seen = set()
    if isinstance(obj, (list, tuple)):
        if id(obj) in seen:
            raise ValueError('recursive structure')
        seen.add(id(obj))
        return '(' + ''.join(sig_of(e, seen) for e in obj) + ')'
    return 's'


def sig_of_path(obj, seen=None):
    if seen is None:
        seen = set()
    if isinstance(obj, (list, tuple)):
        if id(obj) in seen:
            raise ValueError('recursive structure')
        seen.add(id(obj))
        try:
            return '(' + ''.join(sig_of_path(e, seen) for e in obj) + ')'
        finally:
            seen.discard(id(obj))
    return 's'


class Registered:
    known = {}

    def __init__(self, name, parts):
        # P8: registered, then validated
        self.known[name] = self
        for x in parts:
            if not isinstance(x, str):
                raise TypeError(x)


def first_value_by_truth(values):
    # P9: a falsy first value is "not seen"
    first = None
    for v in values:
        if not first:
            first = v
        elif type(v) is not type(first):
            return None
    return first


def first_value_by_identity(values):
    first = None
    for v in values:
        if first is None:
            first = v
        elif type(v) is not type(first):
            return None
    return first
