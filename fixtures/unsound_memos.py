# positive / negative control for txsa.rules.memo (never imported, only parsed)
import functools
import struct

_packers = {}
_seen = set()
_split = {}
_names = set()
_once = set()
_packers2 = {}
_split2 = {}


def pack_length(fmt, n, lendian):
    # K: value depends on lendian, key does not
    try:
        p = _packers[fmt]
    except KeyError:
        p = _packers[fmt] = struct.Struct((lendian and '<' or '>') + fmt).pack
    return p(n)


def remember(validator):
    @functools.wraps(validator)
    def wrapper(n):
        # K: the table is shared by every wrapped validator
        if n in _names:
            return
        validator(n)
        _names.add(n)
    return wrapper


@remember
def check_a(n):
    pass


@remember
def check_b(n):
    pass


def check_elem(tsig):
    # R: remembered before the check fails
    if tsig not in _seen:
        _seen.add(tsig)
        if not tsig.strip('()'):
            raise ValueError(tsig)


def split(sig):
    # M: registered before it is complete
    parts = _split.get(sig)
    if parts is None:
        parts = _split[sig] = []
        for c in sig:
            parts.append(c)
    return parts


def lookup_and_extend(sig, more):
    parts = _split.get(sig)
    parts.extend(more)
    return parts


@functools.lru_cache(maxsize=None)
def pieces(sig):
    for c in sig:
        yield c


# ---- sound memos: must NOT be reported ---------------------------------------
def sound_packer(fmt, n, lendian):
    key = (fmt, lendian)
    try:
        p = _packers2[key]
    except KeyError:
        p = _packers2[key] = struct.Struct((lendian and '<' or '>') + fmt).pack
    return p(n)


def sound_split(sig):
    parts = _split2.get(sig)
    if parts is None:
        parts = tuple(sig)
        _split2[sig] = parts
    return parts


def once(validator):
    def only_one(n):
        if n in _once:
            return
        validator(n)
        _once.add(n)
    return only_one


@once
def check_c(n):
    pass


# ---- a wrapper that changes the answer of what it wraps: must be reported ---
def lenient(validator):
    def wrapper(n):
        try:
            validator(n)
        except ValueError:
            pass
    return wrapper


@lenient
def check_d(n):
    raise ValueError(n)
