"""print the sub-agent prompt for ADDITIVE, non-breaking changes (benign variants of a second kind)"""
import sys
wt, files, n = sys.argv[1], sys.argv[2], sys.argv[3]
print(f"""You are working in a scratch git worktree of the open-source Python project txdbus (a pure-Python D-Bus implementation for Twisted) at {wt}. Work ONLY inside that directory (never touch /repo or /verif). Python is /venv/bin/python; run it from the worktree root (use PYTHONPATH={wt} for your own scripts).

YOUR TASK: produce {n} separate, independent, ADDITIVE changes to the code in: {files}. Each one is a small feature, diagnostic or convenience that a maintainer might really commit and that leaves every existing behaviour exactly as it is: for every input, call sequence and wire exchange that was possible before, the code does exactly what it did (same return values, same bytes on the wire, same exceptions, same order of sends and callbacks, same attribute values) - the change only ADDS something that did not exist or was not reachable before. Examples of the kind wanted: a debug/trace log line (log.msg) at an interesting point; a __repr__ or __str__ on a class that had none; a new read-only helper method or property on a class (e.g. a method that lists pending call serials, the names a connection owns, the exported paths); a new keyword parameter with a default that reproduces today's behaviour exactly; a new module-level constant or __all__; a counter or timestamp attribute maintained for statistics and never used for decisions; a type/sanity assertion that can never fail for values the code already accepts... think twice, prefer the others; an extra public alias for an existing function; a new, additionally DECLARED AND IMPLEMENTED method on the built-in bus object (e.g. ListNames, NameHasOwner) that does not change any existing method; support for an additional optional header field code or match-rule key that was ignored before ONLY IF nothing that was accepted before changes meaning; a docstring or type annotations. Spread the {n} changes over different classes/functions and different kinds; keep each small (3-30 lines).

Do NOT rename, remove or re-order anything existing, do not change defaults, do not fix bugs, do not add validation that could reject something accepted today, do not add sends/callbacks on existing paths (a log line is fine), do not change which exception is raised anywhere.

FOR EACH change i = 01..{n}:
 1. start from the clean tree (`git checkout -- txdbus`), make the change, save it as {wt}/_ref/i.diff (`git diff -- txdbus > _ref/i.diff`), and write one line describing it to {wt}/_ref/i.txt.
 2. with only that change applied, run the test suite ONLY like this (the flock matters, the suite binds a fixed socket name and the machine is shared):
      cd {wt} && flock /tmp/txdbus-pytest.lock /venv/bin/python -m pytest -q -p no:cacheprovider tests
    The expected result is exactly the baseline: 164 passed, 3 failed (tests/test_authentication.py::DBusCookieCookieHandlingTester x3 always fail here), 97 skipped.
 3. `git checkout -- txdbus` before the next one. Never use `git stash`. Do not commit anything. Do not modify tests/.
Each .diff must apply on its own to the clean tree (`git apply --check _ref/i.diff`).

When you are done, leave the tree clean and reply with a short list: i, file/class/function, one-line description, and why existing behaviour is untouched.""")
