"""print the sub-agent prompt for one property (only the property text + worktree path)"""
import json, sys
pid = sys.argv[1]
wt = sys.argv[2]
extra = sys.argv[3] if len(sys.argv) > 3 else ''
p = [json.loads(l) for l in open('/verif/properties.jsonl') if json.loads(l)['id'] == pid][0]
print(f"""You are working in a scratch git worktree of the open-source Python project txdbus (a pure-Python D-Bus implementation for Twisted) at {wt}. Work ONLY inside that directory (never touch /repo or /verif). Python is /venv/bin/python; always run it from the worktree root so that the worktree's own `txdbus` package is the one imported (check once with: cd {wt} && /venv/bin/python -c 'import txdbus; print(txdbus.__file__)').

Here is a semantic property that txdbus is supposed to satisfy:

  TITLE: {p['title']}
  STATEMENT: {p['statement']}
  IT MUST HOLD FOR: {p['quantifier']['text']}

YOUR TASK: produce ONE realistic change to the txdbus package (files under txdbus/ only) that BREAKS this property, of the kind a maintainer could plausibly introduce by accident (a refactoring slip, an off-by-one, a wrong or dropped condition, a forgotten cleanup, two sites that no longer agree, a mishandled corner case) - not sabotage that is obvious at a glance, and not a change that ordinary use would expose at once. Prefer a change that needs something SPECIFIC to manifest: an unusual input, a particular interleaving or ordering of events, a multi-step sequence of operations, a fault at a particular point, big-endian rather than little-endian, a particular alignment/offset, or two cooperating sites that each look fine alone. {extra}

HARD REQUIREMENTS
1. With your change applied the package still imports, and the existing test suite gives exactly the baseline result. Baseline on the unmodified tree (offline sandbox, no D-Bus daemon): 164 passed, 3 failed (tests/test_authentication.py::DBusCookieCookieHandlingTester x3 - they always fail here), 97 skipped. Run the suite ONLY like this (the flock matters: the suite binds a fixed socket name and several people share this machine):
     cd {wt} && flock /tmp/txdbus-pytest.lock /venv/bin/python -m pytest -q -p no:cacheprovider tests
   The set of passing tests must be identical with and without your change.
2. Write a demonstration {wt}/_seed/demo.py: a small stand-alone program (run as: cd {wt} && /venv/bin/python _seed/demo.py) that exercises real txdbus code (it may drive internal classes directly with fake transports/protocols; it needs no D-Bus daemon and no network) and exits 0 when the property holds for the scenario it tries and exits non-zero (with a short message saying what went wrong) when it is violated. It MUST exit 0 on the unmodified tree and non-zero with your change applied. Verify both yourself (use `git diff -- txdbus > _seed/p.diff; git checkout -- txdbus; ...; git apply _seed/p.diff`; never use `git stash`: the stash is shared with other worktrees).
3. Save the change as {wt}/_seed/patch.diff (output of: cd {wt} && git diff -- txdbus), and leave the change applied in the worktree.
4. Write {wt}/_seed/meta.json with keys: "property" ("{pid}"), "summary" (one sentence: what the change does), "needs_to_manifest" (what specific input / sequence / interleaving is needed), "files" (list of files changed), "why_tests_miss_it" (one sentence), "commands_run" (the commands you used to verify: suite result with the change, demo result without and with).
Do not commit anything. Do not modify files under tests/. Keep the change small (typically 1-10 lines). When you are done, reply with a 5-line summary (what you changed, where, what it needs to manifest, suite result, demo results).""")
