"""debug helper: dump interpreter paths of a function"""
import sys
sys.path.insert(0, '/verif')
from txsa.loader import Program
from txsa.sym import Interp, term_str, C, iter_events

def show_trace(tr, ind='    '):
    for ev in tr:
        if ev[0] == 'call':
            print(ind + 'call', term_str(ev[1]))
        elif ev[0] == 'loop':
            print(ind + 'loop', ev[1], ev[2], term_str(ev[3]) if ev[3] else '')
            for bp in ev[4]:
                print(ind + '  body-path', bp.outcome, [ (term_str(c),p) for c,p in bp.cond], {k:v for k,v in bp.deltas.items() if v and v[1]})
                show_trace(bp.trace, ind + '      ')
        elif ev[0] in ('setattr',):
            print(ind + 'setattr', term_str(ev[1]), ev[2], term_str(ev[3]))
        elif ev[0] in ('setsub',):
            print(ind + 'setsub', term_str(ev[1]), term_str(ev[2]), term_str(ev[3]))
        elif ev[0] in ('delsub',):
            print(ind + 'delsub', term_str(ev[1]), term_str(ev[2]))
        elif ev[0] == 'mutate':
            print(ind + 'mutate', term_str(ev[1]), ev[2], [term_str(a) for a in ev[3]])
        elif ev[0] in ('raise','yield','assert'):
            print(ind + ev[0], term_str(ev[1]))
        else:
            print(ind + str(ev[:3]))

if __name__ == '__main__':
    prog = Program()
    qn = sys.argv[1]
    env = {}
    inl = set(sys.argv[2:])
    it = Interp(prog, inline=lambda q, d: q in inl or ('*' in inl))
    fi = prog.func(qn)
    paths = it.run(fi)
    print(len(paths), 'paths')
    for i, p in enumerate(paths):
        print('--- path', i, p.outcome, term_str(p.value))
        print('  cond:', [(term_str(c), pol) for c, pol in p.cond])
        show_trace(p.trace)
