"""Regenerate the baseline tables the loader uses to recognise renames and extracted helpers:
txsa/known_funcs.txt (qualified function names), txsa/known_fps.json (body fingerprints of
top-level functions and methods) txsa/known_attrs.json (usage profile of every attribute
name) and txsa/known_globals.json (value dumps of module-level names bound once).  Run it ONLY when the rules have been brought up to date with the tree in /repo."""
import json, sys
sys.path.insert(0, '/verif')
from txsa import loader
loader._FPS = {}
loader._APROF = {}
loader._KG = {}
loader.Program._KNOWN = False
prog = loader.Program('/repo')
open('/verif/txsa/known_funcs.txt', 'w').write('\n'.join(sorted(prog.all_funcs)) + '\n')
fps = {q: loader.body_fingerprint(fi.node) for q, fi in prog.all_funcs.items() if fi.parent is None}
json.dump(fps, open('/verif/txsa/known_fps.json', 'w'), indent=0, sort_keys=True)
prof = loader.attr_profiles({m.name: m.tree for m in prog.modules.values()}, {})
json.dump(prof, open('/verif/txsa/known_attrs.json', 'w'), indent=0, sort_keys=True)
kg = {m.name: {n: loader._dump(v[0]) for n, v in m.assigns.items() if len(v) == 1} for m in prog.modules.values()}
json.dump(kg, open('/verif/txsa/known_globals.json', 'w'), indent=0, sort_keys=True)
print(len(prog.all_funcs), 'functions,', len(fps), 'fingerprints,', len(prof), 'attribute profiles')
