"""Regenerate /verif/MANIFEST.json from the rule modules' META and NA table."""
import importlib, json, os, sys
sys.path.insert(0, '/verif')
props = [json.loads(l) for l in open('/verif/properties.jsonl')]
TECH = {}
checks, na = [], []
from txsa import manifest_meta as MM
for p in props:
    pid = p['id']
    try:
        mod = importlib.import_module('txsa.rules.%s' % pid.lower())
    except ModuleNotFoundError:
        mod = None
    if mod is None or pid in MM.NOT_APPLICABLE:
        na.append({'property_id': pid, 'reason': MM.NOT_APPLICABLE.get(
            pid, 'check not built yet (see DESIGN.md section 2 for the planned clauses)')})
        continue
    meta = mod.META
    checks.append({
        'property_id': pid,
        'quick_cmd': './check %s --tier quick' % pid,
        'thorough_cmd': './check %s --tier thorough' % pid,
        'evidence_file': '/verif/evidence/%s.json' % pid,
        'replay_cmd_template': './check %s --replay {path}' % pid,
        'engine': 'txsa',
        'level_claimed': {
            'category': meta['level'],
            'text': MM.LEVEL_TEXT.get(pid) or (
                'Decides the clauses ' + '; '.join(['D0 names resolve in the anchored modules', 'DM run-time module state is a sound memo / decorators are transparent on the reachable functions', 'DP syntactic Python pitfalls absent from the reachable functions', 'DX the premise clauses of collaborating properties (txsa/premises.py)'] + list(meta.get('decided', []))) +
                ' on every path/instance of the current tree. A pass means every decided clause holds; it never '
                'means the whole behavioural statement was established. Not decided: ' +
                '; '.join(meta.get('undecided', []))),
            'design_ref': 'DESIGN.md section 2, %s' % pid,
        },
        'level_note': 'Trusted base: ' + '; '.join(meta.get('trusted_base', [])) +
                      '. Assumptions: ' + '; '.join(meta.get('assumptions', [])),
        'technique': MM.TECHNIQUE.get(pid, 'static analysis: AST abstract interpretation (term domain) + rule checks') +
        '; common clauses: symtable scope analysis (D0), def-use / call-graph lint of run-time module state and decorators (DM), syntactic pitfall lint over the reachable functions (DP)',
    })
m = {
    'version': 1,
    'setup_cmd': 'true',
    'hooks': {'guard': 'TXDBUS_VERIF',
              'enable': 'no source hooks: the checks are static and read /repo\'s working tree directly',
              'baseline_off_cmd': 'cd /repo && /venv/bin/python -m pytest -ra -q -p no:cacheprovider --timeout=900 --continue-on-collection-errors tests',
              'source_commits': [], 'add_only': True},
    'engines': [{'name': 'txsa', 'path': '/verif/txsa',
                 'serves_properties': [c['property_id'] for c in checks],
                 'kind_free_text': 'repository-specific static analyser: ast loader/symbols, path-sensitive abstract interpreter over a term domain with loop summaries, affine normal forms, FSM extraction, regex/predicate automata, spec tables'}],
    'checks': checks,
    'notes': 'Static analysis only (no txdbus code is imported or executed by any check). exit 0 = all decided clauses hold; exit 1 + VIOLATION line; exit 2 + ANALYSIS-ERROR = analyser could not do its job. Known findings: /verif/known_findings.txt. Self-test of the rules: python -m txsa.selftest.',
    'not_applicable': na,
}
json.dump(m, open('/verif/MANIFEST.json', 'w'), indent=1)
print('checks:', [c['property_id'] for c in checks], 'n/a:', len(na))
