#!/bin/bash
# tools/keep_round.sh <worktree-suffix> <round-tag>     e.g.  tools/keep_round.sh f r6
# Verifies and keeps every finished seed of a round (/tmp/wt/Cnn<suffix>/_seed/{patch.diff,demo.py,meta.json}),
# naming it Cnn-<round>-<slug of the summary>.  Sequential (the suite must not run concurrently).
SUF=$1; TAG=$2
for wt in /tmp/wt/C??$SUF; do
  [ -f $wt/_seed/patch.diff ] || continue
  P=$(basename $wt | cut -c1-3)
  slug=$(/venv/bin/python - $wt <<'PY' 2>/dev/null
import json, re, sys
try:
    m = json.load(open(sys.argv[1] + '/_seed/meta.json'))
    s = m.get('summary', '')
except Exception:
    s = ''
w = [x for x in re.findall(r'[A-Za-z_]+', s.lower()) if x not in ('the','a','an','in','of','to','is','now','and','that','it','its','so','for','on','with','by','instead','no','longer','from')][:6]
print('-'.join(w)[:48] or 'seed')
PY
)
  id="$P-$TAG-$slug"
  if ls -d /verif/seeded/$P-$TAG-* >/dev/null 2>&1; then echo "$P: already kept"; continue; fi
  /verif/tools/keep_seed.sh $P $wt $id 2>&1 | tail -1 | cut -c1-170
done
