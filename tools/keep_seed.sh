#!/bin/bash
# tools/keep_seed.sh <PID> <worktree> <seed-id>   -- verify and keep a seeded change under /verif/seeded/<seed-id>/
set -u
PID=$1; WT=$2; ID=$3
D=/verif/seeded/$ID
mkdir -p $D
/verif/tools/verify_seed.sh $PID $WT $ID 2>&1 | grep -v conda > $D/verify.log
cp $WT/_seed/patch.diff $WT/_seed/demo.py $D/
/venv/bin/python - "$PID" "$WT" "$D" <<'PY'
import json, sys, re
pid, wt, d = sys.argv[1:4]
try:
    meta = json.load(open(wt + '/_seed/meta.json'))
except Exception as e:
    meta = {'property': pid, 'note': 'agent meta.json unreadable: %s' % e}
log = open(d + '/verify.log').read()
fires = re.findall(r'^(C\d\d): FIRES', log, re.M)
errs = re.findall(r'^(C\d\d): ANALYSIS-ERROR', log, re.M)
m = re.search(r'== demo on clean tree\nexit=(\d+)', log); clean = int(m.group(1)) if m else None
m = re.search(r'== demo with patch\nexit=(\d+)', log); patched = int(m.group(1)) if m else None
m = re.search(r'== suite with patch\n(.*)', log); suite = m.group(1) if m else None
meta['breaks_property'] = pid
meta['confirmed'] = {
    'demo_exit_on_clean_tree': clean, 'demo_exit_with_patch': patched,
    'suite_with_patch': suite,
    'what_was_run': 'tools/verify_seed.sh: demo.py on the clean worktree and with patch.diff applied; the pinned suite (serially, under flock) with the patch; then `git -C /repo apply patch.diff`, every ./check <id> --tier quick, `git -C /repo checkout -- .`',
}
meta['checks_that_fire'] = fires
meta['checks_with_analysis_error'] = errs
meta['findings'] = re.findall(r'^FINDING (\S+)', log, re.M)[:8]
json.dump(meta, open(d + '/meta.json', 'w'), indent=1)
print(pid, 'clean', clean, 'patched', patched, '|', suite, '| fires:', fires, 'errors:', errs)
PY
