"""print the sub-agent prompt for behaviour-preserving PERFORMANCE / STRUCTURE changes (benign variants of a third kind: state and sharing done right)"""
import sys
wt, files, n = sys.argv[1], sys.argv[2], sys.argv[3]
print(f"""You are working in a scratch git worktree of the open-source Python project txdbus (a pure-Python D-Bus implementation for Twisted) at {wt}. Work ONLY inside that directory (never touch /repo or /verif). Python is /venv/bin/python; run it from the worktree root (use PYTHONPATH={wt} for your own scripts).

YOUR TASK: produce {n} separate, independent PERFORMANCE or STRUCTURE changes to the code in: {files}. Each one is something a maintainer might really commit to make the code faster or tidier and that leaves every observable behaviour exactly as it is - for every input, every byte order, every call order and every number of instances / connections in one process: a CORRECT cache or memo (module-level dict, functools.lru_cache, per-instance cache - keyed by everything the result depends on, holding immutable values, never remembering a failure), a precomputed lookup table or compiled struct.Struct, a fast path that is exactly equivalent to the general path, hoisting an invariant computation out of a loop (only if it really is invariant), splitting a function into a thin wrapper and a core, a small decorator that adds nothing but delegation, turning a loop into a comprehension or a generator into a list (or back), replacing a chain of ifs by a dispatch table, `for ... else`, early returns / guard clauses, local aliases for attributes that do not change in between. Prefer changes that introduce STATE or SHARING done right (that is what reviewers find hardest to judge).

Do not change behaviour: no new validation, no change to which exception is raised or when it is raised relative to other observable effects, no change of defaults, no reordering of sends/callbacks, nothing remembered across calls that could change an answer. If you are not sure a change is exactly behaviour-preserving, do not make it.

FOR EACH change i = 01..{n}:
 1. start from the clean tree (`git checkout -- txdbus`), make the change, save it as {wt}/_ref/i.diff (`git diff -- txdbus > _ref/i.diff`), and write one line describing it to {wt}/_ref/i.txt.
 2. with only that change applied, run the test suite ONLY like this (the flock matters, the suite binds a fixed socket name and the machine is shared):
      cd {wt} && flock /tmp/txdbus-pytest.lock /venv/bin/python -m pytest -q -p no:cacheprovider tests
    The expected result is exactly the baseline: 164 passed, 3 failed (tests/test_authentication.py::DBusCookieCookieHandlingTester x3 always fail here), 97 skipped.
 3. `git checkout -- txdbus` before the next one. Never use `git stash`. Do not commit anything. Do not modify tests/.
Each .diff must apply on its own to the clean tree (`git apply --check _ref/i.diff`).

When you are done, leave the tree clean and reply with a short list: i, file/class/function, one-line description, and why existing behaviour is untouched.""")
