#!/bin/bash
# Regenerate evidence on the CLEAN /repo tree, regenerate MANIFEST.json, validate both. Run before every commit.
set -u
cd /verif
if ! git -C /repo diff --quiet; then echo "/repo is dirty - refusing"; exit 2; fi
rc=0
for i in $(seq -w 1 20); do
  out=$(./check C$i --tier quick 2>&1 | grep -v conda)
  if echo "$out" | grep -q "VIOLATION\|ANALYSIS-ERROR"; then echo "$out" | grep "VIOLATION\|ANALYSIS" | head -3; rc=1; fi
done
/venv/bin/python tools/gen_manifest.py >/dev/null 2>&1
python3-vt - <<'PY' || rc=1
import json, jsonschema, glob, sys
m = json.load(open('/verif/MANIFEST.json'))
jsonschema.validate(m, json.load(open('/root/.vp/MANIFEST.schema.json')))
es = json.load(open('/root/.vp/EVIDENCE.schema.json'))
bad = 0
for f in sorted(glob.glob('/verif/evidence/C*.json')):
    e = json.load(open(f))
    jsonschema.validate(e, es)
    c = e['coverage']
    if c.get('discharged') != c.get('obligations') or e.get('violations'):
        print('evidence not clean:', f, c.get('discharged'), c.get('obligations'), e.get('violations'))
        bad += 1
print('manifest + %d evidence files valid' % len(glob.glob('/verif/evidence/C*.json')), '(%d not clean)' % bad)
sys.exit(1 if bad else 0)
PY
exit $rc
