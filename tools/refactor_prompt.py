"""print the sub-agent prompt for behaviour-preserving refactorings (benign variants)"""
import sys
wt, files, n = sys.argv[1], sys.argv[2], sys.argv[3]
print(f"""You are working in a scratch git worktree of the open-source Python project txdbus (a pure-Python D-Bus implementation for Twisted) at {wt}. Work ONLY inside that directory (never touch /repo or /verif). Python is /venv/bin/python; run it from the worktree root.

YOUR TASK: produce {n} separate, independent, BEHAVIOUR-PRESERVING refactorings of the code in: {files}. Each one is the kind of clean-up a maintainer might really commit: restructure control flow (early returns / guard clauses instead of nested if-else, or the reverse; merge or split conditions; invert a condition and swap the branches), replace a loop by a comprehension / any() / all() / next() or the reverse, `d.get(k)` + None test instead of `k in d` + `d[k]` (or the reverse), `dict.pop` instead of get + del, `items()` instead of keys() + subscript, tuple unpacking vs indexing, conditional expression instead of `x and a or b`, a local variable introduced or inlined, a small private helper function/method extracted or inlined, a lookup table instead of an if/elif chain (or the reverse), str.format / f-string / % / concatenation swapped, `partition` vs `split(..., 1)`, `struct.unpack_from` with offset vs unpack of a slice, while-loop vs for-loop, etc. Change STRUCTURE, not just names or comments; spread the {n} refactorings over different functions and different styles; keep each one small (typically 3-25 changed lines) and confined to one or two functions.

"Behaviour-preserving" is strict: for EVERY input and state the refactored code must do exactly what the original does - same return values, same bytes on the wire, same exceptions of the same types raised at the same points, same order of side effects (sends, callbacks, table updates), same attribute values left behind. Do not fix bugs, do not add validation, do not change defaults, do not reorder sends or callbacks, do not change which exception is raised. If you are not sure a rewrite is exactly equivalent, choose a different one.

FOR EACH refactoring i = 01..{n}:
 1. start from the clean tree (`git checkout -- txdbus`), make the change, save it as {wt}/_ref/i.diff (`git diff -- txdbus > _ref/i.diff`), and write one line describing it to {wt}/_ref/i.txt (function(s) touched + what was restructured).
 2. with only that change applied, run the test suite ONLY like this (the flock matters, the suite binds a fixed socket name and the machine is shared):
      cd {wt} && flock /tmp/txdbus-pytest.lock /venv/bin/python -m pytest -q -p no:cacheprovider tests
    The expected result is exactly the baseline: 164 passed, 3 failed (tests/test_authentication.py::DBusCookieCookieHandlingTester x3 always fail here), 97 skipped. If it differs, fix or replace the refactoring.
 3. `git checkout -- txdbus` before the next one. Never use `git stash` (the stash is shared with other worktrees). Do not commit anything. Do not modify tests/.
Each .diff must apply on its own to the clean tree (`git apply --check _ref/i.diff`).

When you are done, leave the tree clean and reply with a short list: i, file/function, one-line description, and how sure you are that it is exactly equivalent.""")
