"""Write a copy of /repo/txdbus in which every function-local variable (not a parameter,
not global/nonlocal) is renamed N -> N_r.  Behaviour-preserving by construction; used to
test that no rule depends on the spelling of a local variable."""
import ast, os, shutil, sys
src, dst = sys.argv[1], sys.argv[2]
shutil.rmtree(dst, ignore_errors=True)
shutil.copytree(src, dst)


def params_of(fn):
    a = fn.args
    out = {x.arg for x in a.posonlyargs + a.args + a.kwonlyargs}
    if a.vararg:
        out.add(a.vararg.arg)
    if a.kwarg:
        out.add(a.kwarg.arg)
    return out


def rename_closures(fn):
    """nested def N -> N_r, with every reference inside fn"""
    names = {n.name for n in ast.walk(fn)
             if isinstance(n, (ast.FunctionDef, ast.AsyncFunctionDef)) and n is not fn}
    allnames = {n.id for n in ast.walk(fn) if isinstance(n, ast.Name)}
    ren = {nm: nm + '_r' for nm in names if nm + '_r' not in allnames}
    for n in ast.walk(fn):
        if isinstance(n, ast.Name) and n.id in ren:
            n.id = ren[n.id]
        if isinstance(n, (ast.FunctionDef, ast.AsyncFunctionDef)) and n is not fn and n.name in ren:
            n.name = ren[n.name]
    return len(ren)


CLOSURES = '--closures' in sys.argv


def process(fn):
    if CLOSURES:
        return rename_closures(fn)
    banned = set()
    stored = set()
    for n in ast.walk(fn):
        if isinstance(n, (ast.FunctionDef, ast.AsyncFunctionDef, ast.Lambda)):
            banned |= params_of(n)
            if not isinstance(n, ast.Lambda) and n is not fn:
                banned.add(n.name)
        elif isinstance(n, (ast.Global, ast.Nonlocal)):
            banned |= set(n.names)
        elif isinstance(n, ast.ClassDef):
            banned.add(n.name)
        elif isinstance(n, ast.Name) and isinstance(n.ctx, (ast.Store, ast.Del)):
            stored.add(n.id)
        elif isinstance(n, (ast.Import, ast.ImportFrom)):
            for al in n.names:
                banned.add((al.asname or al.name).split('.')[0])
        elif isinstance(n, ast.ExceptHandler) and n.name:
            banned.add(n.name)
    names = stored - banned
    allnames = {n.id for n in ast.walk(fn) if isinstance(n, ast.Name)}
    ren = {}
    for nm in names:
        new = nm + '_r'
        if new in allnames or new in banned:
            continue
        ren[nm] = new
    for n in ast.walk(fn):
        if isinstance(n, ast.Name) and n.id in ren:
            n.id = ren[n.id]
    return len(ren)


total = 0
for root, _, files in os.walk(dst):
    for f in files:
        if not f.endswith('.py'):
            continue
        p = os.path.join(root, f)
        tree = ast.parse(open(p).read())
        for node in tree.body:
            if isinstance(node, (ast.FunctionDef, ast.AsyncFunctionDef)):
                total += process(node)
            elif isinstance(node, ast.ClassDef):
                for m in node.body:
                    if isinstance(m, (ast.FunctionDef, ast.AsyncFunctionDef)):
                        total += process(m)
        open(p, 'w').write(ast.unparse(tree) + '\n')
print('renamed', total, 'locals')
