"""Copy of /repo/txdbus with a set of private methods/functions renamed (definition + every attribute/name
reference in the package).  Behaviour-preserving; tests the rename-aliasing of the loader."""
import ast, os, shutil, sys
src, dst = sys.argv[1], sys.argv[2]
names = sys.argv[3:]
shutil.rmtree(dst, ignore_errors=True); shutil.copytree(src, dst)
ren = {n: n + 'X' for n in names}
for root, _, files in os.walk(dst):
    for f in files:
        if not f.endswith('.py'): continue
        p = os.path.join(root, f); tree = ast.parse(open(p).read())
        for n in ast.walk(tree):
            if isinstance(n, (ast.FunctionDef, ast.AsyncFunctionDef)) and n.name in ren: n.name = ren[n.name]
            elif isinstance(n, ast.Attribute) and n.attr in ren: n.attr = ren[n.attr]
            elif isinstance(n, ast.Name) and n.id in ren: n.id = ren[n.id]
        open(p, 'w').write(ast.unparse(tree) + '\n')
print('renamed', sorted(ren))
