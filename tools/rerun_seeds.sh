#!/bin/bash
# Re-run every kept seeded change against the CURRENT /repo tree: the patch is applied to a scratch copy of
# /repo/txdbus (one per seed, removed afterwards; /repo itself is not touched), every quick check is run on
# the copy with --src, and seeded/<id>/meta.json is updated (checks_that_fire, findings, rechecked_at).
# 16 seeds at a time.
HEAD=$(git -C /repo rev-parse --short HEAD)
S=$(mktemp -d /tmp/seedrerun.XXXXXX)
one() {
  d=$1; S=$2; HEAD=$3
  id=$(basename $d)
  W=$S/$id; mkdir -p $W; cp -r /repo/txdbus $W/txdbus
  if ! (cd $W && patch -s -p1 < $d/patch.diff >/dev/null 2>&1); then
    echo "$id | patch does not apply to /repo@$HEAD (kept as recorded)"; rm -rf $W; return
  fi
  fires=""; finds=""
  for C in C01 C02 C03 C04 C05 C06 C07 C08 C09 C10 C11 C12 C13 C14 C15 C16 C17 C18 C19 C20; do
    out=$(cd /verif && TXSA_EVIDENCE_OUT=$W/ev_$C.json ./check $C --src $W 2>&1 | grep -v conda)
    if echo "$out" | grep -q '^VIOLATION'; then fires="$fires $C"; finds="$finds$(echo "$out" | grep '^FINDING' | head -2 | cut -c9-140 | tr '\n' ';')"; fi
    if echo "$out" | grep -q 'ANALYSIS-ERROR'; then fires="$fires $C(analysis-error)"; fi
  done
  rm -rf $W
  echo "$id | applies | fires:$fires"
  /venv/bin/python - "$d/" "$fires" "$finds" "$HEAD" <<'PY'
import json, sys
d, fires, finds, head = sys.argv[1:5]
m = json.load(open(d + 'meta.json'))
m['checks_that_fire'] = fires.split()
m['findings'] = [f for f in finds.split(';') if f][:6]
m['rechecked_at_repo_commit'] = head
json.dump(m, open(d + 'meta.json', 'w'), indent=1)
PY
}
export -f one
ls -d /verif/seeded/*/ | sed 's:/$::' | xargs -P 16 -I{} bash -c 'one {} '$S' '$HEAD | sort
rm -rf $S
