#!/bin/bash
# Re-run every kept seeded change against the CURRENT /repo: apply patch, run all quick checks, undo.
mkdir -p /tmp/seedscratch
# Updates seeded/<id>/meta.json (checks_that_fire, findings, rechecked_at).
cd /repo || exit 2
if ! git diff --quiet; then echo "/repo dirty, abort"; exit 2; fi
HEAD=$(git rev-parse --short HEAD)
for d in /verif/seeded/*/; do
  id=$(basename $d)
  if git apply --check $d/patch.diff 2>/dev/null; then
    git apply $d/patch.diff
    fires=""; finds=""
    for c in $(ls /verif/txsa/rules | grep -o '^c[0-9][0-9]' | sort -u); do
      C=$(echo $c | tr c C)
      out=$(cd /verif && TXSA_EVIDENCE_OUT=/tmp/seedscratch/ev_rerun_$C.json ./check $C 2>&1 | grep -v conda)
      if echo "$out" | grep -q '^VIOLATION'; then fires="$fires $C"; finds="$finds$(echo "$out" | grep '^FINDING' | head -2 | cut -c9-140 | tr '\n' ';')"; fi
      if echo "$out" | grep -q 'ANALYSIS-ERROR'; then fires="$fires $C(analysis-error)"; fi
    done
    git checkout -- .
    echo "$id | applies | fires:$fires"
    /venv/bin/python - "$d" "$fires" "$finds" "$HEAD" <<'PY'
import json, sys
d, fires, finds, head = sys.argv[1:5]
m = json.load(open(d + 'meta.json'))
m['checks_that_fire'] = fires.split()
m['findings'] = [f for f in finds.split(';') if f][:6]
m['rechecked_at_repo_commit'] = head
json.dump(m, open(d + 'meta.json', 'w'), indent=1)
PY
  else
    echo "$id | patch does not apply to /repo@$HEAD (kept as recorded)"
  fi
done
rm -rf /tmp/seedscratch
