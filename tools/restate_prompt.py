"""print the sub-agent prompt for behaviour-preserving RESTATEMENTS of a rule in the words of the specification (benign variants of an eighth kind)"""
import sys
wt, files, n = sys.argv[1], sys.argv[2], sys.argv[3]
base = open('/verif/tools/errh_prompt.py').read()
i = base.index('print(f"""') + len('print(f"""')
j = base.rindex('""")')
tmpl = base[i:j]
a = tmpl.index('YOUR TASK:')
b = tmpl.index('FOR EACH change')
task = '''YOUR TASK: produce {n} separate, independent changes that RESTATE a rule the code already implements in the words of the D-Bus specification (or of the Twisted documentation), in: {files}. Each is something a maintainer who has just re-read the specification might commit to make the code read like the text - and gets it RIGHT: every observable behaviour stays exactly as it is, for every input, byte order, call order and number of instances. Kinds to draw from (use a different kind for each change): rewrite a limit test in the spec's wording (`len(x) > 255` as `not len(x) <= 255`, or with a named module constant `MAX_NAME_LENGTH = 255`); rewrite a prefix / namespace / path test literally as the spec states it, when that is equivalent; replace magic numbers (message types 1-4, header field codes, reply codes, flag bits) by named constants with the spec's names; split a compound condition into the spec's separate sentences (several `if`s raising the same error) or merge such `if`s into one; reorder the independent checks of a validator into the order the spec lists them, when no input can tell the difference (same exception type; the message may differ); express an alignment computation with the spec's formula when equal for all offsets; add a comment quoting the rule. Do NOT change what is accepted, rejected, sent, stored or announced.

'''
print((tmpl[:a] + task + tmpl[b:]).format(wt=wt, files=files, n=n))
