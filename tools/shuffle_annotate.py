"""Behaviour-preserving mechanical variants of /repo/txdbus for robustness tests:
  --reverse-methods : methods of every class in reverse order (class-level assignments kept first in place order)
  --annotate        : every parameter and return annotated (object / None-free), docstrings removed
"""
import ast, os, shutil, sys
src, dst = sys.argv[1], sys.argv[2]
shutil.rmtree(dst, ignore_errors=True); shutil.copytree(src, dst)
REV = '--reverse-methods' in sys.argv
ANN = '--annotate' in sys.argv
for root, _, files in os.walk(dst):
    for f in files:
        if not f.endswith('.py'): continue
        p = os.path.join(root, f); tree = ast.parse(open(p).read())
        for node in ast.walk(tree):
            if REV and isinstance(node, ast.ClassDef):
                funcs = [b for b in node.body if isinstance(b, ast.FunctionDef) and not b.decorator_list]
                # only reorder plain methods that no class-level statement refers to by name
                names = {b.name for b in funcs}
                used = {n.id for b in node.body if not isinstance(b, ast.FunctionDef) for n in ast.walk(b) if isinstance(n, ast.Name)}
                movable = [b for b in funcs if b.name not in used]
                slots = [i for i, b in enumerate(node.body) if b in movable]
                for i, b in zip(slots, reversed(movable)):
                    node.body[i] = b
            if ANN and isinstance(node, (ast.FunctionDef, ast.AsyncFunctionDef)):
                for a in node.args.posonlyargs + node.args.args + node.args.kwonlyargs:
                    if a.arg not in ('self', 'cls'):
                        a.annotation = ast.Name(id='object', ctx=ast.Load())
                if node.body and isinstance(node.body[0], ast.Expr) and isinstance(node.body[0].value, ast.Constant) and isinstance(node.body[0].value.value, str) and len(node.body) > 1:
                    node.body = node.body[1:]
        ast.fix_missing_locations(tree)
        open(p, 'w').write(ast.unparse(tree) + '\n')
print('ok')
