"""print the sub-agent prompt for behaviour-preserving changes that SHARE or ALIGN code between sibling functions (benign variants of a seventh kind)"""
import sys
wt, files, n = sys.argv[1], sys.argv[2], sys.argv[3]
base = open('/verif/tools/errh_prompt.py').read()
i = base.index('print(f"""') + len('print(f"""')
j = base.rindex('""")')
tmpl = base[i:j]
a = tmpl.index('YOUR TASK:')
b = tmpl.index('FOR EACH change')
task = '''YOUR TASK: produce {n} separate, independent changes that SHARE or ALIGN code between SIBLING functions in: {files}. txdbus has many pairs of near-identical code (the handler for returns and the handler for errors, encode and decode of one type, export and unexport, Get and Set, the client side and the bus side of one exchange, the four message classes, RequestName and ReleaseName, addMethod and addSignal, the validators). Each change is something a careful maintainer might really commit - and gets it RIGHT: it leaves every observable behaviour exactly as it is, for every input, byte order, call order and number of instances. Kinds to draw from (use a different kind for each change): copy a block from one sibling into the other and adapt EVERY identifier, constant and condition correctly (giving the second sibling a feature or a guard the first already had, where that changes nothing observable - e.g. an equivalent restructuring); extract the lines two siblings share into one helper that both call (parameterised by what differs); give a sibling that delegated to another its own body, equivalent to the delegation; rename the local variables of one sibling to match the other; reorder independent statements of one sibling to the order of the other; replace a sibling's hand-written test by a call to the predicate its sibling uses when the two are equivalent on that sibling's inputs. Do NOT change what is accepted, rejected, sent, stored or announced.

'''
print((tmpl[:a] + task + tmpl[b:]).format(wt=wt, files=files, n=n))
