#!/bin/bash
# tools/try_refactors.sh <dir with NN.diff files> [out-prefix]
# Applies each diff to a scratch copy of /repo/txdbus and runs every quick check on it
# (evidence redirected, /repo untouched).  Prints one line per (diff, check) that is not silent.
set -u
DIR=$1
S=$(mktemp -d /tmp/reftry.XXXXXX)
run_one() {
  d=$1; S=$2
  n=$(basename $d .diff); tag=$(basename $(dirname $(dirname $d)))_$n
  W=$S/$tag; mkdir -p $W; cp -r ${BASE:-/repo}/txdbus $W/txdbus
  if ! (cd $W && patch -s -p1 < $d >/dev/null 2>&1); then echo "$tag: PATCH-DOES-NOT-APPLY"; rm -rf $W; return; fi
  for C in C01 C02 C03 C04 C05 C06 C07 C08 C09 C10 C11 C12 C13 C14 C15 C16 C17 C18 C19 C20; do
    out=$(cd /verif && TXSA_EVIDENCE_OUT=$W/ev_$C.json ./check $C --src $W 2>&1 | grep -v conda)
    rc=$?
    if echo "$out" | grep -q "^VIOLATION\|ANALYSIS-ERROR"; then
      echo "$tag $C: $(echo "$out" | grep -E '^FINDING|ANALYSIS-ERROR' | head -2 | cut -c1-260 | tr '\n' ' ')"
    fi
  done
  rm -rf $W
}
export -f run_one
ls $DIR/*.diff | xargs -P 16 -I{} bash -c 'run_one {} '$S
rm -rf $S
