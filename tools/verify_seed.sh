#!/bin/bash
# tools/verify_seed.sh <PID> <worktree> [seed-name]
mkdir -p /tmp/seedscratch
# Confirms a seeded change: demo passes on clean tree, fails with patch, suite unchanged;
# then applies it to /repo, runs every quick check, and reverts /repo.
set -u
PID=$1; WT=$2; NAME=${3:-$PID}
S=$WT/_seed
[ -f $S/patch.diff ] || { echo "no patch"; exit 2; }
cd $WT
git diff -- txdbus > /tmp/seedscratch/cur_$NAME.diff
git checkout -q -- txdbus
echo "== demo on clean tree"; /venv/bin/python _seed/demo.py >/tmp/seedscratch/demo_clean_$NAME.log 2>&1; echo "exit=$?"
git apply $S/patch.diff || { echo "patch does not apply to worktree"; exit 2; }
echo "== demo with patch"; /venv/bin/python _seed/demo.py >/tmp/seedscratch/demo_patched_$NAME.log 2>&1; echo "exit=$?"; tail -3 /tmp/seedscratch/demo_patched_$NAME.log
echo "== suite with patch"; flock /tmp/txdbus-pytest.lock /venv/bin/python -m pytest -q -p no:cacheprovider tests 2>&1 | tail -1
cd /repo
if ! git diff --quiet; then echo "/repo dirty, abort"; exit 2; fi
if git apply --check $S/patch.diff 2>/dev/null; then
  git apply $S/patch.diff
  echo "== checks on /repo with the patch"
  cd /verif
  for c in $(ls txsa/rules | grep -o '^c[0-9][0-9]' | sort -u); do
    C=$(echo $c | tr c C)
    out=$(TXSA_EVIDENCE_OUT=/tmp/seedscratch/ev_${NAME}_$C.json ./check $C 2>&1 | grep -v conda)
    rc=$(echo "$out" | grep -c '^VIOLATION')
    if [ "$rc" != "0" ]; then echo "$C: FIRES"; echo "$out" | grep '^FINDING' | head -3 | cut -c1-300; fi
    echo "$out" | grep -q 'ANALYSIS-ERROR' && echo "$C: ANALYSIS-ERROR $(echo "$out" | grep ANALYSIS-ERROR | cut -c1-200)"
  done
  git -C /repo checkout -- .
else
  echo "patch does not apply to current /repo (needs rebase)"
fi
rm -rf /tmp/seedscratch
