"""txsa - static analysis of cocagne/txdbus (see /verif/DESIGN.md).

Nothing in this package imports or executes txdbus.  Every verdict is computed
from the parsed source of $TXDBUS_SRC (default /repo).
"""
