"""Regular-language toolkit over a symbolic alphabet (used by C18).

* Alphabet: the coarsest partition of a code-point sample (all of U+0000..
  U+2FFF) respected by every character predicate in play; each class is named
  by a representative character.  Character predicates are evaluated on the
  representatives with Python's own `re`/`str` semantics.
* regex AST (re._parser) -> NFA -> DFA; boolean operations; emptiness with a
  shortest witness.
* strpred: translation of the string predicates used by validators into
  (true-language, raises-language) pairs.
Nothing here executes code of the analysed program: regex *patterns* are read
from the AST and parsed with re._parser.
"""
import ast
import re
import re._parser as sre_parse
import re._constants as sre_c
from collections import deque

from .loader import AnalysisError

SAMPLE = [chr(i) for i in range(0, 0x3000)]


class Alphabet:
    """Partition of SAMPLE by the signature under a list of predicates."""

    def __init__(self, predicates):
        self.predicates = list(predicates)
        sig = {}
        for ch in SAMPLE:
            key = tuple(bool(p(ch)) for p in self.predicates)
            sig.setdefault(key, ch)
        # prefer readable representatives
        self.reps = []
        for key, ch in sig.items():
            self.reps.append(ch)
        self.n = len(self.reps)
        self.index = {}
        keys = list(sig.keys())
        self._keys = keys

    def classes_where(self, pred):
        return frozenset(i for i, ch in enumerate(self.reps) if pred(ch))

    def word(self, w):
        return ''.join(self.reps[i] for i in w)


# ---------------------------------------------------------------------------
# DFA

class DFA:
    def __init__(self, n_sym, trans, start, accept):
        self.k = n_sym
        self.trans = trans        # list[state] -> list[sym] -> state
        self.start = start
        self.accept = set(accept)

    @property
    def n(self):
        return len(self.trans)

    def complement(self):
        return DFA(self.k, self.trans, self.start,
                   set(range(self.n)) - self.accept)

    def product(self, other, op):
        idx = {}
        trans = []
        acc = set()
        start = (self.start, other.start)
        idx[start] = 0
        trans.append(None)
        dq = deque([start])
        while dq:
            s = dq.popleft()
            row = []
            for a in range(self.k):
                t = (self.trans[s[0]][a], other.trans[s[1]][a])
                if t not in idx:
                    idx[t] = len(trans)
                    trans.append(None)
                    dq.append(t)
                row.append(idx[t])
            trans[idx[s]] = row
            if op(s[0] in self.accept, s[1] in other.accept):
                acc.add(idx[s])
        return DFA(self.k, trans, 0, acc)

    def __and__(self, o):
        return self.product(o, lambda a, b: a and b)

    def __or__(self, o):
        return self.product(o, lambda a, b: a or b)

    def __sub__(self, o):
        return self.product(o, lambda a, b: a and not b)

    def witness(self):
        """Shortest accepted word (list of symbols) or None."""
        prev = {self.start: None}
        dq = deque([self.start])
        while dq:
            s = dq.popleft()
            if s in self.accept:
                w = []
                while prev[s] is not None:
                    s, a = prev[s]
                    w.append(a)
                return list(reversed(w))
            for a in range(self.k):
                t = self.trans[s][a]
                if t not in prev:
                    prev[t] = (s, a)
                    dq.append(t)
        return None

    def is_empty(self):
        return self.witness() is None

    def minimize(self):
        # Moore partition refinement on reachable states
        part = [0 if s in self.accept else 1 for s in range(self.n)]
        while True:
            sigs = {}
            new = []
            for s in range(self.n):
                key = (part[s],) + tuple(part[t] for t in self.trans[s])
                if key not in sigs:
                    sigs[key] = len(sigs)
                new.append(sigs[key])
            if new == part or len(sigs) == len(set(part)):
                part = new
                break
            part = new
        m = max(part) + 1
        trans = [None] * m
        acc = set()
        for s in range(self.n):
            if trans[part[s]] is None:
                trans[part[s]] = [part[t] for t in self.trans[s]]
            if s in self.accept:
                acc.add(part[s])
        return DFA(self.k, trans, part[self.start], acc)


def dfa_all(k):
    return DFA(k, [[0] * k], 0, {0})


def dfa_none(k):
    return DFA(k, [[0] * k], 0, set())


# ---------------------------------------------------------------------------
# NFA fragments (Thompson) over class sets

class NFA:
    def __init__(self, k):
        self.k = k
        self.eps = []      # state -> set(states)
        self.mov = []      # state -> list of (frozenset(classes), target)

    def new(self):
        self.eps.append(set())
        self.mov.append([])
        return len(self.eps) - 1

    def add_assert(self, s, kind_, t):
        """zero-width \\b ('b') or \\B ('B') edge from s to t"""
        if not hasattr(self, 'asserts'):
            self.asserts = {}
        self.asserts.setdefault(s, []).append((kind_, t))

    def to_dfa_with_boundaries(self, start, final, is_word):
        """Subset construction over configurations (state, previous symbol
        is a word character, pending constraint on the next symbol: 0 none /
        1 must be a word character / 2 must not be one - end of input counts
        as not one).  A \\b edge needs next != previous, a \\B edge next ==
        previous."""
        asserts = getattr(self, 'asserts', {})

        def closure(C):
            st = list(C)
            out = set(C)
            while st:
                s, pw, pend = st.pop()
                nxt = [(t, pw, pend) for t in self.eps[s]]
                for kind_, t in asserts.get(s, ()):
                    need_word = (not pw) if kind_ == 'b' else bool(pw)
                    np_ = 1 if need_word else 2
                    if pend in (0, np_):
                        nxt.append((t, pw, np_))
                for c in nxt:
                    if c not in out:
                        out.add(c)
                        st.append(c)
            return frozenset(out)
        s0 = closure({(start, 0, 0)})
        idx = {s0: 0}
        trans = [None]
        dq = deque([s0])
        acc = set()
        while dq:
            S = dq.popleft()
            row = []
            for a in range(self.k):
                w = 1 if is_word[a] else 0
                T = set()
                for s, pw, pend in S:
                    if (pend == 1 and not w) or (pend == 2 and w):
                        continue
                    for cls, t in self.mov[s]:
                        if a in cls:
                            T.add((t, w, 0))
                T = closure(T)
                if T not in idx:
                    idx[T] = len(trans)
                    trans.append(None)
                    dq.append(T)
                row.append(idx[T])
            trans[idx[S]] = row
            if any(s == final and pend in (0, 2) for s, pw, pend in S):
                acc.add(idx[S])
        return DFA(self.k, trans, 0, acc).minimize()

    def to_dfa(self, start, final):
        def closure(S):
            st = list(S)
            out = set(S)
            while st:
                s = st.pop()
                for t in self.eps[s]:
                    if t not in out:
                        out.add(t)
                        st.append(t)
            return frozenset(out)
        s0 = closure({start})
        idx = {s0: 0}
        trans = [None]
        dq = deque([s0])
        acc = set()
        while dq:
            S = dq.popleft()
            row = []
            for a in range(self.k):
                T = set()
                for s in S:
                    for cls, t in self.mov[s]:
                        if a in cls:
                            T.add(t)
                T = closure(T)
                if T not in idx:
                    idx[T] = len(trans)
                    trans.append(None)
                    dq.append(T)
                row.append(idx[T])
            trans[idx[S]] = row
            if final in S:
                acc.add(idx[S])
        return DFA(self.k, trans, 0, acc).minimize()


class RegexCompiler:
    """re._parser AST -> NFA fragment over the alphabet's classes."""

    def __init__(self, alphabet, flags=0):
        self.ab = alphabet
        self.flags = flags

    def charset(self, pred):
        return self.ab.classes_where(pred)

    def item_pred(self, op, av):
        if op is sre_c.LITERAL:
            c = chr(av)
            return lambda ch: ch == c
        if op is sre_c.NOT_LITERAL:
            c = chr(av)
            return lambda ch: ch != c
        if op is sre_c.ANY:
            return lambda ch: ch != '\n'
        if op is sre_c.RANGE:
            lo, hi = av
            return lambda ch: lo <= ord(ch) <= hi
        if op is sre_c.CATEGORY:
            pat = {sre_c.CATEGORY_DIGIT: r'\d', sre_c.CATEGORY_NOT_DIGIT: r'\D',
                   sre_c.CATEGORY_WORD: r'\w', sre_c.CATEGORY_NOT_WORD: r'\W',
                   sre_c.CATEGORY_SPACE: r'\s',
                   sre_c.CATEGORY_NOT_SPACE: r'\S'}.get(av)
            if pat is None:
                raise AnalysisError('regex category %s unsupported' % av)
            rx = re.compile(pat)
            return lambda ch: rx.fullmatch(ch) is not None
        if op is sre_c.IN:
            neg = False
            preds = []
            for o2, a2 in av:
                if o2 is sre_c.NEGATE:
                    neg = True
                else:
                    preds.append(self.item_pred(o2, a2))
            if neg:
                return lambda ch: not any(p(ch) for p in preds)
            return lambda ch: any(p(ch) for p in preds)
        raise AnalysisError('regex construct %s unsupported' % (op,))

    def build(self, nfa, seq, at_end_ok=True):
        """Returns (start, end) fragment for a parsed sequence."""
        s = nfa.new()
        cur = s
        items = list(seq)
        for i, (op, av) in enumerate(items):
            if op in (sre_c.LITERAL, sre_c.NOT_LITERAL, sre_c.ANY, sre_c.IN,
                      sre_c.RANGE, sre_c.CATEGORY):
                t = nfa.new()
                nfa.mov[cur].append((self.charset(self.item_pred(op, av)),
                                     t))
                cur = t
            elif op is sre_c.SUBPATTERN:
                a, b = self.build(nfa, av[3])
                nfa.eps[cur].add(a)
                cur = b
            elif op is sre_c.BRANCH:
                t = nfa.new()
                for alt in av[1]:
                    a, b = self.build(nfa, alt)
                    nfa.eps[cur].add(a)
                    nfa.eps[b].add(t)
                cur = t
            elif op in (sre_c.MAX_REPEAT, sre_c.MIN_REPEAT,
                        getattr(sre_c, 'POSSESSIVE_REPEAT', None)):
                lo, hi, sub = av
                for _ in range(lo):
                    a, b = self.build(nfa, sub)
                    nfa.eps[cur].add(a)
                    cur = b
                if hi is sre_c.MAXREPEAT or hi == sre_c.MAXREPEAT:
                    a, b = self.build(nfa, sub)
                    t = nfa.new()
                    nfa.eps[cur].add(a)
                    nfa.eps[cur].add(t)
                    nfa.eps[b].add(a)
                    nfa.eps[b].add(t)
                    cur = t
                else:
                    if hi - lo > 300:
                        raise AnalysisError('regex repeat bound too large')
                    t = nfa.new()
                    nfa.eps[cur].add(t)
                    for _ in range(hi - lo):
                        a, b = self.build(nfa, sub)
                        nfa.eps[cur].add(a)
                        cur = b
                        nfa.eps[cur].add(t)
                    cur = t
            elif op is sre_c.AT and av in (sre_c.AT_BOUNDARY,
                                           sre_c.AT_NON_BOUNDARY):
                t = nfa.new()
                nfa.add_assert(cur, 'b' if av is sre_c.AT_BOUNDARY else 'B',
                               t)
                cur = t
            elif op is sre_c.AT:
                raise AnalysisError('regex anchor in the middle of a pattern '
                                    'is outside the supported fragment')
            elif op is sre_c.GROUPREF:
                raise AnalysisError('regex back-reference unsupported')
            else:
                raise AnalysisError('regex construct %s unsupported' % (op,))
        return s, cur

    def language(self, pattern, mode):
        """DFA of { s : re.<mode>(pattern, s) matches }, mode in
        search/match/fullmatch."""
        if isinstance(pattern, bytes):
            raise AnalysisError('bytes patterns unsupported')
        parsed = sre_parse.parse(pattern, self.flags)
        items = list(parsed)
        # a leading `(?:^|A)`: "at the start, or after A" - the union of the
        # pattern anchored at the start and the pattern with A in front
        if items:
            op0, av0 = items[0]
            br = None
            if op0 is sre_c.BRANCH:
                br = av0[1]
            elif op0 is sre_c.SUBPATTERN and av0[0] is None and \
                    len(av0[3]) == 1 and av0[3][0][0] is sre_c.BRANCH:
                br = av0[3][0][1][1]
            begs = (sre_c.AT_BEGINNING, sre_c.AT_BEGINNING_STRING)
            if br is not None and any(
                    len(alt) == 1 and alt[0][0] is sre_c.AT and
                    alt[0][1] in begs for alt in br):
                rest = items[1:]
                out = None
                for alt in br:
                    alt = list(alt)
                    d = self._language_items(alt + rest, mode)
                    out = d if out is None else out.product(
                        d, lambda x, y: x or y)
                return out.minimize()
        return self._language_items(items, mode)

    def _language_items(self, items, mode):
        anch_l = anch_r = None
        if items and items[0][0] is sre_c.AT and items[0][1] in (
                sre_c.AT_BEGINNING, sre_c.AT_BEGINNING_STRING):
            anch_l = items[0][1]
            items = items[1:]
        if items and items[-1][0] is sre_c.AT and items[-1][1] in (
                sre_c.AT_END, sre_c.AT_END_STRING):
            anch_r = items[-1][1]
            items = items[:-1]
        nfa = NFA(self.ab.k if hasattr(self.ab, 'k') else self.ab.n)
        start = nfa.new()
        final = nfa.new()
        a, b = self.build(nfa, items)
        allc = frozenset(range(self.ab.n))
        nl = self.ab.classes_where(lambda ch: ch == '\n')
        # left context
        if mode == 'search' and anch_l is None:
            nfa.mov[start].append((allc, start))
        nfa.eps[start].add(a)
        # right context
        if mode == 'fullmatch':
            nfa.eps[b].add(final)
            if anch_r is sre_c.AT_END:
                pass      # fullmatch needs the whole string anyway
        else:
            if anch_r is None:
                nfa.eps[b].add(final)
                nfa.mov[final].append((allc, final))
            elif anch_r is sre_c.AT_END:
                nfa.eps[b].add(final)       # end of string
                t = nfa.new()               # or before a final newline
                nfa.mov[b].append((nl, t))
                nfa.eps[t].add(final)
            else:
                nfa.eps[b].add(final)
        if getattr(nfa, 'asserts', None):
            rxw = re.compile(r'\w')
            is_word = [rxw.fullmatch(ch) is not None for ch in self.ab.reps]
            return nfa.to_dfa_with_boundaries(start, final, is_word)
        return nfa.to_dfa(start, final)


# ---------------------------------------------------------------------------

def dfa_from_words_pred(ab, kind_, arg):
    """Elementary languages built as regexes over literal characters."""
    rc = RegexCompiler(ab)
    esc = re.escape
    if kind_ == 'startswith':
        return rc.language(esc(arg), 'match')
    if kind_ == 'endswith':
        nfa = NFA(ab.n)
        s = nfa.new()
        f = nfa.new()
        allc = frozenset(range(ab.n))
        nfa.mov[s].append((allc, s))
        a, b = rc.build(nfa, list(sre_parse.parse(esc(arg))))
        nfa.eps[s].add(a)
        nfa.eps[b].add(f)
        return nfa.to_dfa(s, f)
    if kind_ == 'contains':
        return rc.language(esc(arg), 'search')
    if kind_ == 'equals':
        return rc.language(esc(arg), 'fullmatch')
    raise AnalysisError(kind_)


def dfa_len(ab, op, k):
    """{ s : len(s) <op> k } for small k."""
    if k > 64:
        raise AnalysisError('length constant too large for the automaton')
    n = k + 2
    trans = [[min(i + 1, n - 1)] * ab.n for i in range(n)]
    f = {'<': lambda l: l < k, '<=': lambda l: l <= k, '>': lambda l: l > k,
         '>=': lambda l: l >= k, '==': lambda l: l == k,
         '!=': lambda l: l != k}[op]
    acc = {i for i in range(n) if f(i)}
    return DFA(ab.n, trans, 0, acc)


def dfa_all_chars(ab, pred, empty=False):
    """{ s : every character of s satisfies pred } - with or without the
    empty string (str.isalnum() and friends are False on '', str.isascii()
    is True)."""
    cls = ab.classes_where(pred)
    allc = range(ab.n)
    # states: 0 start, 1 all good so far, 2 dead
    trans = [[1 if a in cls else 2 for a in allc],
             [1 if a in cls else 2 for a in allc], [2] * ab.n]
    return DFA(ab.n, trans, 0, {0, 1} if empty else {1})


def dfa_char_at(ab, pos, pred):
    """{ s : pred(s[pos]) } for pos in {0, -1}; strings too short are NOT in
    the language (they raise)."""
    cls = ab.classes_where(pred)
    allc = range(ab.n)
    if pos == 0:
        # states: 0 start, 1 yes, 2 no
        trans = [[1 if a in cls else 2 for a in allc], [1] * ab.n,
                 [2] * ab.n]
        return DFA(ab.n, trans, 0, {1})
    if pos == -1:
        # states: 0 (last not in cls / empty), 1 (last in cls)
        trans = [[1 if a in cls else 0 for a in allc],
                 [1 if a in cls else 0 for a in allc]]
        return DFA(ab.n, trans, 0, {1})
    if pos > 0:
        n = pos + 3
        trans = []
        for i in range(pos):
            trans.append([i + 1] * ab.n)
        trans.append([pos + 1 if a in cls else pos + 2 for a in allc])
        trans.append([pos + 1] * ab.n)
        trans.append([pos + 2] * ab.n)
        return DFA(ab.n, trans, 0, {pos + 1})
    raise AnalysisError('indexing at %d unsupported' % pos)
