"""Text/bytes agreement analysis (a tiny type inference over the term
domain).  Python 3 separates str and bytes; mixing them raises TypeError
(concatenation, join, hexlify) or makes a comparison constantly False.  The
handshake code moves data between the wire (bytes), hex coding (bytes),
user names (str) and hashes (bytes), so a mismatch silently turns into "always
rejected" when it happens inside a try/except.

btype(term) -> 'bytes' | 'str' | 'int' | 'none' | 'list:<t>' | None (unknown)
"""
from .sym import C, NONE, is_const, kind, walk_term

BYTES_FUNCS = {'binascii.hexlify', 'binascii.unhexlify', 'os.urandom',
               'codecs.encode', 'bytes', 'struct.pack'}
STR_FUNCS = {'str', 'repr', 'codecs.decode', 'getpass.getuser',
             'os.path.expanduser'}
INT_FUNCS = {'int', 'len', 'abs', 'os.getpid', 'os.geteuid', 'time.time'}
SAME_TYPE_METHODS = {'strip', 'lstrip', 'rstrip', 'lower', 'upper', 'replace',
                     'ljust', 'rjust', 'title', 'capitalize'}


class Typer:
    def __init__(self, params=None, fields=None, returns=None):
        self.params = params or {}     # param name -> type
        self.fields = fields or {}     # attribute name -> type
        self.returns = returns or {}   # callee qualname -> type of result

    @staticmethod
    def _key(call):
        if call[1]:
            return call[1]
        if kind(call[2]) == 'attr':
            return ('method', call[2][2])
        return None

    def t(self, x):
        k = kind(x)
        if k == 'const':
            v = x[1]
            if isinstance(v, bool):
                return 'bool'
            if isinstance(v, bytes):
                return 'bytes'
            if isinstance(v, str):
                return 'str'
            if isinstance(v, int):
                return 'int'
            if v is None:
                return 'none'
            return None
        if k == 'param':
            return self.params.get(x[1])
        if k == 'attr':
            return self.fields.get(x[2])
        if k == 'fstr':
            return 'str'
        if k == 'binop':
            a, b = self.t(x[2]), self.t(x[3])
            if x[1] == '+':
                if a == b:
                    return a
                if a and b and a != b:
                    return 'MIXED'
                return a or b if (a in ('bytes', 'str') or
                                  b in ('bytes', 'str')) else None
            if x[1] == '%' and a in ('str', 'bytes'):
                return a
            if x[1] in ('-', '*', '//', '&', '|') and a == 'int' and \
                    b == 'int':
                return 'int'
            return None
        if k == 'sub':
            if kind(x[1]) == 'call' and isinstance(
                    self.returns.get(self._key(x[1])), tuple) and \
                    is_const(x[2]) and isinstance(x[2][1], int):
                els = self.returns[self._key(x[1])]
                if 0 <= x[2][1] < len(els):
                    return els[x[2][1]]
                return None
            base = self.t(x[1])
            if kind(x[2]) == 'slice':
                return base
            if base and base.startswith('list:'):
                return base[5:]
            if base == 'bytes':
                return 'int'
            if base == 'str':
                return 'str'
            return None
        if k == 'call':
            tgt = x[1]
            if tgt in BYTES_FUNCS:
                return 'bytes'
            if tgt in STR_FUNCS:
                return 'str'
            if tgt in INT_FUNCS:
                return 'int'
            if tgt in self.returns and not isinstance(self.returns[tgt],
                                                      tuple):
                return self.returns[tgt]
            if tgt == 'os.path.join' and x[3]:
                return self.t(x[3][0])
            fn = x[2]
            if kind(fn) == 'attr':
                recv, meth = fn[1], fn[2]
                rt = self.t(recv)
                if meth == 'decode':
                    return 'str'
                if meth == 'encode':
                    return 'bytes'
                if meth in SAME_TYPE_METHODS:
                    return rt
                if meth in ('split', 'rsplit', 'splitlines', 'partition'):
                    return 'list:' + rt if rt in ('bytes', 'str') else None
                if meth == 'join':
                    return rt
                if meth == 'digest':
                    return 'bytes'
                if meth == 'hexdigest':
                    return 'str'
                if meth == 'format':
                    return 'str'
            return None
        if k in ('tuple', 'list'):
            return None
        return None


def mismatches(typer, terms):
    """Yield (what, term) for every evident text/bytes mismatch inside the
    given terms."""
    seen = set()
    for t0 in terms:
        for x in walk_term(t0):
            if x in seen:
                continue
            seen.add(x)
            k = kind(x)
            if k == 'binop' and x[1] == '+':
                a, b = typer.t(x[2]), typer.t(x[3])
                if {a, b} == {'bytes', 'str'} or (
                        a == 'MIXED' or b == 'MIXED'):
                    if a != 'MIXED' and b != 'MIXED':
                        yield ('concatenates %s and %s' % (a, b), x)
            elif k == 'call':
                if x[1] == 'binascii.hexlify' and x[3] and \
                        typer.t(x[3][0]) == 'str':
                    yield ('hexlify() of a str', x)
                fn = x[2]
                if kind(fn) == 'attr' and fn[2] == 'join' and x[3]:
                    st = typer.t(fn[1])
                    arg = x[3][0]
                    if kind(arg) in ('list', 'tuple'):
                        for it in arg[1]:
                            v = it[1] if kind(it) == 'item' else it
                            vt = typer.t(v)
                            if st in ('bytes', 'str') and \
                                    vt in ('bytes', 'str') and vt != st:
                                yield ('%s.join() of a %s item' % (st, vt),
                                       x)
            elif k == 'cmp' and x[1] in ('==', '!='):
                a, b = typer.t(x[2]), typer.t(x[3])
                if {a, b} == {'bytes', 'str'}:
                    yield ('compares %s with %s (never equal)' % (a, b), x)


def path_consistent(typer, cond):
    """False when the path assumes isinstance(x, str/bytes) against the known
    type of x."""
    for c, pol in cond:
        if kind(c) == 'call' and c[1] == 'isinstance' and len(c[3]) == 2:
            tx = typer.t(c[3][0])
            cls = c[3][1]
            names = []
            if kind(cls) == 'builtin':
                names = [cls[1]]
            elif kind(cls) == 'tuple':
                names = [y[1] for y in cls[1] if kind(y) == 'builtin']
            if tx in ('str', 'bytes') and names:
                is_inst = tx in names
                if is_inst != pol:
                    return False
    return True
