"""Syntactic call graph with resolved callees + call conformance.

Resolution (DESIGN 1.4/1.5): direct names (module functions, classes ->
__init__, nested functions, module-level aliases), dotted module attributes
(`marshal.unmarshal`), `self.m` through the in-package MRO (including
subclasses' overrides when asked), calls through module-level tables of
functions (`unmarshallers[k](...)` -> every value), and the receivers listed in
RECEIVER_TYPES (framework-free attribute paths whose class is fixed by an
assignment that must still exist).
"""
import ast

from .loader import AnalysisError, Program, dotted


class CallSite:
    __slots__ = ('caller', 'node', 'targets', 'how')

    def __init__(self, caller, node, targets, how):
        self.caller = caller
        self.node = node
        self.targets = targets     # list of FuncInfo
        self.how = how

    def where(self):
        return '%s:%d' % (self.caller.module.relpath, self.node.lineno)


def _func_table(prog, m, name):
    """module-level dict literal whose values are all functions -> list"""
    vals = m.assigns.get(name)
    if not vals or len(vals) != 1 or not isinstance(vals[0], ast.Dict):
        return None
    out = []
    for v in vals[0].values:
        r = prog.resolve_name_expr(m, v)
        if not r or r[0] != 'func':
            return None
        out.append(r[1])
    return out


def iter_calls(fi):
    for n in Program._iter_scope(fi.node):
        if isinstance(n, ast.Call):
            yield n


def resolve_call(prog, fi, node, self_classes=None):
    """-> (targets, how) for one ast.Call inside fi."""
    f = node.func
    m = fi.module
    if isinstance(f, ast.Name):
        p = fi
        while p is not None:
            if f.id in p.nested:
                return [p.nested[f.id]], 'nested'
            p = p.parent
        r = prog.resolve_name_expr(m, f)
        if r and r[0] == 'func':
            return [r[1]], 'direct'
        if r and r[0] == 'class':
            init = prog.lookup_method(r[1], '__init__')
            return ([init] if init else []), 'constructor'
        return [], 'unresolved'
    if isinstance(f, ast.Attribute):
        if isinstance(f.value, ast.Name) and f.value.id == 'self' and \
                fi.cls is not None:
            classes = self_classes or [fi.cls]
            out = []
            for c in classes:
                t = prog.lookup_method(c, f.attr)
                if t and t not in out:
                    out.append(t)
            if out:
                return out, 'self'
        r = prog.resolve_name_expr(m, f)
        if r and r[0] == 'func':
            if r[1].is_method:
                # Class.method(obj, ...): self is passed explicitly
                return [r[1]], 'unbound'
            return [r[1]], 'dotted'
        if r and r[0] == 'class':
            init = prog.lookup_method(r[1], '__init__')
            return ([init] if init else []), 'constructor'
        return [], 'unresolved'
    if isinstance(f, ast.Subscript) and isinstance(f.value, ast.Name):
        tbl = _func_table(prog, m, f.value.id)
        if tbl:
            return tbl, 'table:' + f.value.id
    return [], 'unresolved'


def edges_from(prog, fi, self_classes=None):
    out = []
    for n in iter_calls(fi):
        targets, how = resolve_call(prog, fi, n, self_classes)
        if targets:
            out.append(CallSite(fi, n, targets, how))
    return out


def reachable(prog, roots, within=None):
    """Closure of resolved call edges (nested functions of a reached function
    are included when called)."""
    seen = {}
    work = list(roots)
    while work:
        fi = work.pop()
        if fi.qualname in seen:
            continue
        if within and fi.module.name not in within:
            continue
        seen[fi.qualname] = fi
        for cs in edges_from(prog, fi):
            work.extend(cs.targets)
    return seen


def positional_params(callee, how=''):
    a = callee.node.args
    pos = [p.arg for p in a.posonlyargs + a.args]
    if (callee.is_method or (callee.cls is not None and
                             callee.parent is None)) and how != 'unbound':
        if pos and pos[0] in ('self', 'cls'):
            pos = pos[1:]
    return pos


def conformance(callee, node, how=''):
    """Does the call supply the callee's required parameters and only known
    keywords?  -> None when fine, else a message.  Calls with * / ** are
    checked for keywords only (literal-keyed ** dicts are handled by the
    caller)."""
    a = callee.node.args
    pos = [p.arg for p in a.posonlyargs + a.args]
    if (callee.is_method or (callee.cls is not None and
                             callee.parent is None)) and how != 'unbound':
        if pos and pos[0] in ('self', 'cls'):
            pos = pos[1:]
    ndef = len(a.defaults)
    required = pos[:len(pos) - ndef] if ndef else list(pos)
    kwonly = [p.arg for p in a.kwonlyargs]
    kwreq = [p.arg for p, d in zip(a.kwonlyargs, a.kw_defaults) if d is None]
    has_star = any(isinstance(x, ast.Starred) for x in node.args)
    has_dstar = any(k.arg is None for k in node.keywords)
    npos = len([x for x in node.args if not isinstance(x, ast.Starred)])
    kws = [k.arg for k in node.keywords if k.arg is not None]
    for k in kws:
        if k not in pos and k not in kwonly and not a.kwarg:
            return 'unknown keyword %r' % k
    if has_star or has_dstar:
        return None
    if npos > len(pos) and not a.vararg:
        return 'too many positional arguments (%d > %d)' % (npos, len(pos))
    missing = [p for i, p in enumerate(required)
               if i >= npos and p not in kws]
    missing += [p for p in kwreq if p not in kws]
    if missing:
        return 'missing required argument(s) %s' % ', '.join(missing)
    for k in kws:
        if k in pos[:npos]:
            return 'argument %r given twice' % k
    return None


# ---------------------------------------------------------------------------
# receiver typing (DESIGN 1.4): self.X = Cls(...), class-valued class
# attributes, one level of parameter typing from constructor call sites, and a
# small frozen table for framework-provided attributes.

FROZEN_RECEIVERS = {
    # (class, attribute) -> (class qualname, reason, supporting text that must
    # still exist in the class's module)
    ('bus.BusProtocol', 'bus'): (
        'bus.Bus', 'set from the factory (self.factory.bus) when the '
        'connection authenticates', 'self.bus = self.factory.bus'),
}


class TypeEnv:
    def __init__(self, prog):
        self.prog = prog
        self.attr = {}       # (class qualname, attr) -> set(ClassInfo)
        self._param = {}     # (func qualname, param) -> set(ClassInfo)
        # pass 1: constructor call sites type __init__ parameters
        for fi in prog.all_funcs.values():
            for n in iter_calls(fi):
                r = prog.resolve_name_expr(fi.module, n.func) \
                    if isinstance(n.func, (ast.Name, ast.Attribute)) else None
                if not r or r[0] != 'class':
                    continue
                init = prog.lookup_method(r[1], '__init__')
                if init is None:
                    continue
                ps = init.params()[1:]
                for p_, a in zip(ps, n.args):
                    if isinstance(a, ast.Name) and a.id == 'self' and \
                            fi.cls is not None:
                        for sc in prog.subclasses(fi.cls):
                            self._param.setdefault(
                                (init.qualname, p_), set()).add(sc)
        # pass 2: self.X = <expr> in methods
        for c in prog.all_classes.values():
            for name, v in c.attrs.items():
                r = prog.resolve_name_expr(c.module, v)
                if r and r[0] == 'class':
                    self.attr.setdefault((c.qualname, name), set()).add(r[1])
            for fi in c.methods.values():
                for n in prog._iter_scope(fi.node):
                    if isinstance(n, ast.Assign) and len(n.targets) == 1 \
                            and isinstance(n.targets[0], ast.Attribute) and \
                            isinstance(n.targets[0].value, ast.Name) and \
                            n.targets[0].value.id == 'self':
                        a = n.targets[0].attr
                        v = n.value
                        if isinstance(v, ast.Call):
                            r = prog.resolve_name_expr(c.module, v.func) \
                                if isinstance(v.func, (ast.Name,
                                                       ast.Attribute)) \
                                else None
                            if r and r[0] == 'class':
                                self.attr.setdefault(
                                    (c.qualname, a), set()).add(r[1])
                        elif isinstance(v, ast.Name):
                            for t in self._param.get((fi.qualname, v.id),
                                                     ()):
                                self.attr.setdefault(
                                    (c.qualname, a), set()).add(t)
        for (cq, a), (tq, reason, text) in FROZEN_RECEIVERS.items():
            c = prog.all_classes.get(cq)
            t = prog.all_classes.get(tq)
            if c is None or t is None or text not in c.module.src:
                raise AnalysisError(
                    'frozen receiver entry %s.%s -> %s lost its supporting '
                    'assignment (%r)' % (cq, a, tq, text))
            self.attr.setdefault((cq, a), set()).add(t)

    def types_of(self, fi, expr):
        """Classes an attribute-chain expression rooted at self may have."""
        if isinstance(expr, ast.Name) and expr.id == 'self' and fi.cls:
            return set(self.prog.subclasses(fi.cls))
        if isinstance(expr, ast.Attribute):
            out = set()
            for c in self.types_of(fi, expr.value):
                for k in self.prog.mro(c):
                    out |= self.attr.get((k.qualname, expr.attr), set())
            return out
        return set()


def typed_edges(prog, tenv, fi):
    """Resolved edges of attribute calls whose receiver is typed through
    TypeEnv (in addition to edges_from)."""
    out = []
    for n in iter_calls(fi):
        f = n.func
        if not isinstance(f, ast.Attribute):
            continue
        if isinstance(f.value, ast.Name):
            continue          # self.m / module.f: handled by edges_from
        targets = []
        for c in tenv.types_of(fi, f.value):
            t = prog.lookup_method(c, f.attr)
            if t is not None and t not in targets:
                targets.append(t)
        if targets:
            out.append(CallSite(fi, n, targets, 'typed'))
    return out
