"""./check <property-id> [--tier quick|thorough] [--replay <path>]

exit 0  all decided clauses hold (known findings printed as KNOWN-FINDING)
exit 1  VIOLATION property=<id> replay=<path>
exit 2  ANALYSIS-ERROR (the analyser could not do its job; never a verdict)
"""
import argparse
import importlib
import json
import os
import sys
import traceback

from .loader import AnalysisError, Program
from .report import Ctx, finish


def _unresolvable_names(ctx, pid):
    """D0, common to every property: no function of the modules this
    property is anchored in reads a name that resolves nowhere (CPython's own
    scope analysis).  Such a read raises NameError on every path through it -
    in a constructor, a handler or a codec that means the property fails for
    every input that takes the path - and a test suite only notices on the
    paths it happens to run."""
    from .names import unresolvable_names
    from .scope import modules_of
    n = 0
    for mname in modules_of(pid):
        m = ctx.prog.modules.get(mname)
        if m is None:
            continue
        n += 1
        bad = unresolvable_names(m.src, m.path)
        ctx.ob('%s.D0' % pid, mname, 'names-resolve', not bad,
               '%s: %s read(s) a name that is neither local, nor of an '
               'enclosing function, nor module-level, nor a builtin: '
               'NameError on every path that reaches it'
               % (m.relpath, ', '.join('%s reads %r' % (q, nm)
                                       for q, nm, _ in bad[:4])),
               nontrivial=False)
    return n


def main(argv=None):
    ap = argparse.ArgumentParser(prog='check')
    ap.add_argument('pid')
    ap.add_argument('--tier', default=os.environ.get('VERIF_TIER', 'quick'),
                    choices=['quick', 'thorough'])
    ap.add_argument('--replay')
    ap.add_argument('--src', default=None,
                    help='tree to analyse (default $TXDBUS_SRC or /repo)')
    a = ap.parse_args(argv)
    pid = a.pid.upper()
    try:
        seed = int(os.environ.get('VERIF_SEED', '0'))
    except ValueError:
        seed = 0
    cmdline = './check %s --tier %s' % (pid, a.tier)
    try:
        try:
            mod = importlib.import_module('txsa.rules.%s' % pid.lower())
        except ModuleNotFoundError:
            raise AnalysisError('no check implemented for %s' % pid)
        prog = Program(a.src)
        ctx = Ctx(pid, a.tier, prog, seed)
        # the clauses common to every property first: when the property's
        # own rules cannot follow the code any more (AnalysisError) but a
        # common clause already names the construct, that finding is the
        # verdict
        _unresolvable_names(ctx, pid)
        from .rules.memo import memo_rules
        memo_rules(ctx, pid)
        from .rules.pitfalls import pitfall_rules
        pitfall_rules(ctx, pid)
        try:
            mod.run(ctx)
            from .premises import run_premises
            run_premises(ctx, pid)
        except AnalysisError as e:
            if not ctx.failed():
                raise
            print('note: the rules of %s stopped (%s); the finding(s) '
                  'reported so far stand' % (pid, e))
        if a.tier == 'thorough':
            if hasattr(mod, 'run_thorough'):
                mod.run_thorough(ctx)
            if not a.replay and not os.environ.get('TXSA_NO_LIVENESS'):
                # rule liveness: the property's mutants on scratch copies of
                # the current tree (never changes the verdict about /repo)
                from . import selftest
                os.environ['TXSA_NO_LIVENESS'] = '1'
                live = selftest.run_subset(pid, prog.root)
                ctx.extra['rule_liveness'] = live
                s_ = live.get('summary', {})
                print('rule liveness: %d mutant(s) of the corpus applied to '
                      'scratch copies: %s' % (live.get('mutants', 0), s_))
                for r in live.get('results', []):
                    if r['status'] in ('MISSED', 'FALSE-ALARM'):
                        print('ANALYSER-WEAKNESS: %s %s' % (r['mutant'],
                                                            r['status']))
        if a.replay:
            with open(a.replay) as f:
                want = json.load(f)['finding']['key']
            hit = [o for o in ctx.failed() if o.key == want]
            if hit:
                print('REPLAY: %s still fails: %s' % (want, hit[0].msg))
                print('VIOLATION property=%s replay=%s' % (pid, a.replay))
                return 1
            print('REPLAY: %s no longer fails' % want)
            return 0
        return finish(ctx, mod.META, cmdline)
    except AnalysisError as e:
        print('ANALYSIS-ERROR property=%s %s' % (pid, e))
        return 2
    except Exception:
        traceback.print_exc()
        print('ANALYSIS-ERROR property=%s internal error in the analyser'
              % pid)
        return 2


if __name__ == '__main__':
    sys.exit(main())
