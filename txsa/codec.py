"""Abstract model of txdbus/marshal.py's codec, extracted from the source.

Shared by C01 (sibling agreement), C02 (conformance with the D-Bus wire
format), C05 (progress / bounded reads) and C20 (descriptor index).
Everything here is computed by the term interpreter (sym.Interp) from the AST;
nothing is executed.
"""
import ast
import struct

from .loader import AnalysisError, FuncInfo
from .sym import (C, NONE, Interp, State, affine, affine_str, contains,
                  is_const, iter_events, kind, term_str, to_py, try_py,
                  walk_term)

MOD = 'marshal'


def module_interp(prog, modname, **kw):
    """Run the interpreter over a module body (loops over constants
    unrolled).  Returns the single fall-through path."""
    m = prog.module(modname)
    fake = ast.FunctionDef(
        name='<module>', args=ast.arguments(posonlyargs=[], args=[],
                                            kwonlyargs=[], kw_defaults=[],
                                            defaults=[]),
        body=m.tree.body, decorator_list=[], lineno=0, col_offset=0)
    fi = FuncInfo(m.name, fake, m)
    it = Interp(prog, unroll_const=True, exc_edges=False, **kw)
    paths = it.run(fi)
    paths = [p for p in paths if p.outcome == 'fall']
    if len(paths) != 1:
        # module-level branching on the environment (protocol.py reads
        # /proc/version): callers that need exactness must cope
        return paths
    return paths


def find_lambda(fi, lineno, col):
    for n in ast.walk(fi.node):
        if isinstance(n, ast.Lambda) and n.lineno == lineno and \
                n.col_offset == col:
            return n
    return None


class CodecModel:
    def __init__(self, prog):
        self.prog = prog
        self.m = prog.module(MOD)
        it = Interp(prog)
        self.it = it
        self.fi_holder = FuncInfo(MOD, self.m.tree, self.m)

        def glob(name):
            if name not in self.m.assigns:
                raise AnalysisError('anchor vanished: %s.%s' % (MOD, name))
            it._stack.append(self._fake())
            try:
                return it.module_name(self.m, name)
            finally:
                it._stack.pop()
        self.glob = glob
        # dbus_types -------------------------------------------------------
        t = glob('dbus_types')
        ok, v = try_py(t)
        if not ok:
            raise AnalysisError('marshal.dbus_types is not a constant table')
        self.dbus_types = []
        for row in v:
            codes = [x for x in row if isinstance(x, str) and len(x) == 1]
            aligns = [x for x in row if isinstance(x, int)
                      and not isinstance(x, bool)]
            if len(codes) != 1 or len(aligns) != 1:
                raise AnalysisError('dbus_types row %r: cannot identify '
                                    'code/alignment columns' % (row,))
            self.dbus_types.append((codes[0], aligns[0], row))
        self.align = {c: a for c, a, _ in self.dbus_types}
        # tables -----------------------------------------------------------
        self.enc = self._func_table('marshallers')
        self.dec = self._func_table('unmarshallers')
        # module-level construction of pad ---------------------------------
        self.pad_keys = {}     # key -> alignment constant handed to genpad
        self.pad_builder = None
        paths = module_interp(prog, MOD)
        if not paths:
            raise AnalysisError('marshal module body: no fall-through path')
        for p in paths[:1]:
            for ev in iter_events(p.trace):
                if ev[0] == 'setsub' and self._is_pad(ev[1]):
                    key, val = ev[2], ev[3]
                    if not is_const(key):
                        raise AnalysisError('pad[...] key not constant')
                    if kind(val) == 'call' and val[1] and len(val[3]) == 1 \
                            and is_const(val[3][0]):
                        self.pad_keys[key[1]] = val[3][0][1]
                        self.pad_builder = val[1]
                    else:
                        raise AnalysisError(
                            'pad[%r] is not built by a call with a constant '
                            'alignment: %s' % (key[1], term_str(val)))
            # pad defined as a literal / comprehension instead
            pv = p.state.store.get('pad')
            if not self.pad_keys and kind(pv) == 'dict':
                for k_, v_ in pv[1]:
                    if is_const(k_) and kind(v_) == 'call' and \
                            len(v_[3]) == 1 and is_const(v_[3][0]):
                        self.pad_keys[k_[1]] = v_[3][0][1]
                        self.pad_builder = v_[1]
        if not self.pad_keys:
            raise AnalysisError('could not recover how marshal.pad is built')
        # padding table
        pt = glob('padding')
        ok, v = try_py(pt)
        if not ok or not isinstance(v, dict):
            raise AnalysisError('marshal.padding is not a constant dict')
        self.padding_table = v

    def _fake(self):
        fake = ast.FunctionDef(
            name='<module>', args=ast.arguments(
                posonlyargs=[], args=[], kwonlyargs=[], kw_defaults=[],
                defaults=[]), body=[], decorator_list=[], lineno=0,
            col_offset=0)
        return FuncInfo(MOD + '.<module>', fake, self.m)

    @staticmethod
    def _is_pad(t):
        return t == ('global', MOD, 'pad') or (
            kind(t) == 'dict' and False)

    def _func_table(self, name):
        t = self.glob(name)
        if kind(t) != 'dict':
            raise AnalysisError('%s.%s is not a literal dict' % (MOD, name))
        out = {}
        for k_, v_ in t[1]:
            if not is_const(k_) or kind(v_) != 'func':
                raise AnalysisError('%s.%s: entry %s does not resolve to a '
                                    'function' % (MOD, name, term_str(k_)))
            out[k_[1]] = self.prog.func(v_[1])
        return out

    # -- pad function semantics (congruence domain) -------------------------

    def pad_length(self, alignment, x):
        """Length of the padding the repo's pad builder yields for position
        x under the given alignment, by constant folding of its body; raises
        AnalysisError outside the fragment.  Returns (length, bytes)."""
        gp = self.prog.func(self.pad_builder)
        it = Interp(self.prog, exc_edges=False)
        paths = [p for p in it.run(gp, {gp.params()[0]: C(alignment)})
                 if p.outcome == 'return']
        if len(paths) != 1:
            raise AnalysisError('%s: expected one return path under a '
                                'constant alignment' % gp.qualname)
        rv = paths[0].value
        store = dict(paths[0].state.store)
        if kind(rv) == 'lambda':
            lam = find_lambda(gp, rv[2], rv[3])
            if lam is None or len(lam.args.args) != 1:
                raise AnalysisError('pad builder lambda not found')
            store[lam.args.args[0].arg] = C(x)
            it2 = Interp(self.prog, exc_edges=False)
            it2._stack.append(gp)
            res = [r for r in it2.eval(lam.body, State(store=store))
                   if r[2] is None]
            vals = [r[1] for r in res]
        elif kind(rv) == 'funcref':
            inner = self.prog.func(rv[1])
            it2 = Interp(self.prog, exc_edges=False)
            ps = it2.run(inner, {inner.params()[0]: C(x)},
                         state=State(store=store))
            vals = [p.value for p in ps if p.outcome == 'return']
        else:
            raise AnalysisError('pad builder returns %s, not a function'
                                % term_str(rv))
        if len(vals) != 1 or not is_const(vals[0]) or \
                not isinstance(vals[0][1], bytes):
            raise AnalysisError(
                'pad(%d) under alignment %d does not fold to a bytes '
                'constant: %s' % (x, alignment,
                                  [term_str(v) for v in vals]))
        return len(vals[0][1]), vals[0][1]

    # -- per-function path extraction ----------------------------------------

    def paths(self, fi, lendian, inline=()):
        inl = set(inline)
        # an encoder/decoder may delegate to the leaf codec of a basic type
        # by name (the descriptor index written with marshal_uint32): the
        # leaf is analysed as part of it
        leaf = 'ybnqiuxtdh'
        for table in (self.enc, self.dec):
            for code, f in table.items():
                if code in leaf and f is not fi:
                    inl.add(f.qualname)
        it = Interp(self.prog, inline=lambda q, d: q in inl,
                    exc_edges=True)
        args = {}
        if 'lendian' in fi.params():
            args['lendian'] = C(lendian)
        return it.run(fi, args)


# ---------------------------------------------------------------------------
# helpers on terms

def pack_call(t):
    """('fmt', value_args) if t is struct.pack(<const fmt>, ...)."""
    if kind(t) == 'call' and t[1] == 'struct.pack' and t[3] and \
            is_const(t[3][0]) and isinstance(t[3][0][1], str):
        return t[3][0][1], t[3][1:]
    return None


def unpack_call(t):
    """(fmt, data, offset) if t is struct.unpack_from(<const fmt>, d, o)."""
    if kind(t) == 'call' and t[1] == 'struct.unpack_from' and \
            len(t[3]) >= 2 and is_const(t[3][0]) and \
            isinstance(t[3][0][1], str):
        off = t[3][2] if len(t[3]) > 2 else dict(t[4]).get('offset', C(0))
        return t[3][0][1], t[3][1], off
    if kind(t) == 'call' and t[1] == 'struct.unpack' and \
            len(t[3]) == 2 and is_const(t[3][0]):
        return t[3][0][1], t[3][1], None
    return None


def len_term(x):
    return ('len', x)


def item_len(it_, falsy):
    """Affine length (dict) of one chunk-list item."""
    k = kind(it_)
    if k == 'item':
        v = it_[1]
        pc = pack_call(v)
        if pc:
            try:
                return {1: struct.calcsize(pc[0])}
            except struct.error:
                raise AnalysisError('bad struct format %r' % pc[0])
        if is_const(v) and isinstance(v[1], (bytes, str)):
            return {1: len(v[1])} if len(v[1]) else {}
        if v in falsy:
            return {}
        return {len_term(v): 1}
    if k == 'splice':
        v = it_[1]
        # callee contract (size, chunks): len(b''.join(call[1])) == call[0]
        if kind(v) == 'sub' and v[2] == C(1) and kind(v[1]) == 'call':
            return {('sub', v[1], C(0)): 1}
        return {('joinedlen', v): 1}
    if k == 'starseq':
        vec = []
        for seq in it_[2]:
            vec.append(tuple(sorted(seq_len(seq, falsy).items(), key=repr)))
        return {('star', it_[1], tuple(vec)): 1}
    if k == 'prefix':
        return {('prefixlen', it_[1], it_[2]): 1}
    raise AnalysisError('unexpected chunk item %s' % (k,))


def seq_len(items, falsy=frozenset()):
    total = {}
    for x in items:
        for a, c in item_len(x, falsy).items():
            total[a] = total.get(a, 0) + c
            if total[a] == 0:
                del total[a]
    return total


def add_aff(a, b, sign=1):
    out = dict(a)
    for k_, c in b.items():
        out[k_] = out.get(k_, 0) + sign * c
        if out[k_] == 0:
            del out[k_]
    return out
