"""Extraction of a finite transition system from a line-protocol handler class
(BusAuthenticator / ClientAuthenticator) by abstract interpretation.

The machine is *extracted from the source on every run*: no hand-written model
of txdbus, no execution of txdbus, no solver.  Tracked fields are all `self.X`
stored anywhere in the class; their abstract values are constants, lists of
constants, or the token `obj` (any other object, known to be non-None).
Commands are the methods with the prefix used by the dispatch method's
getattr(self, PREFIX + ...); the not-found branch is the pseudo command
`<unknown>`.  Opaque tests fork (with per-path consistency of comparisons of
one value against several constants).  Outputs are abstracted to the leading
constant token of the bytes handed to the configured send method.
"""
import ast

from .loader import AnalysisError
from .sym import (C, NONE, Interp, State, is_const, iter_events, kind,
                  term_str, try_py, walk_term)

CLOSE = 'CLOSE'


class Transition:
    __slots__ = ('pre', 'cmd', 'labels', 'outputs', 'post', 'closed',
                 'exc', 'stores', 'path', 'extra')

    def __init__(self, pre, cmd, labels, outputs, post, closed, exc, stores,
                 path):
        self.pre = pre
        self.cmd = cmd
        self.labels = labels
        self.outputs = outputs
        self.post = post
        self.closed = closed      # raised the configured close exception
        self.exc = exc            # other escaping exception (term string)
        self.stores = stores      # {field: abstract value} stored on the way
        self.path = path
        self.extra = {}

    def row(self):
        return (self.pre, self.cmd, self.outputs,
                CLOSE if self.closed else ('EXC' if self.exc else self.post))


def abstract(v):
    if v is None:
        return ('unset',)
    if is_const(v):
        return ('c', v[1])
    ok, pv = try_py(v)
    if ok and isinstance(pv, (list, tuple)):
        return ('l', tuple(pv))
    return ('obj',)


def concretise(field, a):
    if a[0] == 'c':
        return C(a[1])
    if a[0] == 'l':
        return ('list', tuple(('item', C(x)) for x in a[1]))
    if a[0] == 'obj':
        return ('inst', '<%s>' % field, None)
    return None


def leading_token(t):
    """Leading constant token of a bytes-valued term."""
    while kind(t) == 'binop' and t[1] == '+':
        t = t[2]
    if is_const(t) and isinstance(t[1], (bytes, str)):
        s = t[1]
        if isinstance(s, bytes):
            s = s.decode('latin-1')
        s = s.strip()
        return s.split(' ')[0] if s else ''
    return '?'


class Machine:
    def __init__(self, prog, cls_qualname, dispatch='handleAuthMessage',
                 send_method='sendAuthMessage',
                 close_exc='DBusAuthenticationFailed', ignore_fields=(),
                 max_states=400):
        self.prog = prog
        self.cls = prog.cls(cls_qualname)
        self.dispatch = prog.lookup_method(self.cls, dispatch)
        if self.dispatch is None:
            raise AnalysisError('anchor vanished: %s.%s' % (cls_qualname,
                                                          dispatch))
        self.send_method = send_method
        self.close_exc = close_exc
        self.max_states = max_states
        self.selft = ('param', 'self')
        self.fields = self._discover_fields()
        self.fields = [f for f in self.fields if f not in ignore_fields]
        self.prefix, self.unknown_paths_fn = self._dispatch_info()
        self.commands = sorted(
            n[len(self.prefix):] for k in prog.mro(self.cls)
            for n in k.methods if n.startswith(self.prefix))
        if not self.commands:
            raise AnalysisError('%s: no command methods with prefix %r'
                                % (cls_qualname, self.prefix))
        self.transitions = []
        self.states = []

    # ------------------------------------------------------------------
    def _discover_fields(self):
        out = []
        for k in self.prog.mro(self.cls):
            for f in k.methods.values():
                for n in ast.walk(f.node):
                    if isinstance(n, ast.Attribute) and \
                            isinstance(n.ctx, ast.Store) and \
                            isinstance(n.value, ast.Name) and \
                            n.value.id == 'self' and n.attr not in out:
                        out.append(n.attr)
        return out

    def _inline(self, qn, depth):
        fi = self.prog.all_funcs.get(qn)
        return fi is not None and fi.cls is not None and \
            fi.cls in self.prog.mro(self.cls) and fi.parent is None

    def _dispatch_info(self):
        """Find getattr(self, PREFIX + <expr>, ...) in the dispatch method."""
        prefix = None
        for n in ast.walk(self.dispatch.node):
            if isinstance(n, ast.Call) and isinstance(n.func, ast.Name) and \
                    n.func.id == 'getattr' and len(n.args) >= 2:
                a = n.args[1]
                if isinstance(a, ast.BinOp) and isinstance(a.op, ast.Add) \
                        and isinstance(a.left, ast.Constant) and \
                        isinstance(a.left.value, str):
                    prefix = a.left.value
                elif isinstance(a, ast.JoinedStr) and a.values and \
                        isinstance(a.values[0], ast.Constant):
                    prefix = a.values[0].value
        if prefix is None:
            # the name may be built by a helper: getattr(self, _name(cmd))
            prefix = self._prefix_from_helpers()
        if prefix is None:
            raise AnalysisError('%s: dispatch idiom getattr(self, PREFIX + '
                                'cmd) not found' % self.dispatch.qualname)
        return prefix, None

    def _prefix_from_helpers(self):
        m = self.dispatch.module
        seen, work, found = set(), [], set()
        for n in ast.walk(self.dispatch.node):
            if isinstance(n, ast.Call) and isinstance(n.func, ast.Name) and \
                    n.func.id == 'getattr' and len(n.args) >= 2 and \
                    isinstance(n.args[1], ast.Call) and \
                    isinstance(n.args[1].func, ast.Name):
                work.append(n.args[1].func.id)
        while work:
            name = work.pop()
            if name in seen or name not in m.funcs:
                continue
            seen.add(name)
            fn = m.funcs[name].node
            for r in ast.walk(fn):
                if isinstance(r, ast.Return) and r.value is not None:
                    v = r.value
                    if isinstance(v, ast.BinOp) and \
                            isinstance(v.op, ast.Add) and \
                            isinstance(v.left, ast.Constant) and \
                            isinstance(v.left.value, str):
                        found.add(v.left.value)
                    elif isinstance(v, ast.JoinedStr) and v.values and \
                            isinstance(v.values[0], ast.Constant):
                        found.add(v.values[0].value)
                    elif isinstance(v, ast.Call) and \
                            isinstance(v.func, ast.Name):
                        work.append(v.func.id)
        return found.pop() if len(found) == 1 else None

    LOSSY_METHODS = ('lower', 'upper', 'casefold', 'title', 'capitalize',
                     'swapcase', 'replace', 'translate', 'strip', 'lstrip',
                     'rstrip', 'expandtabs')
    LOSSY_ERRORS = ('ignore', 'replace', 'xmlcharrefreplace', 'namereplace')

    def fragile_split(self):
        """`cmd, args = line.split(b' ')`: a tuple-unpack of a split into k
        names holds for every line only with maxsplit = k - 1 (and a guard
        that the separator occurs); otherwise a line with more separators -
        `REJECTED EXTERNAL DBUS_COOKIE_SHA1`, `ERROR "two words"` - raises
        ValueError out of the dispatcher.  -> list of (line, text)."""
        out = []
        for n in ast.walk(self.dispatch.node):
            if isinstance(n, ast.Assign) and len(n.targets) == 1 and \
                    isinstance(n.targets[0], (ast.Tuple, ast.List)) and \
                    isinstance(n.value, ast.Call) and \
                    isinstance(n.value.func, ast.Attribute) and \
                    n.value.func.attr in ('split', 'rsplit'):
                k = len(n.targets[0].elts)
                a = n.value.args
                ms = a[1].value if len(a) >= 2 and isinstance(
                    a[1], ast.Constant) else None
                for kw in n.value.keywords:
                    if kw.arg == 'maxsplit' and isinstance(kw.value,
                                                           ast.Constant):
                        ms = kw.value.value
                if ms != k - 1:
                    out.append((n.lineno, ast.unparse(n)[:60]))
        return out

    def lossy_dispatch_key(self):
        """The dispatch name must be an INJECTIVE image of the command word
        the peer sent: a decoding that drops or replaces bytes, or a case /
        whitespace normalisation, makes a line that is not a protocol command
        run the handler of one.  -> list of (line, text)."""
        fn = self.dispatch.node
        key = None
        for n in ast.walk(fn):
            if isinstance(n, ast.Call) and isinstance(n.func, ast.Name) and \
                    n.func.id == 'getattr' and len(n.args) >= 2:
                key = n.args[1]
        if key is None:
            return []
        defs = {}
        for n in ast.walk(fn):
            if isinstance(n, ast.Assign):
                for t in n.targets:
                    for x in ast.walk(t):
                        if isinstance(x, ast.Name):
                            defs.setdefault(x.id, []).append(n.value)
        seen, work, exprs = set(), [key], []
        while work:
            e = work.pop()
            exprs.append(e)
            for x in ast.walk(e):
                if isinstance(x, ast.Name) and x.id not in seen:
                    seen.add(x.id)
                    work.extend(defs.get(x.id, ()))
        # helpers that build the name: everything they compute counts
        m = self.dispatch.module
        hseen, hwork = set(), [c.func.id for e in exprs for c in ast.walk(e)
                               if isinstance(c, ast.Call) and
                               isinstance(c.func, ast.Name)]
        while hwork:
            h = hwork.pop()
            if h in hseen or h not in m.funcs:
                continue
            hseen.add(h)
            exprs.append(m.funcs[h].node)
            hwork.extend(c.func.id for c in ast.walk(m.funcs[h].node)
                         if isinstance(c, ast.Call) and
                         isinstance(c.func, ast.Name))
        out = []
        for e in exprs:
            for c in ast.walk(e):
                if not (isinstance(c, ast.Call) and
                        isinstance(c.func, ast.Attribute)):
                    continue
                if c.func.attr == 'decode' or (
                        isinstance(c.func, ast.Name) and
                        c.func.id == 'str'):
                    errs = [a.value for a in c.args[1:2]
                            if isinstance(a, ast.Constant)] + [
                        k.value.value for k in c.keywords
                        if k.arg == 'errors' and
                        isinstance(k.value, ast.Constant)]
                    if any(x in self.LOSSY_ERRORS for x in errs):
                        out.append((c.lineno, 'decoded with errors=%r'
                                    % errs[0]))
                elif c.func.attr in self.LOSSY_METHODS:
                    out.append((c.lineno, 'normalised with .%s()'
                                % c.func.attr))
        return out

    # ------------------------------------------------------------------
    def heap_from(self, astate):
        heap = {}
        for f, a in zip(self.fields, astate):
            v = concretise(f, a)
            if v is not None:
                heap[(self.selft, f)] = v
        return heap

    def astate_from(self, heap):
        return tuple(abstract(heap.get((self.selft, f))) for f in self.fields)

    def get(self, astate, field):
        return astate[self.fields.index(field)]

    def run_method(self, fi, astate, args=None, exc_edges=True):
        it = Interp(self.prog, inline=self._inline, exc_edges=exc_edges,
                    self_cls=self.cls, max_paths=20000)
        st = State(heap=self.heap_from(astate))
        return it.run(fi, args or {}, state=st)

    def initial(self, init_calls, overrides=None):
        """Run the given methods in order from the empty heap; returns the
        set of abstract states (forks are kept)."""
        cur = [tuple(('unset',) for _ in self.fields)]
        for mname in init_calls:
            fi = self.prog.lookup_method(self.cls, mname)
            if fi is None:
                raise AnalysisError('anchor vanished: %s.%s' % (
                    self.cls.qualname, mname))
            nxt = []
            for s in cur:
                for p in self.run_method(fi, s, exc_edges=False):
                    if p.outcome == 'raise':
                        continue
                    self._record_outputs(p)
                    a = self.astate_from(p.state.heap)
                    self.init_outputs = getattr(self, 'init_outputs', [])
                    self.init_outputs.append((a, self._outputs(p)))
                    if a not in nxt:
                        nxt.append(a)
            cur = nxt
        out = []
        for s in cur:
            variants = [s]
            for f, vals in (overrides or {}).items():
                i = self.fields.index(f)
                variants = [v[:i] + (('c', x),) + v[i + 1:]
                            for v in variants for x in vals]
            for v in variants:
                if v not in out:
                    out.append(v)
        return out

    def _record_outputs(self, p):
        pass

    def _outputs(self, p):
        outs = []
        for ev in iter_events(p.trace, deep=True):
            if ev[0] == 'call':
                c = ev[1]
                if kind(c[2]) == 'attr' and c[2][2] == self.send_method and \
                        c[3]:
                    outs.append(leading_token(c[3][0]))
        return tuple(outs)

    def _labels(self, p):
        labs = []
        for c, pol in p.cond:
            s = term_str(c)
            if len(s) > 90:
                s = s[:90] + '..'
            labs.append((s, pol))
        for ev in p.trace:
            if ev[0] == 'exc-edge':
                labs.append(('raises:%s' % ev[1], True))
        return tuple(labs)

    def step(self, astate, cmd):
        """All transitions of one command from one abstract state."""
        out = []
        if cmd == '<unknown>':
            fi = self.dispatch
            paths = self.run_method(fi, astate)
            sel = []
            for p in paths:
                # paths on which the looked-up handler is missing
                miss = False
                for c, pol in p.cond:
                    if kind(c) == 'call' and c[1] == 'getattr' and not pol:
                        miss = True
                if miss:
                    sel.append(p)
            paths = sel
        else:
            fi = self.prog.lookup_method(self.cls, self.prefix + cmd)
            paths = self.run_method(fi, astate)
        for p in paths:
            closed = False
            exc = None
            if p.outcome == 'raise':
                v = p.value
                name = None
                if kind(v) == 'call' and v[1]:
                    name = v[1].split('.')[-1]
                if name == self.close_exc:
                    closed = True
                else:
                    exc = term_str(v)[:80]
            stores = {}
            for ev in iter_events(p.trace):
                if ev[0] == 'setattr' and ev[1] == self.selft:
                    stores.setdefault(ev[2], []).append(abstract(ev[3]))
            t = Transition(astate, cmd, self._labels(p), self._outputs(p),
                           self.astate_from(p.state.heap), closed, exc,
                           stores, p)
            out.append(t)
        return out

    def explore(self, inits, terminal=lambda m, s: False):
        self.states = list(inits)
        work = list(inits)
        cmds = self.commands + ['<unknown>']
        while work:
            s = work.pop(0)
            if terminal(self, s):
                continue
            for cmd in cmds:
                for t in self.step(s, cmd):
                    self.transitions.append(t)
                    if not t.closed and not t.exc and \
                            t.post not in self.states:
                        self.states.append(t.post)
                        work.append(t.post)
                        if len(self.states) > self.max_states:
                            raise AnalysisError(
                                '%s: abstract state space exceeds %d states'
                                % (self.cls.qualname, self.max_states))
        return self

    def rows(self):
        seen = {}
        for t in self.transitions:
            seen.setdefault(t.row(), t)
        return seen

    def shortest_to(self, inits, target):
        """Shortest command sequence from an initial state to `target`."""
        from collections import deque
        prev = {s: None for s in inits}
        dq = deque(inits)
        succ = {}
        for t in self.transitions:
            if not t.closed and not t.exc:
                succ.setdefault(t.pre, []).append(t)
        while dq:
            s = dq.popleft()
            if s == target:
                seq = []
                while prev[s] is not None:
                    s, t = prev[s]
                    seq.append('%s%s' % (t.cmd, '/' + ','.join(t.outputs)
                                         if t.outputs else ''))
                return list(reversed(seq))
            for t in succ.get(s, ()):
                if t.post not in prev:
                    prev[t.post] = (s, t)
                    dq.append(t.post)
        return None

    def show(self, astate):
        return {f: (a[1] if a[0] in ('c', 'l') else a[0])
                for f, a in zip(self.fields, astate) if a[0] != 'obj'
                or f in ()}
