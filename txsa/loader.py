"""Loader and symbol tables: parses every txdbus/*.py of the tree under analysis.

Qualified names used everywhere in the checkers:
    '<module>.<func>'                      marshal.marshal_array
    '<module>.<Class>'                     client.DBusClientConnection
    '<module>.<Class>.<method>'            client.DBusClientConnection.callRemote
    '<module>.<func>.<nested>'             client.connect.try_next_ep
"""
import ast
import hashlib
import os


class AnalysisError(Exception):
    """The analyser cannot do its job (exit 2, never a VIOLATION)."""


PKG = 'txdbus'


class FuncInfo:
    def __init__(self, qualname, node, module, cls=None, parent=None):
        self.qualname = qualname
        self.node = node
        self.module = module
        self.cls = cls          # ClassInfo when a method
        self.parent = parent    # enclosing FuncInfo when nested
        self.nested = {}        # name -> FuncInfo

    @property
    def name(self):
        return self.node.name if hasattr(self.node, 'name') else '<lambda>'

    @property
    def is_method(self):
        return self.cls is not None and self.parent is None

    def params(self):
        a = self.node.args
        return [x.arg for x in a.posonlyargs + a.args]

    def where(self):
        return '%s:%d' % (self.module.relpath, self.node.lineno)

    def __repr__(self):
        return '<Func %s>' % self.qualname


class ClassInfo:
    def __init__(self, qualname, node, module):
        self.qualname = qualname
        self.node = node
        self.module = module
        self.methods = {}       # name -> FuncInfo
        self.attrs = {}         # name -> value ast node (class-level assigns)
        self.base_exprs = list(node.bases)
        self.bases = []         # resolved in-package ClassInfo
        self.ext_bases = []     # dotted names of external bases

    @property
    def name(self):
        return self.node.name

    def __repr__(self):
        return '<Class %s>' % self.qualname


def attr_read_elsewhere(fn_node, attr):
    """Is self.<attr> read in fn_node other than inside the statement that
    updates it (`self.x += 1`, `self.x = self.x + n`)?  A statistics counter
    is written and never otherwise read: it cannot influence anything."""
    import ast
    own = set()
    for n in ast.walk(fn_node):
        tgt = None
        if isinstance(n, ast.AugAssign):
            tgt = n.target
        elif isinstance(n, ast.Assign) and len(n.targets) == 1:
            tgt = n.targets[0]
        if isinstance(tgt, ast.Attribute) and tgt.attr == attr and \
                isinstance(tgt.value, ast.Name) and tgt.value.id == 'self':
            for m in ast.walk(n):
                own.add(id(m))
    for n in ast.walk(fn_node):
        if isinstance(n, ast.Attribute) and n.attr == attr and \
                isinstance(n.ctx, ast.Load) and \
                isinstance(n.value, ast.Name) and n.value.id == 'self' and \
                id(n) not in own:
            return True
    return False


def nested_by_role(fi, name, role=None):
    """A nested function of fi: by its usual name, else by its role (so that
    renaming a closure does not make the anchor vanish).  Roles:
    'only' - the single nested function; ('passed_to', method, position) - the
    closure passed as that positional argument of a call of that method name
    inside fi (d.addCallback(ok), d.addCallbacks(reply, error),
    X.addErrback(f)); ('called_with', n) - the closure that fi calls directly
    with n positional arguments most often."""
    import ast
    sub = fi.nested.get(name)
    if sub is not None or role is None:
        return sub
    if isinstance(role, list):
        for r in role:
            sub = nested_by_role(fi, name, r)
            if sub is not None:
                return sub
        return None
    if role == 'only':
        return next(iter(fi.nested.values())) if len(fi.nested) == 1 else None
    if role[0] == 'passed_to':
        _, meth, pos = role
        for n in ast.walk(fi.node):
            if isinstance(n, ast.Call) and isinstance(n.func, ast.Attribute) \
                    and n.func.attr == meth and len(n.args) > pos and \
                    isinstance(n.args[pos], ast.Name) and \
                    n.args[pos].id in fi.nested:
                return fi.nested[n.args[pos].id]
        return None
    if role[0] == 'called_with':
        from collections import Counter
        cnt = Counter()
        for n in ast.walk(fi.node):
            if isinstance(n, ast.Call) and isinstance(n.func, ast.Name) and \
                    n.func.id in fi.nested and len(n.args) == role[1]:
                cnt[n.func.id] += 1
        return fi.nested[cnt.most_common(1)[0][0]] if cnt else None
    return None


class Module:
    def __init__(self, name, path, relpath, src):
        self.name = name
        self.path = path
        self.relpath = relpath
        self.src = src
        self.sha256 = hashlib.sha256(src.encode('utf-8')).hexdigest()
        try:
            self.tree = ast.parse(src, filename=path)
        except SyntaxError as e:
            raise AnalysisError('%s does not parse: %s' % (relpath, e))
        self.funcs = {}      # top-level name -> FuncInfo
        self.classes = {}    # name -> ClassInfo
        self.assigns = {}    # module-level name -> [value nodes] (in order)
        self.imports = {}    # local name -> dotted target ('txdbus.marshal',
        #                      'txdbus.error.MarshallingError', 'struct', ...)
        self.mutated = set()  # module-level names mutated in place anywhere
        #                       in this module (NAME[k] = v, NAME.append(..))
        for n in ast.walk(self.tree):
            if isinstance(n, ast.Subscript) and \
                    isinstance(n.ctx, (ast.Store, ast.Del)) and \
                    isinstance(n.value, ast.Name):
                self.mutated.add(n.value.id)
            elif isinstance(n, ast.Call) and \
                    isinstance(n.func, ast.Attribute) and \
                    isinstance(n.func.value, ast.Name) and n.func.attr in (
                        'append', 'extend', 'insert', 'pop', 'remove', 'clear',
                        'update', 'add', 'reverse', 'sort', 'discard',
                        'setdefault', 'popitem'):
                self.mutated.add(n.func.value.id)


class Program:
    _KNOWN = None

    def is_renamed_closure(self, qn):
        """A nested function whose name is not in the known list, inside a
        known function that has exactly as many nested functions as it had
        when the list was made: a closure that was renamed, not a helper
        that was extracted (it keeps being analysed as a unit)."""
        known = self.known_funcs()
        fi = self.all_funcs.get(qn)
        if known is None or fi is None or getattr(fi, 'parent', None) is None:
            return False
        pq = fi.parent.qualname
        if pq not in known:
            return False
        before = sum(1 for k in known if k.startswith(pq + '.') and
                     '.' not in k[len(pq) + 1:])
        return before == len(fi.parent.nested)

    def known_funcs(self):
        """Qualified names of the functions that existed when the rules were
        written (txsa/known_funcs.txt, regenerated by tools/dump.py
        --known); None if the list is missing."""
        if Program._KNOWN is None:
            import os
            p = os.path.join(os.path.dirname(os.path.abspath(__file__)),
                             'known_funcs.txt')
            try:
                with open(p, encoding='utf-8') as f:
                    Program._KNOWN = frozenset(
                        l.strip() for l in f if l.strip())
            except OSError:
                Program._KNOWN = False
        return Program._KNOWN or None

    def __init__(self, root=None):
        self.root = root or os.environ.get('TXDBUS_SRC', '/repo')
        self.pkgdir = os.path.join(self.root, PKG)
        if not os.path.isdir(self.pkgdir):
            raise AnalysisError('no package directory %s' % self.pkgdir)
        self.modules = {}
        self.all_funcs = {}     # qualname -> FuncInfo
        self.all_classes = {}   # qualname -> ClassInfo
        for fn in sorted(os.listdir(self.pkgdir)):
            if not fn.endswith('.py'):
                continue
            name = fn[:-3]
            path = os.path.join(self.pkgdir, fn)
            with open(path, encoding='utf-8') as f:
                src = f.read()
            m = Module(name, path, '%s/%s' % (PKG, fn), src)
            self.modules[name] = m
        for m in self.modules.values():
            self._index_module(m)
        for c in self.all_classes.values():
            self._resolve_bases(c)

    # -- indexing ----------------------------------------------------------

    def _index_module(self, m):
        for st in m.tree.body:
            self._index_stmt(m, st)

    def _index_stmt(self, m, st):
        if isinstance(st, (ast.FunctionDef, ast.AsyncFunctionDef)):
            fi = FuncInfo('%s.%s' % (m.name, st.name), st, m)
            m.funcs[st.name] = fi
            self._register_func(fi)
        elif isinstance(st, ast.ClassDef):
            ci = ClassInfo('%s.%s' % (m.name, st.name), st, m)
            m.classes[st.name] = ci
            self.all_classes[ci.qualname] = ci
            for cst in st.body:
                if isinstance(cst, (ast.FunctionDef, ast.AsyncFunctionDef)):
                    fi = FuncInfo('%s.%s' % (ci.qualname, cst.name), cst, m,
                                  cls=ci)
                    ci.methods[cst.name] = fi
                    self._register_func(fi)
                elif isinstance(cst, ast.Assign):
                    for t in cst.targets:
                        if isinstance(t, ast.Name):
                            ci.attrs[t.id] = cst.value
                elif isinstance(cst, ast.AnnAssign) and cst.value is not None:
                    if isinstance(cst.target, ast.Name):
                        ci.attrs[cst.target.id] = cst.value
        elif isinstance(st, ast.Assign):
            for t in st.targets:
                if isinstance(t, ast.Name):
                    m.assigns.setdefault(t.id, []).append(st.value)
        elif isinstance(st, ast.Import):
            for a in st.names:
                local = a.asname or a.name.split('.')[0]
                m.imports[local] = a.name if a.asname else a.name.split('.')[0]
        elif isinstance(st, ast.ImportFrom):
            mod = st.module or ''
            for a in st.names:
                m.imports[a.asname or a.name] = '%s.%s' % (mod, a.name) \
                    if mod else a.name
        elif isinstance(st, (ast.If, ast.For, ast.While, ast.With, ast.Try)):
            # module-level control flow (e.g. 'for _, tcode, align in
            # dbus_types: pad[tcode] = genpad(align)'): index nested defs and
            # simple assigns conservatively
            for sub in ast.iter_child_nodes(st):
                if isinstance(sub, ast.stmt):
                    self._index_stmt(m, sub)

    def _register_func(self, fi):
        self.all_funcs[fi.qualname] = fi
        self._index_nested(fi)

    def _index_nested(self, fi):
        for node in self._iter_scope(fi.node):
            if isinstance(node, (ast.FunctionDef, ast.AsyncFunctionDef)):
                sub = FuncInfo('%s.%s' % (fi.qualname, node.name), node,
                               fi.module, cls=fi.cls, parent=fi)
                fi.nested[node.name] = sub
                self.all_funcs[sub.qualname] = sub
                self._index_nested(sub)

    @staticmethod
    def _iter_scope(fnode):
        """All nodes in the body of fnode, not descending into nested defs
        (but yielding them)."""
        stack = list(fnode.body)
        while stack:
            n = stack.pop()
            yield n
            if isinstance(n, (ast.FunctionDef, ast.AsyncFunctionDef,
                              ast.Lambda, ast.ClassDef)):
                continue
            stack.extend(ast.iter_child_nodes(n))

    def _resolve_bases(self, c):
        for b in c.base_exprs:
            tgt = self.resolve_name_expr(c.module, b)
            if tgt and tgt[0] == 'class':
                c.bases.append(tgt[1])
            else:
                c.ext_bases.append(dotted(b) or ast.dump(b))

    # -- lookup ------------------------------------------------------------

    def module(self, name):
        if name not in self.modules:
            raise AnalysisError('anchor vanished: module %s.%s' % (PKG, name))
        return self.modules[name]

    def func(self, qualname):
        if qualname not in self.all_funcs:
            raise AnalysisError('anchor vanished: function %s' % qualname)
        return self.all_funcs[qualname]

    def has_func(self, qualname):
        return qualname in self.all_funcs

    def cls(self, qualname):
        if qualname not in self.all_classes:
            raise AnalysisError('anchor vanished: class %s' % qualname)
        return self.all_classes[qualname]

    def mro(self, c):
        """In-package linearisation (depth-first, left-to-right, dedup keeping
        last - sufficient for the single-inheritance chains of this package)."""
        out = [c]
        for b in c.bases:
            for x in self.mro(b):
                if x not in out:
                    out.append(x)
        return out

    def lookup_method(self, c, name):
        for k in self.mro(c):
            if name in k.methods:
                return k.methods[name]
        return None

    def lookup_class_attr(self, c, name):
        for k in self.mro(c):
            if name in k.attrs:
                return k, k.attrs[name]
        return None, None

    def subclasses(self, c):
        return [k for k in self.all_classes.values() if c in self.mro(k)]

    def resolve_dotted(self, dotted_name):
        """'txdbus.marshal.marshal' / 'txdbus.error.MarshallingError' ->
        ('func', FuncInfo) | ('class', ClassInfo) | ('module', Module) |
        ('global', (Module, name)) | None"""
        parts = dotted_name.split('.')
        if parts[0] != PKG:
            return None
        parts = parts[1:]
        if not parts:
            return None
        if parts[0] not in self.modules:
            return None
        m = self.modules[parts[0]]
        rest = parts[1:]
        if not rest:
            return ('module', m)
        return self.resolve_in_module(m, rest)

    def resolve_in_module(self, m, rest, _depth=0):
        head = rest[0]
        if head in m.funcs and len(rest) == 1:
            return ('func', m.funcs[head])
        if head in m.classes:
            c = m.classes[head]
            if len(rest) == 1:
                return ('class', c)
            if len(rest) == 2:
                f = self.lookup_method(c, rest[1])
                if f:
                    return ('func', f)
                k, v = self.lookup_class_attr(c, rest[1])
                if v is not None:
                    return ('classattr', (k, rest[1]))
            return None
        if head in m.assigns:
            if len(rest) == 1:
                # alias of a function/class?  e.g. marshal_dictionary =
                # marshal_struct
                vals = m.assigns[head]
                if len(vals) == 1 and isinstance(vals[0], ast.Name) \
                        and _depth < 5:
                    r = self.resolve_in_module(m, [vals[0].id], _depth + 1)
                    if r and r[0] in ('func', 'class'):
                        return r
                return ('global', (m, head))
            return None
        if head in m.imports and _depth < 5:
            tgt = m.imports[head]
            r = self.resolve_dotted('.'.join([tgt] + rest[1:]))
            return r
        return None

    def resolve_name_expr(self, m, expr):
        """Resolve a Name / dotted Attribute expression evaluated at module
        scope of m."""
        d = dotted(expr)
        if d is None:
            return None
        parts = d.split('.')
        if parts[0] in m.imports:
            tgt = m.imports[parts[0]]
            return self.resolve_dotted('.'.join([tgt] + parts[1:]))
        return self.resolve_in_module(m, parts)

    def digests(self):
        return {m.relpath: m.sha256 for m in self.modules.values()}


def dotted(expr):
    """'a.b.c' for Name/Attribute chains, else None."""
    parts = []
    while isinstance(expr, ast.Attribute):
        parts.append(expr.attr)
        expr = expr.value
    if isinstance(expr, ast.Name):
        parts.append(expr.id)
        return '.'.join(reversed(parts))
    return None


def src_of(node):
    try:
        return ast.unparse(node)
    except Exception:
        return '<%s>' % type(node).__name__
