"""Loader and symbol tables: parses every txdbus/*.py of the tree under analysis.

Qualified names used everywhere in the checkers:
    '<module>.<func>'                      marshal.marshal_array
    '<module>.<Class>'                     client.DBusClientConnection
    '<module>.<Class>.<method>'            client.DBusClientConnection.callRemote
    '<module>.<func>.<nested>'             client.connect.try_next_ep
"""
import ast
import hashlib
import os


class AnalysisError(Exception):
    """The analyser cannot do its job (exit 2, never a VIOLATION)."""


PKG = 'txdbus'


class FuncInfo:
    def __init__(self, qualname, node, module, cls=None, parent=None):
        self.qualname = qualname
        self.node = node
        self.module = module
        self.cls = cls          # ClassInfo when a method
        self.parent = parent    # enclosing FuncInfo when nested
        self.nested = {}        # name -> FuncInfo

    @property
    def name(self):
        return self.node.name if hasattr(self.node, 'name') else '<lambda>'

    @property
    def is_method(self):
        return self.cls is not None and self.parent is None

    def params(self):
        a = self.node.args
        return [x.arg for x in a.posonlyargs + a.args]

    def where(self):
        return '%s:%d' % (self.module.relpath, self.node.lineno)

    def __repr__(self):
        return '<Func %s>' % self.qualname


class ClassInfo:
    def __init__(self, qualname, node, module):
        self.qualname = qualname
        self.node = node
        self.module = module
        self.methods = {}       # name -> FuncInfo
        self.attrs = {}         # name -> value ast node (class-level assigns)
        self.base_exprs = list(node.bases)
        self.bases = []         # resolved in-package ClassInfo
        self.ext_bases = []     # dotted names of external bases

    @property
    def name(self):
        return self.node.name

    def __repr__(self):
        return '<Class %s>' % self.qualname


def attr_read_elsewhere(fn_node, attr):
    """Is self.<attr> read in fn_node other than inside the statement that
    updates it (`self.x += 1`, `self.x = self.x + n`)?  A statistics counter
    is written and never otherwise read: it cannot influence anything."""
    import ast
    own = set()
    for n in ast.walk(fn_node):
        tgt = None
        if isinstance(n, ast.AugAssign):
            tgt = n.target
        elif isinstance(n, ast.Assign) and len(n.targets) == 1:
            tgt = n.targets[0]
        if isinstance(tgt, ast.Attribute) and tgt.attr == attr and \
                isinstance(tgt.value, ast.Name) and tgt.value.id == 'self':
            for m in ast.walk(n):
                own.add(id(m))
    for n in ast.walk(fn_node):
        if isinstance(n, ast.Attribute) and n.attr == attr and \
                isinstance(n.ctx, ast.Load) and \
                isinstance(n.value, ast.Name) and n.value.id == 'self' and \
                id(n) not in own:
            return True
    return False


def nested_by_role(fi, name, role=None):
    """A nested function of fi: by its usual name, else by its role (so that
    renaming a closure does not make the anchor vanish).  Roles:
    'only' - the single nested function; ('passed_to', method, position) - the
    closure passed as that positional argument of a call of that method name
    inside fi (d.addCallback(ok), d.addCallbacks(reply, error),
    X.addErrback(f)); ('called_with', n) - the closure that fi calls directly
    with n positional arguments most often."""
    import ast
    sub = fi.nested.get(name)
    if sub is not None or role is None:
        return sub
    if isinstance(role, list):
        for r in role:
            sub = nested_by_role(fi, name, r)
            if sub is not None:
                return sub
        return None
    if role == 'only':
        return next(iter(fi.nested.values())) if len(fi.nested) == 1 else None
    if role[0] == 'passed_to':
        _, meth, pos = role
        for n in ast.walk(fi.node):
            if isinstance(n, ast.Call) and isinstance(n.func, ast.Attribute) \
                    and n.func.attr == meth and len(n.args) > pos and \
                    isinstance(n.args[pos], ast.Name) and \
                    n.args[pos].id in fi.nested:
                return fi.nested[n.args[pos].id]
        return None
    if role[0] == 'called_with':
        from collections import Counter
        cnt = Counter()
        for n in ast.walk(fi.node):
            if isinstance(n, ast.Call) and isinstance(n.func, ast.Name) and \
                    n.func.id in fi.nested and len(n.args) == role[1]:
                cnt[n.func.id] += 1
        return fi.nested[cnt.most_common(1)[0][0]] if cnt else None
    return None


def body_fingerprint(node, rev=None):
    """Hash of a function's parameters and body, independent of the
    function's own name and of source positions; attribute and function
    names that are known renames (rev: actual -> known) count as the known
    name."""
    import copy
    import hashlib
    node = copy.deepcopy(node)
    own = node.name
    for n in ast.walk(node):
        if isinstance(n, ast.Attribute):
            if n.attr == own:
                n.attr = '<self>'          # a recursive / self reference
            elif rev and n.attr in rev:
                n.attr = rev[n.attr]
        elif isinstance(n, ast.Name):
            if n.id == own:
                n.id = '<self>'
            elif rev and n.id in rev:
                n.id = rev[n.id]
    parts = [_dump(node.args)] + [_dump(st) for st in node.body
                                  if not (isinstance(st, ast.Expr) and
                                          isinstance(st.value, ast.Constant)
                                          and isinstance(st.value.value, str))]
    return hashlib.sha1('\n'.join(parts).encode()).hexdigest()[:16]


def _dump(node):
    """ast.dump without the fields that differ between interpreter versions
    (type_params, type_comment, kind) and without empty / None fields."""
    if isinstance(node, ast.AST):
        fields = []
        for name, value in ast.iter_fields(node):
            if name in ('type_params', 'type_comment', 'kind', 'ctx'):
                continue
            if value is None or value == []:
                continue
            fields.append('%s=%s' % (name, _dump(value)))
        return '%s(%s)' % (type(node).__name__, ', '.join(fields))
    if isinstance(node, list):
        return '[%s]' % ', '.join(_dump(x) for x in node)
    return repr(node)


_FPS = None


def known_fingerprints():
    global _FPS
    if _FPS is None:
        p = os.path.join(os.path.dirname(os.path.abspath(__file__)),
                         'known_fps.json')
        try:
            import json
            with open(p, encoding='utf-8') as f:
                _FPS = json.load(f)
        except (OSError, ValueError):
            _FPS = {}
    return _FPS


_KG = None


def known_globals():
    """{module: {name: dump of the value}} of the module-level names bound
    exactly once on the tree the rules were written against."""
    global _KG
    if _KG is None:
        p = os.path.join(os.path.dirname(os.path.abspath(__file__)),
                         'known_globals.json')
        try:
            import json
            with open(p, encoding='utf-8') as f:
                _KG = json.load(f)
        except (OSError, ValueError):
            _KG = {}
    return _KG


def canonical_maps(containers):
    """containers: {container qualname: {actual name: FunctionDef}} for every
    module and class.  Returns {container: {actual name: known name}} for the
    functions that are a pure RENAME of a known function of that container
    (same parameters and body up to the renames found so far, the known name
    is gone, the match is unique).  The rules keep addressing them by the name
    they were written against.  Computed as a fixpoint so that a renamed
    function may call another renamed function."""
    fps = known_fingerprints()
    out = {c: {} for c in containers}
    rev = {}                      # actual name -> known name (any container)
    for _ in range(4):
        changed = False
        for cont, present in containers.items():
            prefix = cont + '.'
            known_here = {k[len(prefix):]: v for k, v in fps.items()
                          if k.startswith(prefix) and
                          '.' not in k[len(prefix):]}
            missing = {n: fp for n, fp in known_here.items()
                       if n not in present and n not in out[cont].values()}
            if not missing:
                continue
            new = {n: node for n, node in present.items()
                   if n not in known_here and n not in out[cont]}
            for old, fp in missing.items():
                cands = [n for n, node in new.items()
                         if body_fingerprint(node, rev) == fp]
                if len(cands) == 1:
                    out[cont][cands[0]] = old
                    rev[cands[0]] = old
                    changed = True
        if not changed:
            break
    return out


def _delegate_ok(wnode, core_name, is_method):
    """Is `wnode` a transparent delegate of the function `core_name`: it
    calls it exactly once, with its own parameters in order, and everything
    it returns / yields is that call's result - directly, through
    tuple()/list()/iter(), or looked up again in a module-level memo (whose
    soundness is clause DM's business)?"""
    a = wnode.args
    if a.vararg or a.kwarg or a.kwonlyargs:
        return False
    params = [x.arg for x in a.posonlyargs + a.args]
    call_params = params[1:] if is_method else params
    calls = []
    for n in ast.walk(wnode):
        if isinstance(n, ast.Call):
            f = n.func
            nm = f.id if isinstance(f, ast.Name) else (
                f.attr if isinstance(f, ast.Attribute) and
                isinstance(f.value, ast.Name) and f.value.id == 'self'
                else None)
            if nm == core_name:
                calls.append(n)
    if not calls:
        return False
    for c in calls:
        passed = [x.id if isinstance(x, ast.Name) else None
                  for x in c.args] + \
            [k.value.id if isinstance(k.value, ast.Name) and
             k.arg == k.value.id else None for k in c.keywords]
        if passed != call_params:
            return False
    local_names = {n.id for n in ast.walk(wnode)
                   if isinstance(n, ast.Name) and isinstance(n.ctx, ast.Store)}
    # names that hold (a conversion of) the result
    holds = set()

    def derived(e):
        if any(e is c for c in calls):
            return True
        if isinstance(e, ast.Name) and e.id in holds:
            return True
        if isinstance(e, ast.Call) and isinstance(e.func, ast.Name) and \
                e.func.id in ('tuple', 'list', 'iter') and \
                len(e.args) == 1 and not e.keywords:
            return derived(e.args[0])
        if isinstance(e, ast.Subscript) and isinstance(e.value, ast.Name) \
                and e.value.id[:1] == '_':
            return True          # memo lookup
        if isinstance(e, ast.Call) and isinstance(e.func, ast.Attribute) \
                and e.func.attr in ('get', 'setdefault') and \
                isinstance(e.func.value, ast.Name) and \
                e.func.value.id[:1] == '_':
            return True          # memo lookup
        return False
    for _ in range(3):
        for n in ast.walk(wnode):
            if isinstance(n, ast.Assign) and derived(n.value):
                for t in n.targets:
                    if isinstance(t, ast.Name):
                        holds.add(t.id)
            if isinstance(n, ast.For) and derived(n.iter) and \
                    isinstance(n.target, ast.Name):
                holds.add(('elem', n.target.id))
    outs = 0
    for n in ast.walk(wnode):
        if isinstance(n, ast.Return) and n.value is not None:
            if not derived(n.value):
                return False
            outs += 1
        if isinstance(n, ast.YieldFrom):
            if not derived(n.value):
                return False
            outs += 1
        if isinstance(n, ast.Yield):
            if not (isinstance(n.value, ast.Name) and
                    ('elem', n.value.id) in holds):
                return False
            outs += 1
        if isinstance(n, (ast.Raise, ast.While, ast.Global, ast.Nonlocal)):
            return False
        if isinstance(n, ast.Call) and not any(n is c for c in calls):
            f = n.func
            ok = (isinstance(f, ast.Name) and
                  f.id in ('tuple', 'list', 'iter', 'len', 'type',
                           'isinstance')) or (
                # collecting what was produced in a LOCAL list
                isinstance(f, ast.Attribute) and f.attr == 'append' and
                isinstance(f.value, ast.Name) and
                f.value.id in local_names and f.value.id[:1] != '_') or (
                isinstance(f, ast.Attribute) and
                isinstance(f.value, ast.Name) and f.value.id[:1] == '_' and
                f.attr in ('get', 'setdefault', 'add', 'pop', 'popitem',
                           'clear'))
            if not ok:
                return False
        if isinstance(n, ast.Attribute) and isinstance(n.ctx, ast.Store):
            return False
    return outs > 0


def wrapper_core_splits(conts):
    """{container: {K: U}}: the known function K still exists but is now a
    transparent delegate (typically a memo) of a NEW function U that has the
    body K used to have.  The rules were written against that body, so the
    trees are rewritten: U takes the name K, the delegate becomes
    K__wrapper, references to U become references to K."""
    fps = known_fingerprints()
    out = {}
    for cont, present in conts.items():
        prefix = cont + '.'
        known_here = {k[len(prefix):]: v for k, v in fps.items()
                      if k.startswith(prefix) and '.' not in k[len(prefix):]}
        for K, fp in known_here.items():
            if K not in present or body_fingerprint(present[K]) == fp:
                continue
            cands = [n for n, node in present.items()
                     if n not in known_here and n != K and (
                         body_fingerprint(node) == fp or
                         body_fingerprint(node, {K: '<self>'}) == fp)]
            if len(cands) != 1:
                continue
            U = cands[0]
            if _delegate_ok(present[K], U, is_method='.' in cont):
                out.setdefault(cont, {})[K] = U
    return out


def _attr_by_name(n):
    """The constant naming the attribute in getattr/hasattr/setattr/delattr
    (x, '<name>', ...), else None."""
    if isinstance(n, ast.Call) and isinstance(n.func, ast.Name) and \
            n.func.id in ('getattr', 'hasattr', 'setattr', 'delattr') and \
            len(n.args) >= 2 and isinstance(n.args[1], ast.Constant) and \
            isinstance(n.args[1].value, str):
        return n.args[1]
    return None


def attr_profiles(modules, canon):
    """{attribute name: {where: count}} over the package, `where` being
    'module.Class.function' (top-level function or method, by its canonical
    name) or 'module.Class' for class-level assignments."""
    prof = {}

    def bump(name, where):
        prof.setdefault(name, {})
        prof[name][where] = prof[name].get(where, 0) + 1

    def scan(node, where):
        for n in ast.walk(node):
            if isinstance(n, ast.Attribute):
                bump(n.attr, where)
            elif _attr_by_name(n) is not None:
                bump(_attr_by_name(n).value, where)
    # functions are identified by their POSITION in their container, so
    # that the profile does not depend on function names (which may have
    # been renamed in the same change)
    for mname, tree in modules.items():
        k = 0
        for st in tree.body:
            if isinstance(st, (ast.FunctionDef, ast.AsyncFunctionDef)):
                scan(st, '%s#%d' % (mname, k))
                k += 1
            elif isinstance(st, ast.ClassDef):
                cq = '%s.%s' % (mname, st.name)
                j = 0
                for cst in st.body:
                    if isinstance(cst, (ast.FunctionDef,
                                        ast.AsyncFunctionDef)):
                        scan(cst, '%s#%d' % (cq, j))
                        j += 1
                    elif isinstance(cst, ast.Assign):
                        for t in cst.targets:
                            if isinstance(t, ast.Name):
                                bump(t.id, cq)
                        scan(cst.value, cq)
            else:
                scan(st, mname)
    return prof


_APROF = None


def known_attr_profiles():
    global _APROF
    if _APROF is None:
        p = os.path.join(os.path.dirname(os.path.abspath(__file__)),
                         'known_attrs.json')
        try:
            import json
            with open(p, encoding='utf-8') as f:
                _APROF = json.load(f)
        except (OSError, ValueError):
            _APROF = {}
    return _APROF


def attribute_aliases(modules, canon):
    """{new attribute name: known attribute name} for attributes that were
    consistently RENAMED: the known name no longer occurs anywhere, and exactly
    one name that the baseline did not have occurs in exactly the same places
    the same number of times."""
    base = known_attr_profiles()
    if not base:
        return {}
    now = attr_profiles(modules, canon)
    gone = {a: pr for a, pr in base.items() if a not in now}
    fresh = {a: pr for a, pr in now.items() if a not in base}
    out = {}
    for old, pr in gone.items():
        cands = [a for a, p2 in fresh.items() if p2 == pr]
        if len(cands) == 1 and cands[0] not in out:
            out[cands[0]] = old
    return out


def _fold_module_aliases(tree):
    """A module table built under a private name and published under another
    by a plain `PUBLIC = _private` (after the view wrapper was removed: a
    read-only view of a table filled at import time) is ONE table: when
    nothing inside a function or class refers to the private name, the private
    name is renamed to the public one and the alias statement dropped."""
    top = tree.body
    inner = set()
    for st in top:
        if isinstance(st, (ast.FunctionDef, ast.AsyncFunctionDef,
                           ast.ClassDef)):
            for n in ast.walk(st):
                if isinstance(n, ast.Name):
                    inner.add(n.id)
    assigned = {}
    for st in top:
        if isinstance(st, ast.Assign) and len(st.targets) == 1 and \
                isinstance(st.targets[0], ast.Name):
            assigned.setdefault(st.targets[0].id, []).append(st)
    for st in list(top):
        if not (isinstance(st, ast.Assign) and len(st.targets) == 1 and
                isinstance(st.targets[0], ast.Name) and
                isinstance(st.value, ast.Name)):
            continue
        pub, priv = st.targets[0].id, st.value.id
        if priv in inner or priv not in assigned or pub == priv or \
                len(assigned.get(pub, ())) != 1:
            continue
        for other in top:
            if other is st:
                continue
            for n in ast.walk(other):
                if isinstance(n, ast.Name) and n.id == priv:
                    n.id = pub
        top.remove(st)


class _Normalise(ast.NodeTransformer):
    """Spellings that mean the same are brought to one form before anything
    reads the tree (the interpreter and the syntax-reading rules alike):

    * `with contextlib.suppress(E): BODY`  is  `try: BODY / except E: pass`;
    * `try: X = D[k] / except KeyError: H / else: E` - the try body one
      statement whose value is exactly the subscript - is `if k in D: X =
      D[k]; E / else: H` (look-before-you-leap and EAFP on a mapping without
      `__missing__`; every table this package subscripts that way is a plain
      dict)."""

    def visit_Call(self, node):
        # a read-only VIEW of a table reads like the table: the rules that
        # read module tables see through types.MappingProxyType(<table>)
        self.generic_visit(node)
        f = node.func
        if len(node.args) == 1 and not node.keywords and (
                (isinstance(f, ast.Attribute) and
                 f.attr == 'MappingProxyType' and
                 isinstance(f.value, ast.Name) and f.value.id == 'types') or
                (isinstance(f, ast.Name) and f.id == 'MappingProxyType')):
            return node.args[0]
        return node

    def visit_UnaryOp(self, node):
        # `not len(x) <= N` (the limit "at most N" negated) is `len(x) > N`:
        # one comparison of a length or an integer literal, where the two
        # spellings cannot differ
        self.generic_visit(node)
        v = node.operand
        if isinstance(node.op, ast.Not) and isinstance(v, ast.Compare) and \
                len(v.ops) == 1:
            def intlike(e):
                return (isinstance(e, ast.Call) and
                        isinstance(e.func, ast.Name) and e.func.id == 'len'
                        ) or (isinstance(e, ast.Constant) and
                              isinstance(e.value, int) and
                              not isinstance(e.value, bool))
            flip = {ast.Lt: ast.GtE, ast.LtE: ast.Gt, ast.Gt: ast.LtE,
                    ast.GtE: ast.Lt}
            t = type(v.ops[0])
            if t in flip and (intlike(v.left) or intlike(v.comparators[0])):
                return ast.copy_location(
                    ast.Compare(left=v.left, ops=[flip[t]()],
                                comparators=v.comparators), node)
        return node

    def visit_With(self, node):
        self.generic_visit(node)
        if len(node.items) == 1 and node.items[0].optional_vars is None:
            c = node.items[0].context_expr
            if isinstance(c, ast.Call) and not c.keywords and c.args and (
                    (isinstance(c.func, ast.Attribute) and
                     c.func.attr == 'suppress') or
                    (isinstance(c.func, ast.Name) and
                     c.func.id == 'suppress')):
                typ = c.args[0] if len(c.args) == 1 else ast.Tuple(
                    elts=list(c.args), ctx=ast.Load())
                h = ast.ExceptHandler(type=typ, name=None,
                                      body=[ast.Pass()])
                t = ast.Try(body=node.body, handlers=[h], orelse=[],
                            finalbody=[])
                return ast.copy_location(t, node)
        return node

    def visit_Assign(self, node):
        # x = next((E for v in S if C), D)  is the search loop
        #   for v in S:
        #       if C: x = E; break
        #   else: x = D
        self.generic_visit(node)
        v = node.value
        if len(node.targets) == 1 and isinstance(node.targets[0], ast.Name) \
                and isinstance(v, ast.Call) and \
                isinstance(v.func, ast.Name) and v.func.id == 'next' and \
                len(v.args) == 2 and not v.keywords and \
                isinstance(v.args[0], ast.GeneratorExp) and \
                len(v.args[0].generators) == 1 and \
                not v.args[0].generators[0].is_async:
            g = v.args[0].generators[0]
            tgt = node.targets[0]
            hit = [ast.Assign(targets=[ast.Name(id=tgt.id, ctx=ast.Store())],
                              value=v.args[0].elt), ast.Break()]
            body = hit
            for c in reversed(g.ifs):
                body = [ast.If(test=c, body=body, orelse=[])]
            loop = ast.For(target=g.target, iter=g.iter, body=body,
                           orelse=[ast.Assign(
                               targets=[ast.Name(id=tgt.id, ctx=ast.Store())],
                               value=v.args[1])])
            return ast.copy_location(loop, node)
        return node

    def visit_Try(self, node):
        self.generic_visit(node)
        if node.finalbody or len(node.handlers) != 1 or len(node.body) != 1:
            return node
        h = node.handlers[0]
        if not (isinstance(h.type, ast.Name) and h.type.id == 'KeyError'
                and h.name is None):
            return node
        st = node.body[0]
        val = st.value if isinstance(st, (ast.Assign, ast.Return, ast.Expr)) \
            else None
        if not (isinstance(val, ast.Subscript) and
                isinstance(val.ctx, ast.Load) and
                not isinstance(val.slice, ast.Slice)):
            return node
        if isinstance(st, ast.Assign) and not all(
                isinstance(t, ast.Name) for t in st.targets):
            return node
        # the key and the table are evaluated once more by the test: only
        # when they are plain names / attribute chains / constants
        def plain(e):
            return isinstance(e, (ast.Name, ast.Constant)) or (
                isinstance(e, ast.Attribute) and plain(e.value))
        if not (plain(val.value) and plain(val.slice)):
            return node
        test = ast.Compare(left=val.slice, ops=[ast.In()],
                           comparators=[val.value])
        handler_body = h.body
        if len(handler_body) == 1 and isinstance(handler_body[0], ast.Pass) \
                and not node.orelse:
            new = ast.If(test=test, body=[st], orelse=[])
        else:
            new = ast.If(test=test, body=[st] + list(node.orelse),
                         orelse=handler_body)
        return ast.copy_location(new, node)


class Module:
    def __init__(self, name, path, relpath, src):
        self.name = name
        self.path = path
        self.relpath = relpath
        self.src = src
        self.sha256 = hashlib.sha256(src.encode('utf-8')).hexdigest()
        try:
            self.tree = ast.parse(src, filename=path)
        except SyntaxError as e:
            raise AnalysisError('%s does not parse: %s' % (relpath, e))
        self.tree = _Normalise().visit(self.tree)
        _fold_module_aliases(self.tree)
        ast.fix_missing_locations(self.tree)
        self.funcs = {}      # top-level name -> FuncInfo
        self.classes = {}    # name -> ClassInfo
        self.assigns = {}    # module-level name -> [value nodes] (in order)
        self.imports = {}    # local name -> dotted target ('txdbus.marshal',
        #                      'txdbus.error.MarshallingError', 'struct', ...)
        self.mutated = set()  # module-level names mutated in place anywhere
        #                       in this module (NAME[k] = v, NAME.append(..))
        for n in ast.walk(self.tree):
            if isinstance(n, ast.Subscript) and \
                    isinstance(n.ctx, (ast.Store, ast.Del)) and \
                    isinstance(n.value, ast.Name):
                self.mutated.add(n.value.id)
            elif isinstance(n, ast.Call) and \
                    isinstance(n.func, ast.Attribute) and \
                    isinstance(n.func.value, ast.Name) and n.func.attr in (
                        'append', 'extend', 'insert', 'pop', 'remove', 'clear',
                        'update', 'add', 'reverse', 'sort', 'discard',
                        'setdefault', 'popitem'):
                self.mutated.add(n.func.value.id)


class Program:
    _KNOWN = None

    def is_renamed_closure(self, qn):
        """A nested function whose name is not in the known list, inside a
        known function that has exactly as many nested functions as it had
        when the list was made: a closure that was renamed, not a helper
        that was extracted (it keeps being analysed as a unit)."""
        known = self.known_funcs()
        fi = self.all_funcs.get(qn)
        if known is None or fi is None or getattr(fi, 'parent', None) is None:
            return False
        pq = fi.parent.qualname
        if pq not in known:
            return False
        before = sum(1 for k in known if k.startswith(pq + '.') and
                     '.' not in k[len(pq) + 1:])
        return before == len(fi.parent.nested)

    def known_funcs(self):
        """Qualified names of the functions that existed when the rules were
        written (txsa/known_funcs.txt, regenerated by tools/dump.py
        --known); None if the list is missing."""
        if Program._KNOWN is None:
            import os
            p = os.path.join(os.path.dirname(os.path.abspath(__file__)),
                             'known_funcs.txt')
            try:
                with open(p, encoding='utf-8') as f:
                    Program._KNOWN = frozenset(
                        l.strip() for l in f if l.strip())
            except OSError:
                Program._KNOWN = False
        return Program._KNOWN or None

    def __init__(self, root=None):
        self.root = root or os.environ.get('TXDBUS_SRC', '/repo')
        self.pkgdir = os.path.join(self.root, PKG)
        if not os.path.isdir(self.pkgdir):
            raise AnalysisError('no package directory %s' % self.pkgdir)
        self.modules = {}
        self.all_funcs = {}     # qualname -> FuncInfo
        self.all_classes = {}   # qualname -> ClassInfo
        self.renamed = {}       # known qualname -> actual name (pure renames)
        for fn in sorted(os.listdir(self.pkgdir)):
            if not fn.endswith('.py'):
                continue
            name = fn[:-3]
            path = os.path.join(self.pkgdir, fn)
            with open(path, encoding='utf-8') as f:
                src = f.read()
            m = Module(name, path, '%s/%s' % (PKG, fn), src)
            self.modules[name] = m
        conts = {}
        for m in self.modules.values():
            conts[m.name] = {
                x.name: x for x in m.tree.body
                if isinstance(x, (ast.FunctionDef, ast.AsyncFunctionDef))}
            for c in m.tree.body:
                if isinstance(c, ast.ClassDef):
                    conts['%s.%s' % (m.name, c.name)] = {
                        x.name: x for x in c.body if isinstance(
                            x, (ast.FunctionDef, ast.AsyncFunctionDef))}
        # attributes that were consistently renamed are given their known
        # name back in the trees the analysis works on (the rules address
        # state by attribute name: _buffer, _pendingCalls, exports, ...)
        self.attr_alias = attribute_aliases(
            {m.name: m.tree for m in self.modules.values()}, {})
        if self.attr_alias:
            for m in self.modules.values():
                for n in ast.walk(m.tree):
                    if isinstance(n, ast.Attribute) and \
                            n.attr in self.attr_alias:
                        n.attr = self.attr_alias[n.attr]
                    elif _attr_by_name(n) is not None and \
                            _attr_by_name(n).value in self.attr_alias:
                        _attr_by_name(n).value = self.attr_alias[
                            _attr_by_name(n).value]
                for st in m.tree.body:
                    if isinstance(st, ast.ClassDef):
                        for cst in st.body:
                            if isinstance(cst, ast.Assign):
                                for t in cst.targets:
                                    if isinstance(t, ast.Name) and \
                                            t.id in self.attr_alias:
                                        t.id = self.attr_alias[t.id]
        # a known function turned into a delegate of a new function that
        # has its old body: the new function is analysed under the known name
        self.splits = {}
        for cont, mp in wrapper_core_splits(conts).items():
            mname = cont.split('.')[0]
            tree = self.modules[mname].tree
            for K, U in mp.items():
                wnode, cnode = conts[cont][K], conts[cont][U]
                wname = K + '__wrapper'
                for n in ast.walk(tree):
                    if isinstance(n, ast.Name) and n.id == U:
                        n.id = K
                    elif isinstance(n, ast.Attribute) and n.attr == U:
                        n.attr = K
                cnode.name = K
                wnode.name = wname
                conts[cont][K] = cnode
                del conts[cont][U]
                conts[cont][wname] = wnode
                self.splits['%s.%s' % (cont, K)] = '%s.%s' % (cont, wname)
        self._canon = canonical_maps(conts)
        # actual method name -> known name, for calls on receivers whose class
        # is not known (msg._marshal(False), self.factory._failed(reason))
        self.renamed_attr = {a: k for m_ in self._canon.values()
                             for a, k in m_.items()}
        for m in self.modules.values():
            self._index_module(m)
        for c in self.all_classes.values():
            self._resolve_bases(c)
        self._alias_renamed_globals()

    def _alias_renamed_globals(self):
        """A module-level table the rules address by name (`message._hcode`)
        that was merely RENAMED - the known name is gone, exactly one new
        module-level name is bound once to a value with the known dump - stays
        reachable under the known name."""
        kg = known_globals()
        self.renamed_globals = {}
        for m in self.modules.values():
            known = kg.get(m.name) or {}
            missing = {n: d for n, d in known.items() if n not in m.assigns}
            if not missing:
                continue
            new = {n: _dump(v[0]) for n, v in m.assigns.items()
                   if n not in known and len(v) == 1}
            for old, d in missing.items():
                cands = [n for n, dn in new.items() if dn == d]
                if len(cands) == 1:
                    m.assigns[old] = m.assigns[cands[0]]
                    if cands[0] in m.mutated:
                        m.mutated.add(old)
                    self.renamed_globals['%s.%s' % (m.name, cands[0])] = old

    # -- indexing ----------------------------------------------------------

    def _index_module(self, m):
        for st in m.tree.body:
            self._index_stmt(m, st)

    def _index_stmt(self, m, st):
        if isinstance(st, (ast.FunctionDef, ast.AsyncFunctionDef)):
            cname = self._canon.get(m.name, {}).get(st.name, st.name)
            fi = FuncInfo('%s.%s' % (m.name, cname), st, m)
            m.funcs[st.name] = fi
            if cname != st.name:
                m.funcs[cname] = fi
                self.renamed[fi.qualname] = st.name
            self._register_func(fi)
        elif isinstance(st, ast.ClassDef):
            ci = ClassInfo('%s.%s' % (m.name, st.name), st, m)
            m.classes[st.name] = ci
            self.all_classes[ci.qualname] = ci
            canon = self._canon.get(ci.qualname, {})
            for cst in st.body:
                if isinstance(cst, (ast.FunctionDef, ast.AsyncFunctionDef)):
                    cname = canon.get(cst.name, cst.name)
                    fi = FuncInfo('%s.%s' % (ci.qualname, cname), cst, m,
                                  cls=ci)
                    ci.methods[cst.name] = fi
                    if cname != cst.name:
                        # a pure rename: still reachable under the name the
                        # rules were written against
                        ci.methods[cname] = fi
                        self.renamed[fi.qualname] = cst.name
                    self._register_func(fi)
                elif isinstance(cst, ast.Assign):
                    for t in cst.targets:
                        if isinstance(t, ast.Name):
                            ci.attrs[t.id] = cst.value
                elif isinstance(cst, ast.AnnAssign) and cst.value is not None:
                    if isinstance(cst.target, ast.Name):
                        ci.attrs[cst.target.id] = cst.value
        elif isinstance(st, ast.Assign):
            for t in st.targets:
                if isinstance(t, ast.Name):
                    m.assigns.setdefault(t.id, []).append(st.value)
                elif isinstance(t, (ast.Tuple, ast.List)) and all(
                        isinstance(e, ast.Name) for e in t.elts):
                    # a, b = <expr>: a is <expr>[0], b is <expr>[1]
                    for i, e in enumerate(t.elts):
                        sub = ast.Subscript(value=st.value,
                                            slice=ast.Constant(value=i),
                                            ctx=ast.Load())
                        ast.copy_location(sub, st.value)
                        ast.fix_missing_locations(sub)
                        m.assigns.setdefault(e.id, []).append(sub)
        elif isinstance(st, ast.Import):
            for a in st.names:
                local = a.asname or a.name.split('.')[0]
                m.imports[local] = a.name if a.asname else a.name.split('.')[0]
        elif isinstance(st, ast.ImportFrom):
            mod = st.module or ''
            for a in st.names:
                m.imports[a.asname or a.name] = '%s.%s' % (mod, a.name) \
                    if mod else a.name
        elif isinstance(st, (ast.If, ast.For, ast.While, ast.With, ast.Try)):
            # module-level control flow (e.g. 'for _, tcode, align in
            # dbus_types: pad[tcode] = genpad(align)'): index nested defs and
            # simple assigns conservatively
            for sub in ast.iter_child_nodes(st):
                if isinstance(sub, ast.stmt):
                    self._index_stmt(m, sub)

    def _register_func(self, fi):
        self.all_funcs[fi.qualname] = fi
        self._index_nested(fi)

    def _index_nested(self, fi):
        for node in self._iter_scope(fi.node):
            if isinstance(node, (ast.FunctionDef, ast.AsyncFunctionDef)):
                sub = FuncInfo('%s.%s' % (fi.qualname, node.name), node,
                               fi.module, cls=fi.cls, parent=fi)
                fi.nested[node.name] = sub
                self.all_funcs[sub.qualname] = sub
                self._index_nested(sub)

    @staticmethod
    def _iter_scope(fnode):
        """All nodes in the body of fnode, not descending into nested defs
        (but yielding them)."""
        stack = list(fnode.body)
        while stack:
            n = stack.pop()
            yield n
            if isinstance(n, (ast.FunctionDef, ast.AsyncFunctionDef,
                              ast.Lambda, ast.ClassDef)):
                continue
            stack.extend(ast.iter_child_nodes(n))

    def _resolve_bases(self, c):
        for b in c.base_exprs:
            tgt = self.resolve_name_expr(c.module, b)
            if tgt and tgt[0] == 'class':
                c.bases.append(tgt[1])
            else:
                c.ext_bases.append(dotted(b) or ast.dump(b))

    # -- lookup ------------------------------------------------------------

    def module(self, name):
        if name not in self.modules:
            raise AnalysisError('anchor vanished: module %s.%s' % (PKG, name))
        return self.modules[name]

    def func(self, qualname):
        if qualname not in self.all_funcs:
            raise AnalysisError('anchor vanished: function %s' % qualname)
        return self.all_funcs[qualname]

    def has_func(self, qualname):
        return qualname in self.all_funcs

    def cls(self, qualname):
        if qualname not in self.all_classes:
            raise AnalysisError('anchor vanished: class %s' % qualname)
        return self.all_classes[qualname]

    def mro(self, c):
        """In-package linearisation (depth-first, left-to-right, dedup keeping
        last - sufficient for the single-inheritance chains of this package)."""
        out = [c]
        for b in c.bases:
            for x in self.mro(b):
                if x not in out:
                    out.append(x)
        return out

    def lookup_method(self, c, name):
        for k in self.mro(c):
            if name in k.methods:
                return k.methods[name]
        return None

    def lookup_class_attr(self, c, name):
        for k in self.mro(c):
            if name in k.attrs:
                return k, k.attrs[name]
        return None, None

    def subclasses(self, c):
        return [k for k in self.all_classes.values() if c in self.mro(k)]

    def resolve_dotted(self, dotted_name):
        """'txdbus.marshal.marshal' / 'txdbus.error.MarshallingError' ->
        ('func', FuncInfo) | ('class', ClassInfo) | ('module', Module) |
        ('global', (Module, name)) | None"""
        parts = dotted_name.split('.')
        if parts[0] != PKG:
            return None
        parts = parts[1:]
        if not parts:
            return None
        if parts[0] not in self.modules:
            return None
        m = self.modules[parts[0]]
        rest = parts[1:]
        if not rest:
            return ('module', m)
        return self.resolve_in_module(m, rest)

    def resolve_in_module(self, m, rest, _depth=0):
        head = rest[0]
        if head in m.funcs and len(rest) == 1:
            return ('func', m.funcs[head])
        if head in m.classes:
            c = m.classes[head]
            if len(rest) == 1:
                return ('class', c)
            if len(rest) == 2:
                f = self.lookup_method(c, rest[1])
                if f:
                    return ('func', f)
                k, v = self.lookup_class_attr(c, rest[1])
                if v is not None:
                    return ('classattr', (k, rest[1]))
            return None
        if head in m.assigns:
            if len(rest) == 1:
                # alias of a function/class?  e.g. marshal_dictionary =
                # marshal_struct
                vals = m.assigns[head]
                if len(vals) == 1 and isinstance(vals[0], ast.Name) \
                        and _depth < 5:
                    r = self.resolve_in_module(m, [vals[0].id], _depth + 1)
                    if r and r[0] in ('func', 'class'):
                        return r
                return ('global', (m, head))
            return None
        if head in m.imports and _depth < 5:
            tgt = m.imports[head]
            r = self.resolve_dotted('.'.join([tgt] + rest[1:]))
            return r
        return None

    def resolve_name_expr(self, m, expr):
        """Resolve a Name / dotted Attribute expression evaluated at module
        scope of m."""
        d = dotted(expr)
        if d is None:
            return None
        parts = d.split('.')
        if parts[0] in m.imports:
            tgt = m.imports[parts[0]]
            return self.resolve_dotted('.'.join([tgt] + parts[1:]))
        return self.resolve_in_module(m, parts)

    def runtime_memos(self):
        """{(module name, variable)}: module-level containers created empty
        and written by at least one function (see rules/memo.py)."""
        if getattr(self, '_runtime_memos', None) is None:
            from .rules.memo import runtime_memo_names
            self._runtime_memos = set()
            for m in self.modules.values():
                for nm in runtime_memo_names(m.tree):
                    self._runtime_memos.add((m.name, nm))
        return self._runtime_memos

    def digests(self):
        return {m.relpath: m.sha256 for m in self.modules.values()}


def dotted(expr):
    """'a.b.c' for Name/Attribute chains, else None."""
    parts = []
    while isinstance(expr, ast.Attribute):
        parts.append(expr.attr)
        expr = expr.value
    if isinstance(expr, ast.Name):
        parts.append(expr.id)
        return '.'.join(reversed(parts))
    return None


def src_of(node):
    try:
        return ast.unparse(node)
    except Exception:
        return '<%s>' % type(node).__name__
