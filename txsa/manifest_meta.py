"""Per-property texts for MANIFEST.json (technique, reasons for N/A)."""
NOT_APPLICABLE = {}
LEVEL_TEXT = {}
TECHNIQUE = {
    'C01': 'static sibling cross-check: abstract interpretation of encoder/decoder pairs to struct formats, affine size forms and position/padding identities',
    'C05': 'static termination proof: per-loop progress by lower-bound fixpoint over decoder size terms, recursion measure over the decode call graph SCCs, bounded-read and guard-dominance checks',
    'C08': 'static handler-invariant check: path enumeration of the pending-table handlers (register-before-send, completion implies removal and timer cancel, correlation keys, error types)',
    'C06': 'typestate analysis: finite transition system extracted from BusAuthenticator by abstract interpretation, explored exhaustively and compared with the specification\'s server table; path rules for line-mode limits and mechanism acceptance',
    'C20': 'static ordering/FIFO rules: path enumeration of sender, receiver-queue and header-construction functions',
    'C07': 'typestate analysis: finite transition system extracted from ClientAuthenticator (exact constant propagation over the mechanism list), explored exhaustively; attribute-discipline lint',
    'C03': 'static writer/reader agreement: header tables vs specification, header typing by path enumeration of _marshal, flag and padding expressions evaluated by constant folding over their finite domains, constructor validation on all paths',
    'C04': 'static non-interference check: path enumeration of dataReceived in both modes (chunk-use discipline, dominance of header reads, layout offsets from the specification, length expression evaluated by constant folding, drain/recursion shape, mode-switch typestate)',
    'C10': 'static proof over all control-flow paths of the dispatcher: reply-count dataflow, addressing of every reply construction, guard dominance before user code, callback registration order',
    'C18': 'static decision procedure: validator AST translated to DFAs over a symbolic alphabet (regexes via re._parser), language inclusion both ways against the specification grammar with shortest witnesses',
    'C17': 'static guard tables: accessor guards extracted by path enumeration and evaluated by constant folding over the finite access/notification vocabularies; sibling agreement of Get/GetAll; loop-shape rules for aggregation vs lookup',
    'C12': 'static matcher analysis: key-coverage dataflow between addMatch, Rule.add and Rule.match; separator-aware prefix lint; decision tables of the namespace and argument-path tests by path enumeration and constant folding; rule-text/local-rule agreement',
    'C16': 'static ownership and announcement rules by path enumeration; descendant and child tests extracted and evaluated by constant folding on a fixed table of path pairs; separator-aware prefix lint',
    'C09': 'static liveness/cleanup obligations: lifecycle-stage path enumeration of connectionLost, resolver idempotence, endpoint-walk shape, live-container iteration lint with positive control, proxy-registration on all construction paths',
    'C15': 'static writer/reader agreement: XML template vocabulary vs attributes indexed by the SAX handler, access and direction values pushed through the reader by constant folding, counter/signature pairing by path enumeration, reuse truth table',
    'C19': 'static shape and tiling analysis: inferred-signature shapes over the return paths of sigFromPy, index-advance = piece-length identity on every branch of the splitter, bracket-matcher counter rules, repeated-test lint, wrapper-table agreement',
    'C11': 'static call conformance over the resolved call graph (incl. typed receivers), binding-role dataflow at the proxy call site, construction-path rule for proxies',
    'C13': 'static decision table: RequestName return codes and queue effects extracted by path enumeration with tests mapped to atoms by data-flow provenance, compared with the specification function on all assignments; cleanup and duplicate-guard path rules',
    'C14': 'static path rules over the bus handlers: call conformance, counter monotonicity, sender-overwrite and re-marshal ordering, unicast/broadcast decision by destination, rule-id lifecycle dataflow, stub/skeleton signature agreement, deferral lint on the forwarding path',
    'C02': 'static conformance check of the extracted codec model against specification tables; padding function interpreted in the congruence domain mod 8',
}
