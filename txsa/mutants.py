"""Mutation corpus for the self-test (see selftest.py).

Each entry: id, kind ('break' | 'benign'), props (checks to run), file,
edits [(old text, new text)], expect (rule-id prefixes, any of), note.
"""

M = 'txdbus/marshal.py'
MUTANTS = []


def mut(id, props, file, edits, expect=(), kind='break', note=''):
    if isinstance(props, str):
        props = [props]
    MUTANTS.append({'id': id, 'kind': kind, 'props': list(props),
                    'file': file, 'edits': list(edits),
                    'expect': list(expect), 'note': note})


def twin(id, props, commit, expect=(), note=''):
    """Pre-fix twin: /repo with the given `fix:` commit reverted."""
    MUTANTS.append({'id': id, 'kind': 'break', 'props': list(props),
                    'revert': commit, 'file': None, 'edits': [],
                    'expect': list(expect), 'note': note})


# ---- C01 / C02 ------------------------------------------------------------
mut('c01-be-int16-dec', ['C01', 'C02'], M,
    [("return 2, struct.unpack_from(lendian and '<h' or '>h', data, offset)[0]",
      "return 2, struct.unpack_from(lendian and '<h' or '>H', data, offset)[0]")],
    ['C01.D2', 'C02.D2'], note='big-endian INT16 decoded unsigned')
mut('c01-be-int64-dec-order', ['C01', 'C02'], M,
    [("return 8, struct.unpack_from(lendian and '<q' or '>q', data, offset)[0]",
      "return 8, struct.unpack_from(lendian and '<q' or '<q', data, offset)[0]")],
    ['C01.D2', 'C02.D2'])
mut('c01-string-size-no-nul', ['C01'], M,
    [("return 4 + slen + 1, s", "return 4 + slen, s")], ['C01.D3'])
mut('c01-string-enc-size', ['C01'], M,
    [("    return 4 + \\\n        len(var) + \\\n        1, [struct.pack(lendian and '<I' or '>I', len(var)), var, b'\\0']",
      "    return 4 + \\\n        len(var), [struct.pack(lendian and '<I' or '>I', len(var)), var, b'\\0']")],
    ['C01.D3', 'C01.D4'])
mut('c01-array-dec-no-elem-pad', ['C01'], M,
    [("    while offset < end_offset:\n\n        offset += len(pad[tcode](offset))\n",
      "    while offset < end_offset:\n\n")], ['C01.D5'])
mut('c01-array-enc-initpad-counted', ['C01', 'C02'], M,
    [("    if initial_padding:\n        start_byte += len(initial_padding)\n        chunks.append(initial_padding)\n",
      "    if initial_padding:\n        start_byte += len(initial_padding)\n        data_len += len(initial_padding)\n        chunks.append(initial_padding)\n")],
    ['C01.D6', 'C01.D4', 'C02.D4'])
mut('c01-array-enc-elem-pad-uncounted', ['C01'], M,
    [("            start_byte += len(padding)\n            data_len += len(padding)\n            chunks.append(padding)\n\n        nbytes, vchunks = marshallers[tcode](\n            tsig,",
      "            start_byte += len(padding)\n            chunks.append(padding)\n\n        nbytes, vchunks = marshallers[tcode](\n            tsig,")],
    ['C01.D6', 'C01.D4'])
mut('c01-variant-enc-drops-lendian', ['C01', 'C02'], M,
    [("rnbytes, rchunks = marshal(vsig, [var], start_byte, lendian)",
      "rnbytes, rchunks = marshal(vsig, [var], start_byte)")],
    ['C01.D7', 'C02.D6'])
mut('c01-variant-dec-no-pad', ['C01'], M,
    [("    offset += nsig\n\n    offset += len(pad[vsig[0]](offset))\n",
      "    offset += nsig\n\n")], ['C01.D5', 'C01.D7'])
mut('c01-variant-enc-pad-wrong-key', ['C01'], M,
    [("padding = pad[vsig[0]](start_byte)\n\n    if padding:\n        start_byte += len(padding)\n        chunks.append(padding)\n\n    rnbytes",
      "padding = pad['v'](start_byte)\n\n    if padding:\n        start_byte += len(padding)\n        chunks.append(padding)\n\n    rnbytes")],
    ['C01.D5'])
mut('c01-array-dec-end-check-removed', ['C01'], M,
    [("    if not offset == end_offset:\n        raise MarshallingError('Invalid array encoding')\n", "")],
    ['C01.D6'])
mut('c01-array-dec-end-includes-len', ['C01'], M,
    [("    offset += 4                         # 4-byte data length\n    offset += len(pad[tcode](offset))  # padding length\n\n    end_offset = offset + data_len",
      "    offset += 4                         # 4-byte data length\n    end_offset = offset + data_len\n    offset += len(pad[tcode](offset))  # padding length\n")],
    ['C01.D6'])
mut('c01-struct-dec-slice', ['C01'], M,
    [("    return unmarshal(ct[1:-1], data, offset, lendian, oobFDs)",
      "    return unmarshal(ct[1:], data, offset, lendian, oobFDs)")],
    ['C01.D7'])
mut('c01-driver-enc-pad-after', ['C01'], M,
    [("        nbytes, vchunks = marshallers[tcode](\n            ct, var, startByte, lendian, oobFDs)",
      "        nbytes, vchunks = marshallers[tcode](\n            ct, var, bstart, lendian, oobFDs)")],
    ['C01.D5'])
mut('c01-table-swap', ['C01', 'C02'], M,
    [("    'n': unmarshal_int16,\n    'q': unmarshal_uint16,",
      "    'n': unmarshal_uint16,\n    'q': unmarshal_int16,")],
    ['C01.D2', 'C02.D2'])
mut('c01-bool-enc-raw', ['C01', 'C02'], M,
    [("[struct.pack(lendian and '<I' or '>I', 1 if var else 0)]",
      "[struct.pack(lendian and '<I' or '>I', var)]")], ['C01.D3', 'C02.D2'])
mut('c01-array-enc-elem-key', ['C01'], M,
    [("    tsig = ct[1:]   # strip of leading 'a'\n    tcode = tsig[0]  # type of array element\n\n    start_byte += 4  # for array size",
      "    tsig = ct[1:]   # strip of leading 'a'\n    tcode = ct[0]  # type of array element\n\n    start_byte += 4  # for array size")],
    ['C01.D6', 'C01.D5'])
# C02 only
mut('c02-align-double-4', ['C02'], M,
    [("('DOUBLE', 'd', 8),", "('DOUBLE', 'd', 4),")], ['C02.D1'],
    note='symmetric: invisible to a round trip and to the offline suite')
mut('c02-align-int64-4', ['C02'], M,
    [("('INT64', 'x', 8),", "('INT64', 'x', 4),")], ['C02.D1'])
mut('c02-sig-prefix-I', ['C02'], M,
    [("len(var), [struct.pack(lendian and '<B' or '>B', len(var)), var, b'\\0']",
      "len(var), [struct.pack(lendian and '<I' or '>I', len(var)), var, b'\\0']")],
    ['C02.D4', 'C02.D2'])
mut('c02-native-format', ['C02'], M,
    [("return 4, [struct.pack(lendian and '<i' or '>i', var)]",
      "return 4, [struct.pack(lendian and '<i' or 'i', var)]")], ['C02.D2'])
mut('c02-padding-nonzero', ['C02'], M,
    [("    3: b'\\0' * 3,", "    3: b'\\0\\0\\1',")], ['C02.D3'])
mut('c02-genpad-no-zero-case', ['C02'], M,
    [("return lambda x: padding[x % align and (align - x % align) or 0]",
      "return lambda x: padding[(align - x % align) % 8]")], ['C02.D3'])
mut('c02-header-pad-4', ['C02', 'C03'], M,
    [("pad['header'] = genpad(8)", "pad['header'] = genpad(4)")],
    ['C02.D1', 'C03'])
mut('c02-objpath-unvalidated', ['C02'], M,
    [("    validateObjectPath(var)\n    return marshal_string(ct, var, start_byte, lendian, oobFDs)",
      "    return marshal_string(ct, var, start_byte, lendian, oobFDs)")],
    ['C02.D4'])
mut('c02-string-latin1', ['C02'], M,
    [("var = codecs.encode(var, 'utf-8')", "var = codecs.encode(var, 'latin-1')")],
    ['C02.D4'])
mut('c02-variant-two-sigs', ['C02'], M,
    [("        ct, sigFromPy(var), start_byte, lendian, oobFDs)",
      "        ct, getattr(var, 'dbusSignature', 'v'), start_byte, lendian, oobFDs)")],
    ['C02.D5'])

# ---- C05 ------------------------------------------------------------------
mut('c05-prefix-array-zero-guard-removed', ['C05'], M,
    [("        if nbytes == 0:\n            # e.g. \"a()\": elements without content would never advance\n            raise MarshallingError('Invalid array element type: ' + tsig)\n", "")],
    ['C05.D1'], note='pre-fix twin of fix 9e09d29')
mut('c05-string-len-by-slice', ['C05', 'C01'], M,
    [("    slen = struct.unpack_from(lendian and '<B' or '>B', data, offset)[0]\n    s = codecs.decode(data[offset + 1: offset + 1 + slen], 'ascii')",
      "    slen = ord(data[offset:offset + 1] or b'\\0')\n    s = codecs.decode(data[offset + 1: offset + 1 + slen], 'ascii')")],
    ['C05.D3', 'C01'], note='silent slice instead of bounds-checked read')
mut('c05-find-end-no-advance', ['C05'], M,
    [("                if depth == 0:\n                    return idx\n            idx += 1\n",
      "                if depth == 0:\n                    return idx\n                idx += 1\n")],
    ['C05.D1'], note='index only advances on closing brackets: unbalanced signature loops forever')
mut('c19-gct-array-no-advance', ['C19'], M,
    [("            ct = next(g)\n            i += len(ct)\n", "            ct = next(g)\n")],
    ['C19'], kind='break', note='array branch no longer skips the element type: wrong split (terminates, so not C05)')
mut('c05-unknown-type-guard-removed', ['C05'], 'txdbus/message.py',
    [("    if messageType not in _mtype:\n        raise error.MarshallingError(\n            'Unknown Message Type: ' + str(messageType)\n        )\n", "")],
    ['C05.D4'])
mut('c05-struct-no-slice', ['C05', 'C01'], M,
    [("    return unmarshal(ct[1:-1], data, offset, lendian, oobFDs)",
      "    return unmarshal(ct, data, offset, lendian, oobFDs)")],
    ['C05.D2', 'C01.D7'], note='unbounded recursion without progress')
mut('ok-array-zero-guard-variant', ['C05', 'C01'], M,
    [("        if nbytes == 0:\n", "        if nbytes <= 0:\n")], kind='benign')
mut('ok-array-dec-empty-shortcut', ['C05', 'C01', 'C02'], M,
    [("    end_offset = offset + data_len\n",
      "    end_offset = offset + data_len\n\n    if data_len == 0 and tcode != '{':\n        return offset - start_offset, []\n")],
    kind='benign', note='legitimate shortcut for empty arrays taken after the initial padding')

# ---- C08 ------------------------------------------------------------------
CL = 'txdbus/client.py'
mut('c08-return-no-del', ['C08'], CL,
    [("        if d:\n            del self._pendingCalls[mret.reply_serial]\n            d.callback(mret)",
      "        if d:\n            d.callback(mret)")], ['C08.D3'])
mut('c08-error-no-cancel', ['C08'], CL,
    [("        d, timeout = self._pendingCalls.get(merr.reply_serial, (None, None))\n        if timeout:\n            timeout.cancel()\n",
      "        d, timeout = self._pendingCalls.get(merr.reply_serial, (None, None))\n")], ['C08.D3'])
mut('c08-lookup-by-serial', ['C08'], CL,
    [("        d, timeout = self._pendingCalls.get(mret.reply_serial, (None, None))",
      "        d, timeout = self._pendingCalls.get(mret.serial, (None, None))")], ['C08.D4', 'C08.D3'])
mut('c08-register-after-send', ['C08'], CL,
    [("            self._pendingCalls[mcall.serial] = (d, timeout)\n\n            self.sendMessage(mcall)\n",
      "            self.sendMessage(mcall)\n\n            self._pendingCalls[mcall.serial] = (d, timeout)\n")], ['C08.D2'])
mut('c08-timeout-no-del', ['C08'], CL,
    [("        del self._pendingCalls[serial]\n        d.errback(error.TimeOut('Method call timed out'))",
      "        d.errback(error.TimeOut('Method call timed out'))")], ['C08.D3'])
mut('c08-timeout-wrong-error', ['C08'], CL,
    [("d.errback(error.TimeOut('Method call timed out'))", "d.errback(error.RemoteError('Method call timed out'))")], ['C08.D5'])
mut('c08-timer-not-stored', ['C08'], CL,
    [("                timeout = reactor.callLater(\n                    timeout, self._onMethodTimeout, mcall.serial, d)",
      "                reactor.callLater(\n                    timeout, self._onMethodTimeout, mcall.serial, d)")], ['C08.D2'])
mut('c08-convention-struct-unwrapped', ['C08'], CL,
    [("        if len(msg.body) == 1 and not msg.signature[0] == '(':", "        if len(msg.body) == 1:")], ['C08.D7'])
mut('c08-convention-empty-list', ['C08'], CL,
    [("        if msg.body is None or len(msg.body) == 0:\n            return None", "        if msg.body is None:\n            return None")], ['C08.D7'])
mut('c08-loss-keeps-table', ['C08', 'C09'], CL,
    [("        pending, self._pendingCalls = self._pendingCalls, {}\n        for d, timeout in pending.values():", "        pending = self._pendingCalls\n        for d, timeout in pending.values():")], ['C08.D3', 'C09.D3'])
mut('c08-sigcheck-wrong-exception', ['C08'], CL,
    [("                    raise error.RemoteError(\n                        'Unexpected return value signature')",
      "                    raise error.MarshallingError(\n                        'Unexpected return value signature')")], ['C08.D5'])
mut('ok-c08-pop-refactor', ['C08'], CL,
    [("        d, timeout = self._pendingCalls.get(mret.reply_serial, (None, None))\n        if timeout:\n            timeout.cancel()\n        if d:\n            del self._pendingCalls[mret.reply_serial]\n            d.callback(mret)",
      "        d, timeout = self._pendingCalls.pop(mret.reply_serial, (None, None))\n        if d:\n            if timeout is not None:\n                timeout.cancel()\n            d.callback(mret)")], kind='benign')
mut('ok-c08-convention-rewrite', ['C08'], CL,
    [("        if msg.body is None or len(msg.body) == 0:\n            return None", "        if not msg.body:\n            return None")], kind='benign')

# ---- C20 ------------------------------------------------------------------
PR = 'txdbus/protocol.py'
mut('c20-fds-after-bytes', ['C20'], PR,
    [("        if hasattr(msg, 'oobFDs') and msg.oobFDs:\n            for fd in msg.oobFDs:\n                self.transport.sendFileDescriptor(fd)\n        self.transport.write(msg.rawMessage)",
      "        self.transport.write(msg.rawMessage)\n        if hasattr(msg, 'oobFDs') and msg.oobFDs:\n            for fd in msg.oobFDs:\n                self.transport.sendFileDescriptor(fd)")], ['C20.D1'])
mut('c20-fds-reversed', ['C20'], PR,
    [("            for fd in msg.oobFDs:", "            for fd in reversed(msg.oobFDs):")], ['C20.D1'])
mut('c20-consume-from-back', ['C20'], PR,
    [("self._receivedFDs = self._receivedFDs[m.unix_fds:]", "self._receivedFDs = self._receivedFDs[:-m.unix_fds]")], ['C20.D3'])
mut('c20-consume-all', ['C20'], PR,
    [("self._receivedFDs = self._receivedFDs[m.unix_fds:]", "self._receivedFDs = []")], ['C20.D3'])
mut('c20-index-after-append', ['C20'], M,
    [("    index = len(oobFDs)\n    oobFDs.append(var)\n", "    oobFDs.append(var)\n    index = len(oobFDs)\n")], ['C20.D2'])
mut('c20-header-count-const', ['C20'], 'txdbus/message.py',
    [("                self.unix_fds = len(oobFDs)", "                self.unix_fds = len(self.body)")], ['C20.D2'])
mut('c20-shared-list', ['C20'], CL,
    [("                oobFDs=[],\n", "                oobFDs=self._fdScratch,\n")], ['C20.D4'])
mut('c20-parse-copy-queue', ['C20'], PR,
    [("m = message.parseMessage(rawMsg, self._receivedFDs)", "m = message.parseMessage(rawMsg, [])")], ['C20.D3'])

# ---- C06 ------------------------------------------------------------------
AU = 'txdbus/authentication.py'
mut('c06-begin-no-state-guard', ['C06'], AU,
    [("        if self.state == 'WaitingForBegin':\n            self.authenticated = True\n            self.guid = self.current_mech.getUserName()\n            self.current_mech = None\n        else:\n            raise DBusAuthenticationFailed('Protocol violation')",
      "        if self.current_mech is not None:\n            self.authenticated = True\n            self.guid = self.current_mech.getUserName()\n            self.current_mech = None\n        else:\n            raise DBusAuthenticationFailed('Protocol violation')")],
    ['C06.D1', 'C06.D2'])
mut('c06-continue-goes-to-begin', ['C06'], AU,
    [("            self.sendAuthMessage(b'DATA ' + binascii.hexlify(challenge))\n            self.state = 'WaitingForData'",
      "            self.sendAuthMessage(b'DATA ' + binascii.hexlify(challenge))\n            self.state = 'WaitingForBegin'")], ['C06.D1', 'C06.D2'])
mut('c06-reject-keeps-mech', ['C06'], AU,
    [("        if self.current_mech:\n            self.current_mech.cancel()\n            self.current_mech = None\n\n        self.reject_count += 1",
      "        if self.current_mech:\n            self.current_mech.cancel()\n\n        self.reject_count += 1")], kind='benign',
    note='mechanism object survives a rejection but the state returns to WaitingForAuth, where it is never consulted: no observable change')
mut('c06-reject-limit-ge', ['C06'], AU,
    [("        if self.reject_count > self.MAX_REJECTS_ALLOWED:", "        if self.reject_count >= self.MAX_REJECTS_ALLOWED:")], ['C06.D3'])
mut('c06-auth-in-waiting-for-data', ['C06'], AU,
    [("    def _auth_AUTH(self, line):\n        if self.state == 'WaitingForAuth':", "    def _auth_AUTH(self, line):\n        if self.state != 'WaitingForBegin':")], ['C06.D2'])
mut('c06-reject-state-not-reset', ['C06'], AU,
    [("        self.sendAuthMessage(self.reject_msg)\n        self.state = 'WaitingForAuth'", "        self.sendAuthMessage(self.reject_msg)")], ['C06.D1', 'C06.D2'],
    note='CANCEL in WaitingForBegin leaves the state: BEGIN then authenticates without a mechanism')
mut('c06-cancel-in-begin-ignored', ['C06'], AU,
    [("        if self.state in ('WaitingForData', 'WaitingForBegin'):\n            self.reject()\n        else:\n            self.sendError()",
      "        if self.state in ('WaitingForData',):\n            self.reject()\n        else:\n            self.sendError()")], ['C06.D2'])
mut('c06-max-rejects-6', ['C06'], AU,
    [("    MAX_REJECTS_ALLOWED = 5", "    MAX_REJECTS_ALLOWED = 6")], ['C06.D3'])
mut('c06-first-byte-unchecked', ['C06'], PR,
    [("                if data[0] != 0:\n                    self.transport.loseConnection()\n                    return\n", "")], ['C06.D3'])
mut('c06-long-line-processed', ['C06'], PR,
    [("                if len(line) > self.MAX_AUTH_LENGTH:\n                    return self.authMessageLengthExceeded(line)\n                else:\n                    try:",
      "                if len(line) > self.MAX_AUTH_LENGTH:\n                    self.authMessageLengthExceeded(line)\n                if True:\n                    try:")], ['C06.D3'])
mut('c06-auth-length-64k', ['C06'], PR,
    [("    MAX_AUTH_LENGTH = 16384", "    MAX_AUTH_LENGTH = 65536")], ['C06.D3'])
mut('c06-external-ok-without-creds', ['C06'], AU,
    [("        if not self.creds:\n            return ('REJECT', 'Unix credentials not available')\n        if not self.ok:",
      "        if not self.ok:")], ['C06.D4'])
mut('ok-c06-state-tuple', ['C06'], AU,
    [("        if self.state in ('WaitingForAuth', 'WaitingForData',\n                          'WaitingForBegin'):\n            self.reject()",
      "        if self.state is not None:\n            self.reject()")], kind='benign')

# ---- C07 ------------------------------------------------------------------
mut('c07-prefix-agree-without-ok', ['C07'], AU,
    [("        if self.unixFDSupport and self.guid is not None:\n            self.sendAuthMessage(b'BEGIN')", "        if self.unixFDSupport:\n            self.sendAuthMessage(b'BEGIN')")],
    ['C07.D1'], note='pre-fix twin of 41e6337')
mut('c07-prefix-error-after-negotiate', ['C07'], AU,
    [("        if self.guid is not None:\n            # OK was already received: this ERROR answers NEGOTIATE_UNIX_FD.\n            # Authentication succeeded, only descriptor passing is refused.\n            self.sendAuthMessage(b'BEGIN')\n            self.authenticated = True\n        else:\n            self.authTryNextMethod()",
      "        self.authTryNextMethod()")], ['C07.D2'], note='pre-fix twin of c7c1668')
mut('c07-prefix-data-silent', ['C07'], AU,
    [("\n        else:\n            self.sendAuthMessage(b'ERROR \"Unexpected DATA\"')\n", "\n")], ['C07.D4'], note='pre-fix twin of 9a38231')
mut('c07-prefix-cookiedir', ['C07'], AU,
    [("        self.cookie_dir = None  # used for testing only", "        self.cookiedir = None  # used for testing only")], ['C07.D6'], note='pre-fix twin of 7d1fde4')
mut('c07-authenticated-before-hex', ['C07'], AU,
    [("        try:\n            self.guid = binascii.unhexlify(line)\n        except BaseException:\n            raise DBusAuthenticationFailed('Invalid guid in OK message')\n        else:\n            if self.unixFDSupport:\n                self.sendAuthMessage(b'NEGOTIATE_UNIX_FD')\n            else:\n                self.sendAuthMessage(b'BEGIN')\n                self.authenticated = True",
      "        if not self.unixFDSupport:\n            self.sendAuthMessage(b'BEGIN')\n            self.authenticated = True\n        try:\n            self.guid = binascii.unhexlify(line)\n        except BaseException:\n            raise DBusAuthenticationFailed('Invalid guid in OK message')\n        else:\n            if self.unixFDSupport:\n                self.sendAuthMessage(b'NEGOTIATE_UNIX_FD')")],
    ['C07.D1'])
mut('c07-reappend-mechanism', ['C07'], AU,
    [("        self.authMech = self.authOrder.pop()\n", "        self.authMech = self.authOrder.pop()\n        self.authOrder.insert(0, self.authMech)\n")], ['C07.D3'])
mut('c07-unknown-swallowed', ['C07'], AU,
    [("        if m:\n            m(args)\n        else:\n            raise DBusAuthenticationFailed(\n                'Invalid DBus authentication protocol message: '\n                + line.decode(\"ascii\", \"replace\")\n            )",
      "        if m:\n            m(args)\n        else:\n            log.msg('ignoring ' + line.decode(\"ascii\", \"replace\"))")], ['C07.D5'])
mut('c07-order-not-reversed', ['C07'], AU,
    [("        self.authOrder = self.preference[:]\n        self.authOrder.reverse()\n", "        self.authOrder = self.preference[:]\n")], ['C07.D3'])
mut('c07-unix-ok-begin-directly', ['C07'], AU,
    [("            if self.unixFDSupport:\n                self.sendAuthMessage(b'NEGOTIATE_UNIX_FD')\n            else:\n                self.sendAuthMessage(b'BEGIN')\n                self.authenticated = True",
      "            if self.unixFDSupport:\n                self.sendAuthMessage(b'NEGOTIATE_UNIX_FD')\n            self.sendAuthMessage(b'BEGIN')\n            self.authenticated = True")], ['C07.D2'])
mut('c07-exhausted-no-close', ['C07'], AU,
    [("        if not self.authOrder:\n            raise DBusAuthenticationFailed()\n", "        if not self.authOrder:\n            return\n")], ['C07.D3', 'C07.D4'])
mut('ok-c07-pop0', ['C07'], AU,
    [("        self.authOrder = self.preference[:]\n        self.authOrder.reverse()\n", "        self.authOrder = list(reversed(self.preference))\n")], kind='benign')

# ---- C03 ------------------------------------------------------------------
MS = 'txdbus/message.py'
mut('c03-prefix-reply-serial-untyped', ['C03'], MS,
    [("                elif attr_name in ('unix_fds', 'reply_serial'):", "                elif attr_name == 'unix_fds':")], ['C03.D2'], note='pre-fix twin of 826cec0')
mut('c03-prefix-flags-not-read', ['C03', 'C10'], MS,
    [("    m.expectReply = not (hval[2] & 0x1)\n    m.autoStart = not (hval[2] & 0x2)\n", "")], ['C03.D3', 'C10.D5'], note='pre-fix twin of b7b8b77')
mut('c03-prefix-truthy-validation', ['C03'], MS,
    [("        if interface is not None:\n            marshal.validateInterfaceName(interface)", "        if interface:\n            marshal.validateInterfaceName(interface)")], ['C03.D7'], note='pre-fix twin of f317987')
mut('c03-flag-polarity', ['C03'], MS,
    [("    m.autoStart = not (hval[2] & 0x2)", "    m.autoStart = bool(hval[2] & 0x2)")], ['C03.D3'])
mut('c03-flag-bits-swapped-writer', ['C03'], MS,
    [("        if not self.expectReply:\n            flags |= 0x1\n\n        if not self.autoStart:\n            flags |= 0x2",
      "        if not self.expectReply:\n            flags |= 0x2\n\n        if not self.autoStart:\n            flags |= 0x1")], ['C03.D3'])
mut('c03-hcode-swap', ['C03'], MS,
    [("    6: 'destination',\n    7: 'sender',", "    6: 'sender',\n    7: 'destination',")], ['C03.D1'])
mut('c03-interface-required-for-call', ['C03'], MS,
    [("        ('interface', 2, False),\n        ('member', 3, True),\n        ('destination', 6, False),\n        ('sender', 7, False),\n        ('signature', 8, False)\n    ]",
      "        ('interface', 2, True),\n        ('member', 3, True),\n        ('destination', 6, False),\n        ('sender', 7, False),\n        ('signature', 8, False)\n    ]")], ['C03.D1'])
mut('c03-bodylength-with-padding', ['C03'], MS,
    [("        self.bodyLength = len(binBody)\n", "        self.bodyLength = len(binBody) + (8 - len(binBody) % 8) % 8\n")], ['C03.D4'])
mut('c03-serial-starts-zero', ['C03'], MS,
    [("    _nextSerial = 1\n", "    _nextSerial = 0\n")], ['C03.D5'])
mut('c03-serial-increment-first', ['C03'], MS,
    [("            self.serial = DBusMessage._nextSerial\n\n            DBusMessage._nextSerial += 1\n",
      "            DBusMessage._nextSerial += 1\n\n            self.serial = DBusMessage._nextSerial\n")], kind='benign',
    note='increment-then-read is still fresh and non-zero')
mut('c03-size-guard-removed', ['C03'], MS,
    [("        if len(self.rawMessage) > self._maxMsgLen:\n            raise error.MarshallingError(\n                'Marshalled message exceeds maximum message size of %d' %\n                (self._maxMsgLen,),\n            )\n", "")], ['C03.D6'])
mut('c03-size-limit-2-28', ['C03'], MS,
    [("    _maxMsgLen = 2**27", "    _maxMsgLen = 2**28")], ['C03.D6'])
mut('c03-signal-member-unvalidated', ['C03'], MS,
    [("        marshal.validateMemberName(member)\n        marshal.validateInterfaceName(interface)\n", "        marshal.validateInterfaceName(interface)\n")], ['C03.D7'])
mut('c03-body-split-no-padding', ['C03'], MS,
    [("    m.rawBody = rawMessage[nheader + npad:]", "    m.rawBody = rawMessage[nheader:]")], ['C03.D4'])
mut('c03-parse-endian-inverted', ['C03'], MS,
    [("    lendian = rawMessage[0] == b'l'[0]", "    lendian = rawMessage[0] != b'B'[0]")], kind='benign',
    note='equivalent for the two valid endian bytes')
mut('c03-serial-slot-wrong', ['C03'], MS,
    [("    m.serial = hval[5]", "    m.serial = hval[4]")], ['C03.D3'])

# ---- C04 ------------------------------------------------------------------
twin('c04-prefix-recursive-drain', ['C04'], 'feeb750', ['C04.D4'],
     'pre-fix twin: RecursionError after ~990 coalesced messages')
twin('c04-prefix-line-loop-after-switch', ['C04'], 'f24ed60', ['C04.D5'],
     'pre-fix twin: BEGIN + binary data containing CRLF in one read')
mut('c04-endian-not-reset', ['C04'], PR,
    [("                    if self._buffer[:1] != b'l':\n                        self._endian = '>'\n                    else:\n                        self._endian = '<'\n",
      "                    if self._buffer[:1] != b'l':\n                        self._endian = '>'\n")], ['C04.D1'],
    note='a big-endian message makes all later little-endian ones misframed')
mut('c04-no-drain', ['C04'], PR,
    [("                self._nextMsgLen = 0\n\n                self.rawDBusMessageReceived(raw_msg)\n",
      "                self._nextMsgLen = 0\n\n                self.rawDBusMessageReceived(raw_msg)\n                break\n")], ['C04.D3'])
mut('c04-len-of-data', ['C04'], PR,
    [("                buffer_len = len(self._buffer)\n", "                buffer_len = len(self._buffer) if self._nextMsgLen else len(data)\n")], ['C04.D2'])
mut('c04-header-at-12', ['C04'], PR,
    [("                if self._nextMsgLen == 0 and buffer_len >= 16:", "                if self._nextMsgLen == 0 and buffer_len >= 12:")], ['C04.D2'])
mut('c04-padding-mod-4', ['C04'], PR,
    [("                    padlen = hlen % 8 and (8 - hlen % 8) or 0", "                    padlen = hlen % 4 and (4 - hlen % 4) or 0")], ['C04.D1'])
mut('c04-reset-after-delivery', ['C04'], PR,
    [("                self._nextMsgLen = 0\n\n                self.rawDBusMessageReceived(raw_msg)\n", "                self.rawDBusMessageReceived(raw_msg)\n\n                self._nextMsgLen = 0\n")], ['C04.D2'])
mut('c04-body-len-offset', ['C04'], PR,
    [("self._endian + 'I', self._buffer[4:8])[0]", "self._endian + 'I', self._buffer[8:12])[0]")], ['C04.D1'])
mut('c04-line-no-return-after-switch', ['C04'], PR,
    [("                            if self._buffer:\n                                self.dataReceived(b'')\n                            return\n", "                            if self._buffer:\n                                self.dataReceived(b'')\n")], ['C04.D5'])
mut('c04-line-rsplit', ['C04'], PR,
    [("                line, _, self._buffer = self._buffer.partition(\n                    self.authDelimiter)", "                line, _, self._buffer = self._buffer.rpartition(\n                    self.authDelimiter)")], ['C04.D5'])
mut('ok-c04-while-condition', ['C04'], PR,
    [("                if self._nextMsgLen == 0 or buffer_len < self._nextMsgLen:\n                    # no complete message buffered\n                    break\n",
      "                if not self._nextMsgLen:\n                    break\n                if buffer_len < self._nextMsgLen:\n                    break\n")], kind='benign')

mut('ok-c07-repeated-data-guard-per-mechanism', ['C07'], AU,
    [("        self.authMech = self.authOrder.pop()\n",
      "        self.authMech = self.authOrder.pop()\n        self.challenged = False\n"),
     ("    def _auth_DATA(self, line):\n\n        if self.authMech == b'EXTERNAL':",
      "    def _auth_DATA(self, line):\n        if getattr(self, 'challenged', False):\n            raise DBusAuthenticationFailed('Unexpected repeated DATA')\n        self.challenged = True\n\n        if self.authMech == b'EXTERNAL':")],
    kind='benign', note='loop guard against repeated DATA, reset when the next mechanism is offered (the sound twin of seed C07-r12)')

# ---- C10 ------------------------------------------------------------------
OB = 'txdbus/objects.py'
mut('c10-invalidargs-no-reply', ['C10'], OB,
    [("        if esig != msig:\n            self._send_err(\n                msg,\n                'org.freedesktop.DBus.Error.InvalidArgs',\n                'Call to %s has wrong args (%s, expected %s)' %\n                (msg.member, msg.signature or '', m.sigIn or '')\n            )\n            return",
      "        if esig != msig:\n            return")], ['C10.D1'])
mut('c10-ping-double-reply', ['C10'], OB,
    [("            self.conn.sendMessage(r)\n            return\n\n        if (\n                msg.interface == 'org.freedesktop.DBus.Introspectable'",
      "            self.conn.sendMessage(r)\n\n        if (\n                msg.interface == 'org.freedesktop.DBus.Introspectable'")], ['C10.D1'])
mut('c10-addCallbacks', ['C10'], OB,
    [("            d.addCallback(send_reply)\n            d.addErrback(send_error)", "            d.addCallbacks(send_reply, send_error)")], ['C10.D3'])
mut('c10-destination-wrong', ['C10'], OB,
    [("                r = message.MethodReturnMessage(\n                    msg.serial,\n                    body=return_values,\n                    destination=msg.sender,",
      "                r = message.MethodReturnMessage(\n                    msg.serial,\n                    body=return_values,\n                    destination=msg.destination,")], ['C10.D2'])
mut('c10-error-reply-serial', ['C10'], OB,
    [("                r = message.ErrorMessage(name, msg.serial,", "                r = message.ErrorMessage(name, msg.reply_serial,")], ['C10.D2'])
mut('c10-no-signature-guard', ['C10'], OB,
    [("        if esig != msig:\n", "        if esig != msig and msig:\n")], ['C10.D3'],
    note='calls without arguments bypass the signature check')
mut('c10-always-register', ['C10'], OB,
    [("        if msg.expectReply:\n            def send_reply(return_values):", "        if True:\n            def send_reply(return_values):")], ['C10.D1'])
mut('c10-unknownobject-name', ['C10'], OB,
    [("                'org.freedesktop.DBus.Error.UnknownObject',", "                'org.freedesktop.DBus.Error.UnknownMethod',")], ['C10.D4'])
mut('c10-direct-call', ['C10'], OB,
    [("        d = defer.maybeDeferred(\n            o.executeMethod,\n            i,\n            msg.member,\n            msg.body,\n            msg.sender,\n        )",
      "        d = defer.succeed(o.executeMethod(\n            i,\n            msg.member,\n            msg.body,\n            msg.sender,\n        ))")], ['C10'])
mut('c10-errback-no-validate', ['C10'], OB,
    [("                try:\n                    marshal.validateErrorName(name)\n                except error.MarshallingError:\n                    errMsg = ('!!(Invalid error name \"%s\")!! ' % name) + errMsg\n                    name = 'org.txdbus.InvalidErrorName'\n", "")], ['C10.D4'])
mut('c10-introspect-falls-through', ['C10'], OB,
    [("                self.conn.sendMessage(r)\n\n                return\n\n        # Try to get object from complete object path",
      "                self.conn.sendMessage(r)\n\n        # Try to get object from complete object path")], ['C10.D1'])
mut('ok-c10-sig-normalise', ['C10'], OB,
    [("        msig = msg.signature if msg.signature is not None else ''\n        esig = m.sigIn if m.sigIn is not None else ''\n\n        if esig != msig:",
      "        msig = msg.signature or ''\n        esig = m.sigIn or ''\n\n        if not esig == msig:")], kind='benign')

# ---- C18 ------------------------------------------------------------------
mut('ok-c18-error-handler-partition', ['C18'], M,
    [("        raise MarshallingError(str(e).replace('interface', 'error', 1))",
      "        head, sep, reason = str(e).partition(': ')\n        raise MarshallingError(head.replace('interface', 'error') + sep + reason)")],
    kind='benign', note='the converting handler takes the message apart with partition (always three parts): cannot fail - sound twin of seed C18-r13')
mut('c18-error-handler-split-unpack', ['C18'], M,
    [("        raise MarshallingError(str(e).replace('interface', 'error', 1))",
      "        head, reason = str(e).split(': ', 1)\n        raise MarshallingError(head.replace('interface', 'error') + ': ' + reason)")],
    ['C18.D1'], note='split(sep, 1) unpacked into two names: ValueError when the text has no separator')
mut('ok-c18-member-fast-path-ascii-alnum', ['C18'], M,
    [("        if mbr_re.search(n):\n            raise Exception(\n                'Names contains a character outside the set [A-Za-z0-9_]')",
      "        if not (n.isascii() and n.isalnum()) and mbr_re.search(n):\n            raise Exception(\n                'Names contains a character outside the set [A-Za-z0-9_]')")],
    kind='benign', note='sound twin of seed C18-r12: the regex is skipped only for ASCII alphanumerics')
twin('c18-prefix-validators', ['C18'], '3859009', ['C18.D1'], 'pre-fix twin: trailing dot / stray colon accepted')
mut('c18-member-regex-dot', ['C18'], M,
    [("mbr_re = re.compile('[^A-Za-z0-9_]')", "mbr_re = re.compile('[^A-Za-z0-9_.]')")], ['C18.D1'])
mut('c18-if-regex-hyphen', ['C18'], M,
    [("if_re = re.compile('[^A-Za-z0-9_.]')", "if_re = re.compile('[^A-Za-z0-9_.-]')")], ['C18.D1'])
mut('c18-length-ge', ['C18'], M,
    [("    try:\n        if len(n) < 1:\n            raise Exception('Name must be at least one byte in length')\n        if len(n) > 255:",
      "    try:\n        if len(n) < 1:\n            raise Exception('Name must be at least one byte in length')\n        if len(n) >= 255:")], ['C18.D1'])
mut('c18-objpath-trailing-slash-ok', ['C18'], M,
    [("    if len(p) > 1 and p[-1] == '/':\n        raise MarshallingError('Object paths may not end with \"/\"')\n", "")], ['C18.D1'])
mut('c18-objpath-root-rejected', ['C18'], M,
    [("    if len(p) > 1 and p[-1] == '/':", "    if p[-1] == '/':")], ['C18.D1'])
mut('c18-dot-digit-dropped', ['C18'], M,
    [("        if dot_digit_re.search(n):\n            raise Exception(\n                'No components of an interface name may begin with a digit')\n", "")], ['C18.D1'])
mut('c18-bus-unique-digit-check', ['C18'], M,
    [("        if not n[0] == ':' and dot_digit_re.search(n):", "        if dot_digit_re.search(n):")], ['C18.D1'],
    note='unique names like :1.5 would be rejected')
mut('ok-c18-member-empty-check-dropped', ['C18'], M,
    [("        if len(n) < 1:\n            raise Exception('Name must be at least one byte in length')\n", "")], kind='benign',
    note='n[0] on the empty name raises IndexError inside try -> still rejected; equivalent')
mut('c18-error-name-unvalidated', ['C18', 'C03'], 'txdbus/message.py',
    [("        marshal.validateInterfaceName(error_name)\n", "")], ['C18.D2', 'C03.D7'])
mut('c18-index-outside-try', ['C18'], M,
    [("    try:\n        if len(n) < 1:\n            raise Exception('Name must be at least one byte in length')\n        if len(n) > 255:\n            raise Exception('Name exceeds maximum length of 255')\n        if n[0].isdigit():",
      "    if n[0].isdigit():\n        raise MarshallingError('Names may not begin with a digit')\n    try:\n        if len(n) < 1:\n            raise Exception('Name must be at least one byte in length')\n        if len(n) > 255:\n            raise Exception('Name exceeds maximum length of 255')\n        if n[0].isdigit():")], ['C18.D1'],
    note='empty member name raises IndexError instead of MarshallingError')
mut('ok-c18-member-fullmatch', ['C18'], M,
    [("        if n[0].isdigit():\n            raise Exception('Names may not begin with a digit')\n        if mbr_re.search(n):\n            raise Exception(\n                'Names contains a character outside the set [A-Za-z0-9_]')\n",
      "        if not re.fullmatch('[A-Za-z_][A-Za-z0-9_]*', n):\n            raise Exception('Invalid member name')\n")], kind='benign')
mut('ok-c18-objpath-reorder', ['C18'], M,
    [("    if not p.startswith('/'):\n        raise MarshallingError('Object paths must begin with a \"/\"')\n    if len(p) > 1 and p[-1] == '/':\n        raise MarshallingError('Object paths may not end with \"/\"')\n    if '//' in p:\n        raise MarshallingError('\"//\" is not allowed in object paths\"')\n",
      "    if '//' in p:\n        raise MarshallingError('\"//\" is not allowed in object paths\"')\n    if p != '/' and p.endswith('/'):\n        raise MarshallingError('Object paths may not end with \"/\"')\n    if p[:1] != '/':\n        raise MarshallingError('Object paths must begin with a \"/\"')\n")], kind='benign')

mut('c10-caller-always', ['C10'], OB,
    [("        if m._dbusCaller:\n            if methodArguments:", "        if True:\n            if methodArguments:")], ['C10.D6'])
mut('c10-args-dropped', ['C10'], OB,
    [("            if methodArguments:\n                return m(*methodArguments)\n            else:\n                return m()", "            return m()")], ['C10.D6'])
mut('c10-double-invoke', ['C10'], OB,
    [("            if methodArguments:\n                return m(*methodArguments)\n            else:\n                return m()", "            if methodArguments:\n                m(*methodArguments)\n                return m(*methodArguments)\n            else:\n                return m()")], ['C10.D6'])
mut('c03-serial-per-instance', ['C03'], MS,
    [("            DBusMessage._nextSerial += 1\n", "            self._nextSerial += 1\n")], ['C03.D5'])

# ---- C17 ------------------------------------------------------------------
mut('ok-c17-setter-local-alias-of-storage', ['C17', 'C16'], 'txdbus/objects.py',
    [("        instance._dbusProperties[self.key] = value\n",
      "        props = instance._dbusProperties\n        props[self.key] = value\n")],
    kind='benign', note='the storage dict reached through a local name')
twin('c17-prefix-getall-break', ['C17'], 'd3c47f8', ['C17.D4'], 'pre-fix twin')
mut('c17-getall-only-read', ['C17'], OB,
    [("            if p.iprop.access != 'write' and p.pname not in r:", "            if p.iprop.access == 'read' and p.pname not in r:")], ['C17.D1'])
mut('c17-get-writeonly-readable', ['C17'], OB,
    [("        if p.iprop.access == 'write':\n            raise Exception('Property is not readable')\n", "")], ['C17.D1'])
mut('c17-set-readonly-writable', ['C17'], OB,
    [("        if p.iprop.access not in ('write', 'readwrite'):", "        if p.iprop.access not in ('write', 'readwrite', 'read'):")], ['C17.D1'])
mut('c17-emit-on-invalidates', ['C17'], OB,
    [("        if self.iprop.emits == 'true':", "        if self.iprop.emits != 'false':")], ['C17.D2'])
mut('c17-emit-before-store', ['C17'], OB,
    [("        instance._dbusProperties[self.key] = value\n\n        if self.iprop.emits == 'true':\n            instance.emitSignal(\n                'PropertiesChanged',\n                self.interface,\n                {self.pname: value},\n                [],\n            )",
      "        if self.iprop.emits == 'true':\n            instance.emitSignal(\n                'PropertiesChanged',\n                self.interface,\n                {self.pname: value},\n                [],\n            )\n\n        instance._dbusProperties[self.key] = value")], ['C17.D2'])
mut('c17-key-only-name', ['C17'], OB,
    [("        if self.key is None:\n            self.key = self.interface + self.pname\n\n        instance._dbusProperties[self.key] = value",
      "        instance._dbusProperties[self.pname] = value")], ['C17.D5'],
    note='same property name on two interfaces then shares one slot; get/set disagree')
mut('c17-get-untyped', ['C17'], OB,
    [("        if p.iprop.sig in marshal.variantClassMap:\n            return marshal.variantClassMap[p.iprop.sig](v)\n        else:\n            return v", "        return v")], ['C17.D3'])
mut('c17-property-access-swapped', ['C17', 'C15'], 'txdbus/interface.py',
    [("        if writeable and not readable:\n            self.access = 'write'", "        if writeable and not readable:\n            self.access = 'readwrite'")], ['C17.D1', 'C15'])
mut('c17-set-wrong-attr', ['C17'], OB,
    [("        return setattr(self, p.attr_name, value)", "        return setattr(self, p.pname, value)")], ['C17.D5'])

# ---- C12 ------------------------------------------------------------------
RT = 'txdbus/router.py'
twin('c12-prefix-type-unenforced', ['C12'], 'edc2ad6', ['C12.D1', 'C12.D2'], 'pre-fix twin')
twin('c12-prefix-textual-prefix', ['C12'], 'c99f22c', ['C12.D3'], 'pre-fix twin')
twin('c12-prefix-no-body-matches', ['C12'], '96cc097', ['C12.D4'], 'pre-fix twin')
mut('c12-member-not-stored', ['C12'], RT,
    [("        if member:\n            r.add('member', member)\n", "")], ['C12.D1'])
mut('c12-add-files-the-other-keys', ['C12'], RT,
    [("        if key in ('_messageType', 'interface', 'member', 'path',\n                   'destination'):",
      "        if key not in ('_messageType', 'interface', 'member', 'path',\n                       'destination'):")],
    ['C12.D1'], note='Rule.add: in -> not in, branches kept: the generically compared keys become attributes nobody evaluates and the dedicated ones go to `simple`')
mut('c12-destination-key-typo', ['C12'], RT,
    [("            r.add('destination', destination)", "            r.add('dest', destination)")], ['C12.D1'])
mut('c12-argpath-one-way', ['C12'], RT,
    [("                        or (a.endswith('/') and val.startswith(a))\n", "")], ['C12.D3'])
mut('c12-argpath-no-slash-check', ['C12'], RT,
    [("                        or (val.endswith('/') and a.startswith(val))", "                        or a.startswith(val)")], ['C12.D3'])
mut('c12-namespace-no-equal', ['C12'], RT,
    [("                    m.path == ns\n                    or m.path.startswith(ns.rstrip('/') + '/')", "                    m.path.startswith(ns.rstrip('/') + '/')")], [],
    kind='break', note='namespace itself no longer matches - needs a namespace truth table (not decided): expected MISSED')
mut('c12-callback-unprotected', ['C12'], RT,
    [("        except BaseException:\n            log.err()", "        except KeyError:\n            log.err()")], ['C12.D5'])
mut('c12-delmatch-noop', ['C12'], RT,
    [("        del self._rules[rule_id]", "        self._rules.get(rule_id)")], ['C12.D5'])
mut('c12-client-rule-swaps-params', ['C12'], CL,
    [("                mtype,\n                sender,\n                interface,\n                member,\n                path,", "                mtype,\n                sender,\n                member,\n                interface,\n                path,")], ['C12.D6'])
mut('c12-client-text-key', ['C12'], CL,
    [("        add('path_namespace', path_namespace)", "        add('path_namspace', path_namespace)")], ['C12.D6'])
mut('c12-proxy-no-signature-check', ['C12'], OB,
    [("            if isSignatureValid(signal.sig, sig_msg.signature):\n                if sig_msg.body:\n                    callback(*sig_msg.body)\n                else:\n                    callback()",
      "            if sig_msg.body:\n                callback(*sig_msg.body)\n            else:\n                callback()")], ['C12.D7'])
mut('c12-short-body-matches', ['C12'], RT,
    [("                    if idx >= len(m.body) or m.body[idx] != val:\n                        return", "                    if idx < len(m.body) and m.body[idx] != val:\n                        return")], ['C12.D4'])

# ---- C16 ------------------------------------------------------------------
IN = 'txdbus/introspection.py'
mut('ok-c16-children-dedup-as-guard-clause', ['C16'], IN,
    [("            if path and path not in matches:\n                matches.append(path)",
      "            if not path or path in matches:\n                continue\n            matches.append(path)")],
    kind='benign', note='the de-duplication test written as a guard clause with continue')
twin('c16-prefix-managed-siblings', ['C16'], '97a5019', ['C16.D3'], 'pre-fix twin')
twin('c16-prefix-root-empty-child', ['C16'], '64e45c7', ['C16.D4'], 'pre-fix twin')
mut('c16-managed-includes-self', ['C16'], OB,
    [("            if not p.startswith(prefix) or p == objectPath:\n                continue", "            if not p.startswith(prefix):\n                continue")], ['C16.D3'],
    note='GetManagedObjects(/) then includes an object exported at / itself')
mut('c16-managed-prefix-no-slash', ['C16'], OB,
    [("        prefix = objectPath.rstrip('/') + '/'", "        prefix = objectPath.rstrip('/')")], ['C16.D3'])
mut('c16-intro-no-normalise', ['C16'], IN,
    [("    if not objectPath.endswith('/'):\n        objectPath += '/'\n", "")], ['C16.D4'])
mut('c16-intro-full-subpath', ['C16'], IN,
    [("            path = path[len(objectPath):].partition('/')[0]", "            path = path[len(objectPath):]")], ['C16.D4'],
    note='lists grandchildren as b/c')
mut('c16-export-no-signal', ['C16'], OB,
    [("            body=[o.getObjectPath(), i],\n        )\n\n        self.conn.sendMessage(msig)\n\n    def unexportObject", "            body=[o.getObjectPath(), i],\n        )\n\n    def unexportObject")], ['C16.D2'])
mut('c16-unexport-keeps-entry', ['C16'], OB,
    [("        o = self.exports[objectPath]\n        del self.exports[objectPath]\n", "        o = self.exports[objectPath]\n")], ['C16'])
mut('c16-removed-signal-name', ['C16'], OB,
    [("            'InterfacesRemoved',", "            'InterfacesAdded',")], ['C16.D2'])
mut('c16-foreign-writer', ['C16'], CL,
    [("        self.objHandler.unexportObject(objectPath)", "        self.objHandler.exports.pop(objectPath, None)")], ['C16'])
mut('c16-intro-none-when-object', ['C16'], IN,
    [("    if obj is None and not matches:\n        return None", "    if not matches:\n        return None")], ['C16.D4'],
    note='a leaf object can no longer be introspected')

# ---- C09 ------------------------------------------------------------------
twin('c09-prefix-connect-never-fires', ['C09'], ['392c9ee', '1984e76', '8483bef'], ['C09.D1'], 'pre-fix twin (the later snapshot fix touches the same lines and is reverted too)')
twin('c09-prefix-live-iteration', ['C09'], '1984e76', ['C09.D4'], 'pre-fix twin')
twin('c09-prefix-proxy-unregistered', ['C09'], '7486884', ['C09.D5'], 'pre-fix twin')
mut('c09-loss-no-timer-cancel', ['C09', 'C08'], CL,
    [("        for d, timeout in pending.values():\n            if timeout:\n                timeout.cancel()\n            d.errback(reason)",
      "        for d, timeout in pending.values():\n            d.errback(reason)")], ['C08.D3', 'C09'])
mut('c09-loss-returns-before-objhandler', ['C09'], CL,
    [("        if established:\n            self.objHandler.connectionLost(reason)\n", "")], ['C09.D3'])
mut('c09-no-chain', ['C09'], CL,
    [("            eplist.pop().connect(f).addErrback(try_next_ep)", "            eplist.pop().connect(f)")], ['C09.D2'])
mut('c09-order-reversed', ['C09'], CL,
    [("    eplist.reverse()\n\n", "")], ['C09.D2'])
mut('c09-resolver-not-idempotent', ['C09'], CL,
    [("    def _failed(self, err):\n        if not self.d.called:\n            self.d.errback(err)", "    def _failed(self, err):\n        self.d.errback(err)")], ['C09.D1'])
mut('c09-auth-loss-silent', ['C09'], CL,
    [("            # lost during authentication: connect()'s Deferred must fail\n            self.factory._failed(reason)\n            return", "            return")], ['C09.D1'])
mut('c09-hello-errback-dropped', ['C09'], CL,
    [("        d.addCallbacks(\n            self._cbGotHello,\n            lambda err: self.factory._failed(err),\n        )", "        d.addCallback(self._cbGotHello)")], ['C09.D1'])
mut('c09-dc-callbacks-skipped', ['C09'], CL,
    [("        if established:\n            # iterate a copy: a callback may unregister itself\n            for cb in list(self._dcCallbacks):\n                cb(self, reason)\n", "")], ['C09.D3'])
mut('c09-loss-wrong-reason', ['C09', 'C08'], CL,
    [("            d.errback(reason)\n\n        if established:", "            d.errback(error.TimeOut('connection lost'))\n\n        if established:")], ['C09.D3', 'C08.D5'])
mut('c09-empty-list-hangs', ['C09'], CL,
    [("    if eplist:\n        try_next_ep(None)\n    else:\n        d.errback(\n            ConnectError(\n                string=(\n                    'Failed to connect to any bus address. No valid bus '\n                    'addresses found'\n                )\n            )\n        )\n",
      "    if eplist:\n        try_next_ep(None)\n")], ['C09.D2'])
mut('ok-c09-snapshot-tuple', ['C09'], CL,
    [("            for cb in list(self._dcCallbacks):", "            for cb in tuple(self._dcCallbacks):")], kind='benign')

mut('c16-intro-no-dedup', ['C16'], IN,
    [("            if path and path not in matches:\n                matches.append(path)", "            if path:\n                matches.append(path)")], ['C16.D4'])
mut('ok-c16-intro-set-comprehension', ['C16'], IN,
    [("    matches = []\n    for path in exportedObjects.keys():\n        if path.startswith(objectPath):\n            path = path[len(objectPath):].partition('/')[0]\n            # the root path '/' is its own prefix: no child there\n            if path and path not in matches:\n                matches.append(path)\n",
      "    matches = sorted({p[len(objectPath):].partition('/')[0]\n                      for p in exportedObjects\n                      if p.startswith(objectPath) and p != objectPath})\n")], kind='benign',
    note='equivalent rewrite with a set comprehension (child values not extractable: advisory only)')

# ---- C15 ------------------------------------------------------------------
mut('ok-c15-reader-dedupes-within-kind-by-interface-table', ['C15'], IN,
    [("        self.iface.addMethod(self.member)",
      "        if self.member.name not in self.iface.methods:\n            self.iface.addMethod(self.member)")],
    kind='benign', note='first declaration of a METHOD wins, looked up in the interface\'s own method table (sound twin of seed C15-r12)')
mut('ok-c15-reader-dedupes-within-kind-own-set', ['C15'], IN,
    [("            self.iface = interface.DBusInterface(iname)\n",
      "            self.iface = interface.DBusInterface(iname)\n            self.seenSignals = set()\n"),
     ("        self.iface.addSignal(self.member)",
      "        if self.member.name in self.seenSignals:\n            return\n        self.seenSignals.add(self.member.name)\n        self.iface.addSignal(self.member)")],
    kind='benign', note='per-kind set, emptied with every new interface')
mut('c15-reader-dedupe-set-never-emptied', ['C15'], IN,
    [("        self.iface = None\n        self.skip = False\n",
      "        self.iface = None\n        self.seenSignals = set()\n        self.skip = False\n"),
     ("        self.iface.addSignal(self.member)",
      "        if self.member.name in self.seenSignals:\n            return\n        self.seenSignals.add(self.member.name)\n        self.iface.addSignal(self.member)")],
    ['C15.D1'], note='per-kind set that survives from one interface to the next: the second interface loses its same-named signal')
IF = 'txdbus/interface.py'
mut('c15-arg-no-direction', ['C15'], IF,
    [("                        '      <arg direction=\"out\" type=\"%s\"/>' %", "                        '      <arg type=\"%s\"/>' %")], ['C15.D1'])
mut('c15-direction-swapped-writer', ['C15'], IF,
    [("                for arg_sig in marshal.genCompleteTypes(m.sigIn):\n                    l.append(\n                        '      <arg direction=\"in\" type=\"%s\"/>' %",
      "                for arg_sig in marshal.genCompleteTypes(m.sigOut):\n                    l.append(\n                        '      <arg direction=\"in\" type=\"%s\"/>' %")], ['C15.D3'])
mut('c15-reader-counts-wrong', ['C15'], IN,
    [("                self.member.nret += 1\n                self.member.sigOut = self.member.sigOut + t", "                self.member.nargs += 1\n                self.member.sigOut = self.member.sigOut + t")], ['C15.D3'])
mut('c15-reader-direction-out-as-in', ['C15'], IN,
    [("            if attrs['direction'] == 'in':", "            if attrs['direction'] != 'out':")], [], kind='benign',
    note='equivalent on the vocabulary {in, out}')
mut('c15-reuse-polarity', ['C15'], IN,
    [("        self.skipKnown = not replaceKnownInterfaces", "        self.skipKnown = replaceKnownInterfaces")], ['C15.D4'])
mut('c15-reuse-always', ['C15'], IN,
    [("        if iname in interface.DBusInterface.knownInterfaces and self.skipKnown:", "        if iname in interface.DBusInterface.knownInterfaces:")], ['C15.D4'])
mut('c15-property-access-upper', ['C15'], IN,
    [("        readable = rw.lower() in ('read', 'readwrite')", "        readable = rw in ('Read', 'ReadWrite')")], ['C15.D2'])
mut('c15-signal-arg-by-char', ['C15'], IF,
    [("                for arg_sig in marshal.genCompleteTypes(s.sig):", "                for arg_sig in s.sig:")], ['C15.D3'],
    note='one <arg> per character instead of per complete type')
mut('c15-property-no-type', ['C15'], IF,
    [("                    '    <property name=\"%s\" type=\"%s\" access=\"%s\">' %\n                    (p.name, p.sig, p.access,))",
      "                    '    <property name=\"%s\" access=\"%s\">' %\n                    (p.name, p.access,))")], ['C15.D1'])

# ---- C19 ------------------------------------------------------------------
twin('c19-prefix-dead-int-branch', ['C19'], 'c4ba78c', ['C19.D4', 'C19.D2'], 'pre-fix twin')
mut('c19-find-end-no-depth', ['C19'], M,
    [("            if subc == b:\n                depth += 1\n            elif subc == e:", "            if subc == e:")], ['C19.D5'],
    note='nested brackets split at the first closing bracket')
mut('c19-struct-off-by-one', ['C19'], M,
    [("            x = find_end(i + 1, '(', ')')\n            yield compoundSig[i:x + 1]\n            i = x\n", "            x = find_end(i + 1, '(', ')')\n            yield compoundSig[i:x + 1]\n            i = x + 1\n")], ['C19.D5'])
mut('c19-dict-uses-paren-matcher', ['C19'], M,
    [("            x = find_end(i + 1, '{', '}')", "            x = find_end(i + 1, '(', '}')")], ['C19.D3'])
mut('c19-sig-list-elem-not-wrapped', ['C19'], M,
    [("            return 'a' + sigFromPy(pobj[0])", "            return sigFromPy(pobj[0])")], [], kind='break',
    note='still one complete type by shape (T): not detectable by the shape rule - expected MISSED unless the list shape is checked')
mut('c19-dict-sig-missing-brace', ['C19'], M,
    [("            return 'a{' + sigFromPy(k) + 'v}'", "            return 'a{' + sigFromPy(k) + 'v'")], ['C19.D2'])
mut('c19-variantmap-swap', ['C19'], M,
    [("    'n': Int16,\n    'q': UInt16,", "    'n': UInt16,\n    'q': Int16,")], ['C19.D1'])
mut('c19-wrapper-sig', ['C19'], M,
    [("    dbusSignature = 'u'\n", "    dbusSignature = 'i'\n")], ['C19.D1'])
mut('c19-nargs-by-length', ['C19'], IF,
    [("            m.nargs = len([a for a in marshal.genCompleteTypes(m.sigIn)])", "            m.nargs = len(m.sigIn)")], ['C19.D3'])
mut('ok-c19-int-range-constants', ['C19'], M,
    [("        if -2**31 <= pobj < 2**31:\n            return 'i'\n        return 'x'", "        if -2147483648 <= pobj <= 2147483647:\n            return 'i'\n        else:\n            return 'x'")], kind='benign')

twin('c06-prefix-external-str-challenge', ['C06'], '4ab60c8', ['C06.D6'], 'pre-fix twin')
twin('c06-prefix-cookie-str-response', ['C06'], 'c43b434', ['C06.D6'], 'pre-fix twin')
twin('c11-prefix-bus-parse-arity', ['C11', 'C14'], 'abc19f2', ['C11.D1', 'C14.D1'], 'pre-fix twin')
mut('c11-proxy-sigout-as-signature', ['C11'], OB,
    [("            signature=m.sigIn,\n            body=args,", "            signature=m.sigOut,\n            body=args,")], ['C11.D2'])
mut('c11-proxy-no-count-check', ['C11'], OB,
    [("        if len(args) != m.nargs:\n            raise TypeError(\n                '%s.%s takes %d arguments (%d given)' %\n                (i.name, methodName, m.nargs, len(args)),\n            )\n", "")], ['C11.D2'])
mut('c11-proxy-wrong-destination', ['C11'], OB,
    [("            destination=self.busName,\n            signature=m.sigIn,", "            destination=self.objectPath,\n            signature=m.sigIn,")], ['C11.D2'])
mut('c11-callremote-extra-kw', ['C11'], CL,
    [("                autoStart=autoStart,\n                oobFDs=[],", "                autoStart=autoStart,\n                timeout=timeout,\n                oobFDs=[],")], ['C11.D1'])
mut('c11-explicit-interfaces-names', ['C11'], OB,
    [("                    if i in interface.DBusInterface.knownInterfaces:\n                        ifl.append(interface.DBusInterface.knownInterfaces[i])", "                    if i in interface.DBusInterface.knownInterfaces:\n                        ifl.append(i)")], ['C11.D3'],
    note='proxy gets interface NAMES instead of DBusInterface objects')

# ---- C13 ------------------------------------------------------------------
BU = 'txdbus/bus.py'
twin('c13-prefix-inuse-instead-of-queue', ['C13'], ['b3e3921', '3be21ee'], ['C13.D2', 'C13.D4'], 'pre-fix twin (both bus name fixes reverted)')
twin('c13-prefix-release-queued', ['C13'], 'b3e3921', ['C13.D3'], 'pre-fix twin')
mut('c13-replace-ignores-allow', ['C13'], BU,
    [("                if replace_existing and owner.busNames[name]:", "                if replace_existing:")], ['C13.D2'])
mut('c13-flag-bits-swapped', ['C13'], BU,
    [("        replace_existing = bool(flags & 0x2)\n        do_not_queue = bool(flags & 0x4)", "        replace_existing = bool(flags & 0x4)\n        do_not_queue = bool(flags & 0x2)")], ['C13.D2'])
mut('c13-client-flag-bit', ['C13'], CL,
    [("        if doNotQueue:\n            flags |= 0x4", "        if doNotQueue:\n            flags |= 0x8")], ['C13.D1'])
mut('c13-already-owner-code', ['C13'], BU,
    [("                return client.NAME_ALREADY_OWNER", "                return client.NAME_ACQUIRED")], ['C13.D2'])
mut('c13-queue-at-head', ['C13'], BU,
    [("                    if caller not in queue:\n                        queue.append(caller)", "                    if caller not in queue:\n                        queue.insert(0, caller)")], ['C13.D2'],
    note='a queued requester silently becomes owner')
mut('c13-release-keeps-record', ['C13'], BU,
    [("        caller.busNames.pop(name, None)\n", "")], ['C13.D3'])
mut('c13-release-no-successor-signal', ['C13'], BU,
    [("            if queue:\n                self.sendSignal(queue[0], 'NameAcquired', 's', name)\n", "")], ['C13.D3'])
mut('c13-disconnect-skips-names', ['C13'], BU,
    [("        for busName in list(proto.busNames.keys()):\n            self.dbus_ReleaseName(busName, proto.uniqueName)\n", "")], ['C13.D3'])
mut('c13-getowner-last', ['C13'], BU,
    [("            conn = self.busNames.get(busName, None)\n            if conn:\n                conn = conn[0]\n\n        if conn is None:\n            raise DError(\n                \"org.freedesktop.DBus.Error.NameHasNoOwner\",\n                \"Could not get UID of name '%s': no such name\" %\n                (busName,),\n            )\n\n        return conn.uniqueName",
      "            conn = self.busNames.get(busName, None)\n            if conn:\n                conn = conn[-1]\n\n        if conn is None:\n            raise DError(\n                \"org.freedesktop.DBus.Error.NameHasNoOwner\",\n                \"Could not get UID of name '%s': no such name\" %\n                (busName,),\n            )\n\n        return conn.uniqueName")], ['C13.D5'])
mut('c13-reply-constant', ['C13'], CL,
    [("NAME_IN_QUEUE = 2\nNAME_IN_USE = 3", "NAME_IN_QUEUE = 3\nNAME_IN_USE = 2")], ['C13.D1'])

# ---- C14 ------------------------------------------------------------------
twin('c14-prefix-unicast-broadcast', ['C14'], '01c13cb', ['C14.D4'], 'pre-fix twin')
twin('c14-prefix-match-lifecycle', ['C14'], '157b7be', ['C14.D5', 'C14.D6'], 'pre-fix twin')
mut('c14-sender-not-overwritten', ['C14'], BU,
    [("        msg.sender = self.uniqueName\n", "        if msg.sender is None:\n            msg.sender = self.uniqueName\n")], ['C14.D3'],
    note='a forged sender field is kept')
mut('c14-new-serial-on-forward', ['C14'], BU,
    [("        msg._marshal(False)", "        msg._marshal()")], ['C14.D3'])
mut('c14-next-id-reset', ['C14'], BU,
    [("        if proto.uniqueName:\n            del self.clients[proto.uniqueName]", "        if proto.uniqueName:\n            del self.clients[proto.uniqueName]\n            self.next_id -= 1")], ['C14.D2'],
    note='unique names get reused after a disconnect')
mut('c14-register-wrong-key', ['C14'], BU,
    [("        self.clients[proto.uniqueName] = proto", "        self.clients[':1.%d' % (self.next_id,)] = proto")], ['C14.D2'])
mut('c14-forward-deferred', ['C14'], BU,
    [("            if p:\n                p.sendMessage(msg)", "            if p:\n                from twisted.internet import reactor\n                reactor.callLater(0, p.sendMessage, msg)")], ['C14.D7', 'C14.D4'])
mut('c14-bus-calls-forwarded', ['C14'], BU,
    [("            elif not msg.destination == 'org.freedesktop.DBus':", "            else:")], ['C14.D4'])
mut('c14-removematch-keeps-router-rule', ['C14'], BU,
    [("        self.router.delMatch(rule_ids.pop())\n", "        rule_ids.pop()\n")], ['C14.D5'])
mut('c14-stub-signature', ['C14'], CL,
    [("            'ReleaseName',\n            interface='org.freedesktop.DBus',\n            signature='s',", "            'ReleaseName',\n            interface='org.freedesktop.DBus',\n            signature='su',")], ['C14.D6'])

# ---- strengthened after seeded changes ------------------------------------------
mut('c13-stale-allow-flag', ['C13'], BU,
    [("                    if caller not in queue:\n                        queue.append(caller)\n                    caller.busNames[name] = allow_replacement",
      "                    if caller not in queue:\n                        queue.append(caller)\n                        caller.busNames[name] = allow_replacement")], ['C13.D2'])
mut('c14-endian-from-parse', ['C14', 'C03'], MS,
    [("    m.serial = hval[5]\n", "    m.serial = hval[5]\n    m.endian = hval[0]\n")], ['C14.D3', 'C03.D4'])
mut('c09-shared-disconnect-list', ['C09'], OB,
    [("    _disconnectCBs = None\n", "    _disconnectCBs = []\n"),
     ("        if self._disconnectCBs is None:\n            self._disconnectCBs = []\n", "")], ['C09.D6'])

mut('c10-single-return-not-wrapped', ['C10', 'C11'], OB,
    [("                    if m.nret == 1:\n                        return_values = [return_values]", "                    if m.nret == 1 and m.sigOut[0] in 'a(':\n                        return_values = [return_values]")], ['C10.D7', 'C11.D4'])
mut('c10-scalar-not-wrapped', ['C10'], OB,
    [("                else:\n                    return_values = [return_values]\n\n                r = message.MethodReturnMessage(", "                r = message.MethodReturnMessage(")], ['C10.D7'])

mut('ok-c03-wrapper-table', ['C03', 'C14'], MS,
    [("                if attr_name == 'path':\n                    hval = marshal.ObjectPath(hval)\n                elif attr_name == 'signature':\n                    hval = marshal.Signature(hval)\n                elif attr_name in ('unix_fds', 'reply_serial'):\n                    hval = marshal.UInt32(hval)\n",
      "                wrap = {'path': marshal.ObjectPath,\n                        'signature': marshal.Signature,\n                        'unix_fds': marshal.UInt32,\n                        'reply_serial': marshal.UInt32}.get(attr_name)\n                if wrap is not None:\n                    hval = wrap(hval)\n")], kind='benign',
    note='header wrapping spelled as a table lookup instead of an if/elif chain')

# ---- more behaviour-preserving variants ---------------------------------------------
mut('ok-c04-unpack-from', ['C04'], PR,
    [("                    body_len = struct.unpack(\n                        self._endian + 'I', self._buffer[4:8])[0]\n                    harr_len = struct.unpack(\n                        self._endian + 'I', self._buffer[12:16])[0]",
      "                    body_len = struct.unpack_from(\n                        self._endian + 'I', self._buffer, 4)[0]\n                    harr_len = struct.unpack_from(\n                        self._endian + 'I', self._buffer, 12)[0]")], kind='benign')
mut('ok-c08-pop-entry', ['C08', 'C11'], CL,
    [("        d, timeout = self._pendingCalls.get(mret.reply_serial, (None, None))\n        if timeout:\n            timeout.cancel()\n        if d:\n            del self._pendingCalls[mret.reply_serial]\n            d.callback(mret)",
      "        entry = self._pendingCalls.pop(mret.reply_serial, None)\n        if entry is None:\n            return\n        d, timeout = entry\n        if timeout:\n            timeout.cancel()\n        d.callback(mret)")], kind='benign')
mut('ok-c20-getattr-oobfds', ['C20'], PR,
    [("        if hasattr(msg, 'oobFDs') and msg.oobFDs:\n            for fd in msg.oobFDs:\n                self.transport.sendFileDescriptor(fd)",
      "        for fd in getattr(msg, 'oobFDs', None) or ():\n            self.transport.sendFileDescriptor(fd)")], kind='benign')
mut('ok-c06-begin-early-raise', ['C06'], AU,
    [("        if self.state == 'WaitingForBegin':\n            self.authenticated = True\n            self.guid = self.current_mech.getUserName()\n            self.current_mech = None\n        else:\n            raise DBusAuthenticationFailed('Protocol violation')",
      "        if self.state != 'WaitingForBegin':\n            raise DBusAuthenticationFailed('Protocol violation')\n        self.authenticated = True\n        self.guid = self.current_mech.getUserName()\n        self.current_mech = None")], kind='benign')
mut('ok-c17-read-substring', ['C17'], OB,
    [("        if p.iprop.access == 'write':\n            raise Exception('Property is not readable')", "        if 'read' not in p.iprop.access:\n            raise Exception('Property is not readable')")], kind='benign')
# ('ok-c09-swap-callbacks' was removed: detaching the callback list is NOT benign while
# cancelNotifyOnDisconnect removes unguarded - shown by the round-4 seed C09-r4; see
# c09-dccallbacks-detached and ok-c09-dccallbacks-detached-and-tolerant)
mut('ok-c16-export-local-path', ['C16'], OB,
    [("        o = IDBusObject(dbusObject)\n        self.exports[o.getObjectPath()] = o\n", "        o = IDBusObject(dbusObject)\n        path = o.getObjectPath()\n        self.exports[path] = o\n")], kind='benign')
mut('ok-c05-guard-not', ['C05', 'C01'], M,
    [("        if nbytes == 0:\n", "        if not nbytes:\n")], kind='benign')
mut('ok-c03-flags-local', ['C03', 'C10'], MS,
    [("    m.expectReply = not (hval[2] & 0x1)\n    m.autoStart = not (hval[2] & 0x2)", "    flags = hval[2]\n    m.expectReply = (flags & 1) == 0\n    m.autoStart = (flags & 2) == 0")], kind='benign')
mut('ok-c19-continue-style', ['C19', 'C05'], M,
    [("            x = find_end(i + 1, '(', ')')\n            yield compoundSig[i:x + 1]\n            i = x\n", "            x = find_end(i + 1, '(', ')')\n            yield compoundSig[i:x + 1]\n            i = x + 1\n            continue\n")], kind='benign')
mut('ok-c13-early-returns', ['C13'], BU,
    [("            if owner is caller:\n                # Update the replacement flag\n                owner.busNames[name] = allow_replacement\n\n                return client.NAME_ALREADY_OWNER\n            else:\n                if replace_existing and owner.busNames[name]:",
      "            if owner is caller:\n                # Update the replacement flag\n                owner.busNames[name] = allow_replacement\n\n                return client.NAME_ALREADY_OWNER\n            if True:\n                if replace_existing and owner.busNames[name]:")], kind='benign')
mut('ok-c12-rule-match-local', ['C12'], RT,
    [("                ns = self.path_namespace\n                if m.path is None or not (\n                    m.path == ns\n                    or m.path.startswith(ns.rstrip('/') + '/')\n                ):\n                    return",
      "                ns = self.path_namespace\n                path = m.path\n                if path is None:\n                    return\n                below = path.startswith(ns.rstrip('/') + '/')\n                if path != ns and not below:\n                    return")], kind='benign')
mut('ok-c10-unknown-object-inline', ['C10', 'C11'], OB,
    [("            self._send_err(\n                msg,\n                'org.freedesktop.DBus.Error.UnknownObject',\n                '%s is not an object provided by this process.' % (msg.path),\n            )\n            return",
      "            r = message.ErrorMessage(\n                'org.freedesktop.DBus.Error.UnknownObject',\n                msg.serial,\n                body=['%s is not an object provided by this process.' % (msg.path)],\n                signature='s',\n                destination=msg.sender,\n            )\n            self.conn.sendMessage(r)\n            return")], kind='benign')
mut('ok-c14-sendmessage-early-return', ['C14'], BU,
    [("            if not msg.destination:\n                # no destination: a broadcast, delivered through the match\n                # rules of the connected clients\n                self.router.routeMessage(msg)\n            elif not msg.destination == 'org.freedesktop.DBus':",
      "            if msg.destination is None or msg.destination == '':\n                self.router.routeMessage(msg)\n            elif msg.destination != 'org.freedesktop.DBus':")], kind='benign')
mut('ok-c07-ok-negotiate-flag', ['C07'], AU,
    [("            if self.unixFDSupport:\n                self.sendAuthMessage(b'NEGOTIATE_UNIX_FD')\n            else:\n                self.sendAuthMessage(b'BEGIN')\n                self.authenticated = True",
      "            if not self.unixFDSupport:\n                self.sendAuthMessage(b'BEGIN')\n                self.authenticated = True\n                return\n            self.sendAuthMessage(b'NEGOTIATE_UNIX_FD')")], kind='benign')

mut('c03-unknown-code-stops-loop', ['C03'], MS,
    [("    for code, v in hval[6]:\n        try:\n            setattr(m, _hcode[code], v)\n        except KeyError:\n            pass\n",
      "    try:\n        for code, v in hval[6]:\n            setattr(m, _hcode[code], v)\n    except KeyError:\n        pass\n")], ['C03.D3'])
mut('c03-unknown-code-fatal', ['C03'], MS,
    [("        try:\n            setattr(m, _hcode[code], v)\n        except KeyError:\n            pass\n", "        setattr(m, _hcode[code], v)\n")], ['C03.D3'])
mut('ok-c03-unknown-code-get', ['C03'], MS,
    [("        try:\n            setattr(m, _hcode[code], v)\n        except KeyError:\n            pass\n", "        if code in _hcode:\n            setattr(m, _hcode[code], v)\n")], kind='benign')
mut('ok-c06-guard-hoisted-and-kept', ['C06', 'C04', 'C07'], PR,
    [("            self._buffer = self._buffer + data\n            # Consume one line at a time", "            if self.transport.disconnecting:\n                return\n            self._buffer = self._buffer + data\n            # Consume one line at a time")], kind='benign',
    note='an extra early return while the connection is already closing')

mut('ok-c04-refeed-remainder-as-argument', ['C04', 'C06', 'C07'], PR,
    [("                            if self._buffer:\n                                self.dataReceived(b'')\n",
      "                            if self._buffer:\n                                rest, self._buffer = self._buffer, b''\n                                self.dataReceived(rest)\n")], kind='benign',
    note='the remainder is handed to the re-entrant call instead of staying in the buffer')
mut('c04-refeed-drops-remainder', ['C04'], PR,
    [("                            if self._buffer:\n                                self.dataReceived(b'')\n",
      "                            if self._buffer:\n                                self._buffer = b''\n                                self.dataReceived(b'')\n")], ['C04.D5'])
mut('c04-byteorder-at-message-start', ['C04'], PR,
    [("                if self._nextMsgLen == 0 and buffer_len >= 16:\n                    # There would be multiple clients using different\n                    # endians. Reset endian every time.\n                    if self._buffer[:1] != b'l':\n                        self._endian = '>'\n                    else:\n                        self._endian = '<'\n",
      "                if self._nextMsgLen == 0 and buffer_len >= 16:\n"),
     ("        if self._authenticated:\n            self._buffer = self._buffer + data\n",
      "        if self._authenticated:\n            if not self._buffer:\n                if data[:1] != b'l':\n                    self._endian = '>'\n                else:\n                    self._endian = '<'\n            self._buffer = self._buffer + data\n")], ['C04.D1'],
    note='round-2 seed: byte order read when a read starts on an empty buffer')

# benign variants --------------------------------------------------------------
mut('ok-int16-condexpr', ['C01', 'C02'], M,
    [("return 2, [struct.pack(lendian and '<h' or '>h', var)]",
      "return 2, [struct.pack('<h' if lendian else '>h', var)]")], kind='benign')
mut('ok-int32-concat-format', ['C01', 'C02'], M,
    [("return 4, [struct.pack(lendian and '<i' or '>i', var)]",
      "fmt = ('<' if lendian else '>') + 'i'\n    return 4, [struct.pack(fmt, var)]")],
    kind='benign')
mut('ok-array-enc-rename-locals', ['C01', 'C02'], M,
    [("    for item in arr_list:\n\n        padding = pad[tcode](start_byte)\n\n        if padding:\n            start_byte += len(padding)\n            data_len += len(padding)\n            chunks.append(padding)\n",
      "    for elem in arr_list:\n        item = elem\n        fill = pad[tcode](start_byte)\n        padding = fill\n        if fill:\n            start_byte += len(fill)\n            data_len += len(fill)\n            chunks.append(fill)\n")],
    kind='benign')
mut('ok-array-enc-length-by-difference', ['C01', 'C02'], M,
    [("    for item in arr_list:\n", "    first_elem_at = start_byte\n    for item in arr_list:\n"),
     ("    chunks.insert(0, struct.pack(lendian and '<I' or '>I', data_len))\n\n    return 4 + len(initial_padding) + data_len, chunks",
      "    chunks.insert(0, struct.pack(lendian and '<I' or '>I', start_byte - first_elem_at))\n\n    return 4 + len(initial_padding) + (start_byte - first_elem_at), chunks")],
    kind='benign')
mut('ok-array-enc-unconditional-pad', ['C01', 'C02'], M,
    [("        if padding:\n            start_byte += len(padding)\n            data_len += len(padding)\n            chunks.append(padding)\n",
      "        start_byte += len(padding)\n        data_len += len(padding)\n        chunks.append(padding)\n")],
    kind='benign')
mut('ok-string-dec-locals', ['C01', 'C02'], M,
    [("    s = codecs.decode(data[offset + 4: offset + 4 + slen], 'utf-8')\n    return 4 + slen + 1, s",
      "    begin = offset + 4\n    stop = begin + slen\n    text = codecs.decode(data[begin:stop], 'utf-8')\n    return 5 + slen, text")],
    kind='benign')
mut('ok-table-reorder', ['C01', 'C02'], M,
    [("    'y': unmarshal_byte,\n    'b': unmarshal_boolean,",
      "    'b': unmarshal_boolean,\n    'y': unmarshal_byte,")], kind='benign')
mut('ok-driver-dec-tuple-assign', ['C01', 'C02'], M,
    [("        nbytes, value = unmarshallers[tcode](ct, data, offset, lendian, oobFDs)\n\n        offset += nbytes\n        values.append(value)\n\n    return offset - start_offset, values",
      "        res = unmarshallers[tcode](ct, data, offset, lendian, oobFDs)\n        offset = offset + res[0]\n        values.append(res[1])\n\n    return offset - start_offset, values")],
    kind='benign')

# benign variants, batch 3 (client side) -----------------------------------------
mut('ok-c09-loss-items-loop', ['C09', 'C08'], CL,
    [("        for d, timeout in pending.values():\n            if timeout:\n                timeout.cancel()\n            d.errback(reason)",
      "        for _serial, entry in pending.items():\n            d, timeout = entry\n            if timeout is not None and timeout:\n                timeout.cancel()\n            d.errback(reason)")], kind='benign')
mut('ok-c09-established-inline', ['C09'], CL,
    [("        established = self.busName is not None\n\n        # from here on a new call can get no reply: callRemoteMessage fails it\n        self._lostReason = reason\n\n        if established:\n            # iterate a copy", "        # from here on a new call can get no reply: callRemoteMessage fails it\n        self._lostReason = reason\n\n        if self.busName is not None:\n            # iterate a copy"),
     ("        if established:\n            self.objHandler.connectionLost(reason)", "        if self.busName is not None:\n            self.objHandler.connectionLost(reason)")], kind='benign')
mut('ok-c09-endpoint-iterator', ['C09'], CL,
    [("    eplist.reverse()\n\n    def try_next_ep(err):\n        if eplist:\n            eplist.pop().connect(f).addErrback(try_next_ep)\n        else:",
      "    eps = iter(eplist)\n\n    def try_next_ep(err):\n        ep = next(eps, None)\n        if ep is not None:\n            ep.connect(f).addErrback(try_next_ep)\n        else:")], kind='benign',
    note='walk the address list with an iterator instead of reverse()+pop()')
mut('ok-c08-error-values-condexpr', ['C08'], CL,
    [("            e.message = ''\n            e.values = []\n            if merr.body:\n                if isinstance(merr.body[0], str):\n                    e.message = merr.body[0]\n                e.values = merr.body\n",
      "            body = merr.body\n            e.message = ''\n            e.values = body if body else []\n            if body and isinstance(body[0], str):\n                e.message = body[0]\n")], kind='benign')
mut('ok-c08-timeout-pop', ['C08'], CL,
    [("        del self._pendingCalls[serial]\n        d.errback(error.TimeOut('Method call timed out'))",
      "        self._pendingCalls.pop(serial)\n        d.errback(error.TimeOut('Method call timed out'))")], kind='benign')
mut('ok-c08-register-local-entry', ['C08'], CL,
    [("            if timeout:\n                timeout = reactor.callLater(\n                    timeout, self._onMethodTimeout, mcall.serial, d)\n\n            self._pendingCalls[mcall.serial] = (d, timeout)\n",
      "            timer = None\n            if timeout:\n                timer = reactor.callLater(\n                    timeout, self._onMethodTimeout, mcall.serial, d)\n\n            self._pendingCalls[mcall.serial] = (d, timer)\n")], kind='benign')

# benign variants, batch 3 (object side) -----------------------------------------
mut('ok-c10-execute-kwargs', ['C10', 'C11'], OB,
    [("        if m._dbusCaller:\n            if methodArguments:\n                return m(*methodArguments, dbusCaller=sender)\n            else:\n                return m(dbusCaller=sender)\n        else:\n            if methodArguments:\n                return m(*methodArguments)\n            else:\n                return m()\n",
      "        kwargs = {}\n        if m._dbusCaller:\n            kwargs['dbusCaller'] = sender\n        return m(*(methodArguments or ()), **kwargs)\n")], kind='benign')
mut('ok-c17-get-wrap-local', ['C17'], OB,
    [("        if p.iprop.sig in marshal.variantClassMap:\n            return marshal.variantClassMap[p.iprop.sig](v)\n        else:\n            return v\n",
      "        wrap = marshal.variantClassMap.get(p.iprop.sig)\n        return wrap(v) if wrap is not None else v\n")], kind='benign')
mut('ok-c17-set-access-read', ['C17'], OB,
    [("        if p.iprop.access not in ('write', 'readwrite'):\n            raise Exception('Property is not Writeable')",
      "        if p.iprop.access == 'read':\n            raise Exception('Property is not Writeable')")], kind='benign')
mut('ok-c16-unexport-pop', ['C16'], OB,
    [("        o = self.exports[objectPath]\n        del self.exports[objectPath]\n", "        o = self.exports.pop(objectPath)\n")], kind='benign')
mut('ok-c16-managed-items', ['C16', 'C17'], OB,
    [("        for p in sorted(self.exports.keys()):\n            if not p.startswith(prefix) or p == objectPath:\n                continue\n            o = self.exports[p]\n",
      "        for p, o in sorted(self.exports.items()):\n            if not p.startswith(prefix) or p == objectPath:\n                continue\n")], kind='benign')
mut('ok-c10-searchcache-get', ['C10', 'C17', 'C11'], OB,
    [("            if interfaceName:\n                if interfaceName in cache:\n                    d = getattr(cache[interfaceName], cacheAttr)\n                    if key in d:\n                        return d[key]\n",
      "            if interfaceName:\n                ic = cache.get(interfaceName)\n                if ic is not None:\n                    d = getattr(ic, cacheAttr)\n                    if key in d:\n                        return d[key]\n")], kind='benign')

# round-2 seeds as regression mutants --------------------------------------------
twin('c09-prefix-stale-unix-path', ['C09'], '86e7419', ['C09.D2'], 'pre-fix twin')
mut('c09-endpoint-dict-hoisted', ['C09'], 'txdbus/endpoints.py',
    [("    epl = []\n\n    for ep_addr in addrString.split(';'):\n        d = {}\n", "    epl = []\n    d = {}\n\n    for ep_addr in addrString.split(';'):\n")], ['C09.D2'],
    note='round-2 seed: keys of an earlier address entry leak into later ones')
mut('c09-endpoint-kind-not-reset', ['C09'], 'txdbus/endpoints.py',
    [("        d = {}\n        kind = None\n        ep = None\n", "        d = {}\n        ep = None\n"),
     ("    epl = []\n\n    for ep_addr", "    epl = []\n    kind = None\n\n    for ep_addr")], ['C09.D2'])
mut('c07-disconnecting-check-per-read', ['C07', 'C06'], PR,
    [("            self._buffer = self._buffer + data\n            # Consume one line at a time", "            if self.transport.disconnecting:\n                return\n            self._buffer = self._buffer + data\n            # Consume one line at a time"),
     ("                if self.transport.disconnecting:\n                    # this is necessary because the transport may be\n                    # told to lose the connection by a line within a\n                    # larger packet, and it is important to disregard\n                    # all the lines in that packet following the one\n                    # that told it to close.\n                    return\n", "")], ['C07.D5', 'C06.D3'],
    note='round-2 seed')
mut('c12-removematch-pops-all-ids', ['C12', 'C14'], BU,
    [("        rule_ids = caller.matchRules.get(rule)\n", "        rule_ids = caller.matchRules.pop(rule, None)\n"),
     ("        self.router.delMatch(rule_ids.pop())\n\n        if not rule_ids:\n            del caller.matchRules[rule]\n", "        self.router.delMatch(rule_ids.pop())\n")], ['C12.D5', 'C14.D5'],
    note='round-2 seed: a rule text added twice can be removed only once')
mut('c14-removematch-always-drops-entry', ['C14', 'C12'], BU,
    [("        if not rule_ids:\n            del caller.matchRules[rule]\n", "        del caller.matchRules[rule]\n")], ['C14.D5', 'C12.D5'])
mut('ok-c14-removematch-len-test', ['C14', 'C12'], BU,
    [("        if not rule_ids:\n            del caller.matchRules[rule]\n", "        if len(rule_ids) == 0:\n            del caller.matchRules[rule]\n")], kind='benign')
mut('ok-c14-removematch-keeps-empty-entry', ['C14', 'C12'], BU,
    [("        self.router.delMatch(rule_ids.pop())\n\n        if not rule_ids:\n            del caller.matchRules[rule]\n", "        self.router.delMatch(rule_ids.pop())\n")], kind='benign',
    note='an empty id list left behind is harmless: RemoveMatch treats it as not found')
mut('c11-introspection-handler-shared-state', ['C11', 'C15'], IN,
    [("        self.interfaces = []\n        self.member = None", "        self.member = None"),
     ("    def __init__(self, replaceKnownInterfaces=False):\n        xml.sax.handler.ContentHandler.__init__(self)", "    interfaces = []\n\n    def __init__(self, replaceKnownInterfaces=False):\n        xml.sax.handler.ContentHandler.__init__(self)")], ['C11.D3', 'C15.D3'],
    note='round-2 seed: parse state shared by every introspection')
mut('c10-flags-elif-chain', ['C10', 'C03'], MS,
    [("    m.expectReply = not (hval[2] & 0x1)\n    m.autoStart = not (hval[2] & 0x2)\n",
      "    if hval[2] & 0x2:\n        m.autoStart = False\n    elif hval[2] & 0x1:\n        m.expectReply = False\n")], ['C10.D5', 'C03.D3'],
    note='round-2 seed: both flag bits set parses as expectReply=True')
mut('ok-c03-flags-if-chain', ['C10', 'C03'], MS,
    [("    m.expectReply = not (hval[2] & 0x1)\n    m.autoStart = not (hval[2] & 0x2)\n",
      "    m.expectReply = True\n    m.autoStart = True\n    if hval[2] & 0x2:\n        m.autoStart = False\n    if hval[2] & 0x1:\n        m.expectReply = False\n")], kind='benign')

# benign variants, batch 3 (bus side) ---------------------------------------------
mut('ok-c13-release-index', ['C13'], BU,
    [("        was_owner = queue[0] is caller\n", "        was_owner = queue.index(caller) == 0\n")], kind='benign')
mut('ok-c13-replace-assign', ['C13'], BU,
    [("                    del queue[0]\n                    queue.insert(0, caller)\n", "                    queue[0] = caller\n")], kind='benign')
mut('ok-c14-unique-name-concat', ['C14'], BU,
    [("        proto.uniqueName = ':1.%d' % (self.next_id,)\n", "        proto.uniqueName = ':1.' + str(self.next_id)\n")], kind='benign')
mut('ok-c14-disconnect-pop', ['C14', 'C13'], BU,
    [("        if proto.uniqueName:\n            del self.clients[proto.uniqueName]\n", "        self.clients.pop(proto.uniqueName, None)\n")], kind='benign')
mut('ok-c14-dispatch-table', ['C14'], BU,
    [("            if mt == 1:\n                self.methodCallReceived(p, msg)\n            elif mt == 2:\n                self.methodReturnReceived(p, msg)\n            elif mt == 3:\n                self.errorReceived(p, msg)\n            elif mt == 4:\n                self.signalReceived(p, msg)\n",
      "            handler = {1: self.methodCallReceived,\n                       2: self.methodReturnReceived,\n                       3: self.errorReceived,\n                       4: self.signalReceived}.get(mt)\n            if handler is not None:\n                handler(p, msg)\n")], kind='benign')
mut('ok-c14-disconnect-rules-flat', ['C14', 'C12'], BU,
    [("        for rule_ids in proto.matchRules.values():\n            for rule_id in rule_ids:\n                self.router.delMatch(rule_id)\n",
      "        for rule_id in [i for ids in proto.matchRules.values() for i in ids]:\n            self.router.delMatch(rule_id)\n")], kind='benign')
mut('ok-c13-release-early-nonowner', ['C13'], BU,
    [("        if was_owner:\n            if caller.isConnected:\n                self.sendSignal(caller, 'NameLost', 's', name)\n\n            if queue:\n                self.sendSignal(queue[0], 'NameAcquired', 's', name)\n",
      "        if was_owner and caller.isConnected:\n            self.sendSignal(caller, 'NameLost', 's', name)\n\n        if was_owner and queue:\n            self.sendSignal(queue[0], 'NameAcquired', 's', name)\n")], kind='benign')

# round-2 seeds C13-C20 as regression mutants -------------------------------------
mut('c13-nameacquired-under-isconnected', ['C13'], BU,
    [("            if caller.isConnected:\n                self.sendSignal(caller, 'NameLost', 's', name)\n\n            if queue:\n                self.sendSignal(queue[0], 'NameAcquired', 's', name)\n",
      "            if caller.isConnected:\n                self.sendSignal(caller, 'NameLost', 's', name)\n\n                if queue:\n                    self.sendSignal(queue[0], 'NameAcquired', 's', name)\n")], ['C13.D3'],
    note='round-2 seed: successor of a DISCONNECTED owner is never told')
mut('c13-nameacquired-to-tail', ['C13'], BU,
    [("                self.sendSignal(queue[0], 'NameAcquired', 's', name)\n", "                self.sendSignal(queue[-1], 'NameAcquired', 's', name)\n")], ['C13.D3'])
mut('c15-xml-cache-not-invalidated', ['C15'], IF,
    [("            m.nret = len([a for a in marshal.genCompleteTypes(m.sigOut)])\n        self.methods[m.name] = m\n        self._xml = None\n",
      "            m.nret = len([a for a in marshal.genCompleteTypes(m.sigOut)])\n            self._xml = None\n        self.methods[m.name] = m\n")], ['C15.D5'],
    note='round-2 seed')
mut('c15-delproperty-keeps-cache', ['C15'], IF,
    [("        del self.properties[name]\n        self._xml = None\n", "        del self.properties[name]\n")], ['C15.D5'])
mut('ok-c15-invalidate-first', ['C15'], IF,
    [("        self.signals[s.name] = s\n        self._xml = None\n", "        self._xml = None\n        self.signals[s.name] = s\n")], kind='benign')
mut('c16-children-dedup-last-only', ['C16'], IN,
    [("            if path and path not in matches:\n", "            if path and path not in matches[-1:]:\n")], ['C16.D4'],
    note='round-2 seed')
mut('c17-cache-property-first-interface', ['C17'], OB,
    [("            if obj.interface is None:\n                for iface in self.getInterfaces():\n                    if obj.pname in iface.properties:\n                        obj.interface = iface.name\n                        break\n",
      "            for iface in self.getInterfaces():\n                if obj.pname in iface.properties:\n                    if obj.interface is None:\n                        obj.interface = iface.name\n                    obj.iprop = iface.properties[obj.pname]\n                    break\n"),
     ("            for iface in self.getInterfaces():\n                if obj.interface == iface.name:\n                    obj.iprop = iface.properties[obj.pname]\n                    break\n\n", "")], ['C17.D5'],
    note='round-2 seed')
mut('ok-c17-iprop-lookup-by-name', ['C17'], OB,
    [("            for iface in self.getInterfaces():\n                if obj.interface == iface.name:\n                    obj.iprop = iface.properties[obj.pname]\n                    break\n",
      "            for iface in self.getInterfaces():\n                if iface.name != obj.interface:\n                    continue\n                obj.iprop = iface.properties[obj.pname]\n                break\n")], kind='benign')
mut('c19-dict-same-flag-last-value', ['C19'], M,
    [("            elif not isinstance(v, vtype):\n                same = False\n", "            else:\n                same = isinstance(v, vtype)\n")], ['C19.D2'],
    note='round-2 seed')
mut('c19-list-same-flag-recomputed', ['C19'], M,
    [("        for v in pobj[1:]:\n            if not isinstance(v, vtype):\n                same = False\n", "        for v in pobj[1:]:\n            same = isinstance(v, vtype)\n")], ['C19.D2'])
mut('ok-c19-list-same-all', ['C19'], M,
    [("        same = True\n        for v in pobj[1:]:\n            if not isinstance(v, vtype):\n                same = False\n", "        same = all(isinstance(v, vtype) for v in pobj[1:])\n")], kind='benign')
mut('ok-c19-dict-same-and', ['C19'], M,
    [("            elif not isinstance(v, vtype):\n                same = False\n", "            else:\n                same = same and isinstance(v, vtype)\n")], kind='benign')
mut('c14-noncall-to-bus-forwarded', ['C14'], BU,
    [("            elif not msg.destination == 'org.freedesktop.DBus':\n", "            elif mt == 1 and not msg.destination == 'org.freedesktop.DBus' or mt != 1:\n")], ['C14.D4'],
    note='round-2 seed (condensed): non-call messages addressed to the bus are forwarded')
mut('c20-declared-count-from-signature', ['C20'], MS,
    [("                self.unix_fds = len(oobFDs)\n", "                self.unix_fds = self.signature.count('h')\n")], ['C20.D2'],
    note='round-2 seed: descriptors inside containers are not counted')
mut('c18-unicode-word-class', ['C18'], M,
    [("mbr_re = re.compile('[^A-Za-z0-9_]')", "mbr_re = re.compile(r'\\W')"),
     ("invalid_obj_path_re = re.compile('[^a-zA-Z0-9_/]')", "invalid_obj_path_re = re.compile(r'[^\\w/]')")], ['C18.D1'],
    note='round-2 seed: \\w is Unicode-aware on str patterns')


# ---- behaviour-preserving refactorings written by independent sub-agents -------
# (benign/*.diff, each with a one-line description in the .txt next to it; the
# agents saw only the txdbus source, ran the suite on each, and many also ran a
# differential harness).  Every check must stay silent on every one of them.
from .scope import FILE_PROPS as _FILE_PROPS


def _load_benign_patches():
    import glob
    import os
    import re
    d = os.path.join(os.path.dirname(os.path.dirname(
        os.path.abspath(__file__))), 'benign')
    for p in sorted(glob.glob(os.path.join(d, '*.diff'))):
        text = open(p, encoding='utf-8').read()
        files = sorted(set(re.findall(r'^\+\+\+ b/txdbus/(\S+)', text, re.M)))
        props = sorted({q for f in files for q in _FILE_PROPS.get(f, [])})
        note = ''
        t = p[:-5] + '.txt'
        if os.path.exists(t):
            note = open(t, encoding='utf-8').read().strip()[:200]
        MUTANTS.append({'id': 'ok-' + os.path.basename(p)[:-5],
                        'kind': 'benign', 'props': props, 'file': None,
                        'edits': [], 'expect': [], 'note': note, 'patch': p})


_load_benign_patches()
mut('c19-dict-entry-branch-dropped', ['C19'], M,
    [("        elif c == '{':\n            x = find_end(i + 1, '{', '}')\n            yield compoundSig[i:x + 1]\n            i = x\n\n", "")], ['C19.D3'],
    note='with the dict-entry branch gone "{" is yielded as a one-character type')
twin('c05-prefix-unbounded-signature', ['C05'], ['4e8d468', 'd5d9176'], ['C05.D5'], 'pre-fix twin (the later type test touches the same lines and is reverted too)')

# round-3 seeds as regression mutants ---------------------------------------------
mut('c04-length-guard-before-line-loop', ['C04', 'C06', 'C07'], PR,
    [("            self._buffer = self._buffer + data\n            # Consume one line at a time", "            self._buffer = self._buffer + data\n            if len(self._buffer) > self.MAX_AUTH_LENGTH:\n                return self.authMessageLengthExceeded(self._buffer)\n            # Consume one line at a time")], ['C04.D6', 'C06.D5', 'C07.D7'],
    note='round-3 seed: the line-length limit applied to the whole buffer before the lines are taken out')
mut('c07-cookie-except-narrowed', ['C07'], AU,
    [("            except Exception as e:\n                log.msg('DBUS Cookie authentication failed: ' + str(e))", "            except (ValueError, OSError) as e:\n                log.msg('DBUS Cookie authentication failed: ' + str(e))")], ['C07.D4'],
    note='round-3 seed: a missing cookie id (TypeError) escapes from dataReceived')
mut('c07-cookie-lookup-outside-try', ['C07'], AU,
    [("            try:\n                data = binascii.unhexlify(line.strip())\n\n                cookie_context, cookie_id, server_challenge = data.split()\n\n                server_cookie = self._authGetDBusCookie(\n                    cookie_context,\n                    cookie_id,\n                )\n",
      "            data = binascii.unhexlify(line.strip())\n            cookie_context, cookie_id, server_challenge = data.split()\n            server_cookie = self._authGetDBusCookie(\n                cookie_context,\n                cookie_id,\n            )\n            try:\n")], ['C07.D4'])
mut('c03-reply-serial-not-rewrapped', ['C03'], MS,
    [("                elif attr_name in ('unix_fds', 'reply_serial'):\n", "                elif attr_name in ('unix_fds',):\n")], ['C03.D2'],
    note='round-3 seed')

# round-3 seeds C08-C20 as regression mutants --------------------------------------
mut('c08-empty-reply-skips-signature-check', ['C08', 'C11'], CL,
    [("        if msg is None:\n            return None\n\n        if returnSignature != _NO_CHECK_RETURN:", "        if msg is None or not msg.body:\n            return None\n\n        if returnSignature != _NO_CHECK_RETURN:")], ['C08.D5', 'C11.D4'],
    note='round-3 seed: an empty reply to a call with a declared return signature is delivered as None')
mut('c09-proxy-eq-hash', ['C09'], OB,
    [("    def notifyOnDisconnect(self, callback):\n        \"\"\"\n        Registers a callback that will be called when the DBus connection",
      "    def __eq__(self, other):\n        return isinstance(other, RemoteDBusObject) and (self.busName, self.objectPath) == (other.busName, other.objectPath)\n\n    def __hash__(self):\n        return hash((self.busName, self.objectPath))\n\n    def notifyOnDisconnect(self, callback):\n        \"\"\"\n        Registers a callback that will be called when the DBus connection")], ['C09.D5'],
    note='round-3 seed: equal proxies collapse in the WeakSet registry')
mut('c11-explicit-interface-replaced-by-known', ['C11'], OB,
    [("                if isinstance(i, interface.DBusInterface):\n                    ifl.append(i)\n", "                if isinstance(i, interface.DBusInterface):\n                    ifl.append(interface.DBusInterface.knownInterfaces.get(i.name, i))\n")], ['C11.D3'],
    note='round-3 seed (condensed)')
mut('c14-cleanup-only-after-hello', ['C14', 'C13'], BU,
    [("        if self.bus is not None:\n            self.bus.clientDisconnected(self)", "        if self.bus is not None and self._called_hello:\n            self.bus.clientDisconnected(self)")], ['C14.D2'],
    note='round-3 seed')
mut('c19-dbussignature-on-type-only', ['C19'], M,
    [("getattr(pobj, 'dbusSignature', None)", "getattr(type(pobj), 'dbusSignature', None)")], ['C19.D2'],
    note='round-3 seed')
mut('c20-struct-drops-oobfds', ['C20', 'C01'], M,
    [("    return unmarshal(ct[1:-1], data, offset, lendian, oobFDs)\n", "    return unmarshal(ct[1:-1], data, offset, lendian)\n")], ['C20.D2', 'C01.D7'],
    note='round-3 seed: a descriptor inside a struct / dict entry resolves against no list')
mut('c18-word-boundary-digit', ['C18'], M,
    [("dot_digit_re = re.compile(r'\\.\\d')", "dot_digit_re = re.compile(r'\\b\\d')")], ['C18.D1'],
    note='round-3 seed (regex half): a digit after a hyphen is rejected in bus names')
mut('c05-signed-string-length', ['C05'], M,
    [("    slen = struct.unpack_from(lendian and '<I' or '>I', data, offset)[0]\n    s = codecs.decode(data[offset + 4: offset + 4 + slen], 'utf-8')",
      "    slen = struct.unpack_from(lendian and '<i' or '>i', data, offset)[0]\n    s = codecs.decode(data[offset + 4: offset + 4 + slen], 'utf-8')")], ['C05.D1'],
    note='round-3 seed (condensed): a signed length makes the reported size negative and the array loop run backwards')

# round-4 seeds as regression mutants ----------------------------------------------
mut('c09-dccallbacks-detached', ['C09'], CL,
    [("            for cb in list(self._dcCallbacks):\n                cb(self, reason)", "            callbacks, self._dcCallbacks = self._dcCallbacks, []\n            for cb in callbacks:\n                cb(self, reason)")], ['C09.D3'],
    note='round-4 seed: the registry is emptied before the callbacks run while cancelNotifyOnDisconnect removes unguarded')
mut('ok-c09-dccallbacks-detached-and-tolerant', ['C09'], CL,
    [("            for cb in list(self._dcCallbacks):\n                cb(self, reason)", "            callbacks, self._dcCallbacks = self._dcCallbacks, []\n            for cb in callbacks:\n                cb(self, reason)"),
     ("        self._dcCallbacks.remove(callback)", "        if callback in self._dcCallbacks:\n            self._dcCallbacks.remove(callback)")], kind='benign',
    note='detaching is fine when cancelling an absent callback is harmless')
mut('c11-searchcache-falls-into-any-interface', ['C10', 'C11', 'C17'], OB,
    [("            if interfaceName:\n                if interfaceName in cache:\n                    d = getattr(cache[interfaceName], cacheAttr)\n                    if key in d:\n                        return d[key]\n",
      "            if interfaceName and interfaceName in cache:\n                d = getattr(cache[interfaceName], cacheAttr)\n                if key in d:\n                    return d[key]\n")], ['C10.D6', 'C11.D4', 'C17.D4'],
    note='round-4 seed: a named lookup falls into the any-interface search')

# round-5 seeds as regression mutants ----------------------------------------------
mut('c02-string-size-counts-characters', ['C02', 'C01'], M,
    [("    s = codecs.decode(data[offset + 4: offset + 4 + slen], 'utf-8')\n    return 4 + slen + 1, s", "    s = codecs.decode(data[offset + 4: offset + 4 + slen], 'utf-8')\n    return 4 + len(s) + 1, s")], ['C02.D4', 'C01.D3'],
    note='round-5 seed: non-ASCII strings are followed by misread data')
mut('c03-hcode-tuple-indexerror', ['C03'], MS,
    [("_hcode = {\n    1: 'path',\n    2: 'interface',\n    3: 'member',\n    4: 'error_name',\n    5: 'reply_serial',\n    6: 'destination',\n    7: 'sender',\n    8: 'signature',\n    9: 'unix_fds',\n}",
      "_hcode = (None, 'path', 'interface', 'member', 'error_name', 'reply_serial',\n          'destination', 'sender', 'signature', 'unix_fds')")], ['C03.D3'],
    note='round-5 seed: an unknown field code now raises IndexError past `except KeyError`')
mut('ok-c03-hcode-tuple-lookuperror', ['C03'], MS,
    [("_hcode = {\n    1: 'path',\n    2: 'interface',\n    3: 'member',\n    4: 'error_name',\n    5: 'reply_serial',\n    6: 'destination',\n    7: 'sender',\n    8: 'signature',\n    9: 'unix_fds',\n}",
      "_hcode = (None, 'path', 'interface', 'member', 'error_name', 'reply_serial',\n          'destination', 'sender', 'signature', 'unix_fds')"),
     ("        except KeyError:\n            pass", "        except (LookupError, TypeError):\n            pass")], kind='benign',
    note='the same table as a tuple WITH a handler that catches its exceptions: code 0 -> setattr(m, None) TypeError is caught too')
mut('c04-body-decoded-with-class-endian', ['C04', 'C03'], MS,
    [("            m.rawBody,\n            lendian=lendian,", "            m.rawBody,\n            lendian=m.endian == ord('l'),")], ['C04.D1', 'C03.D4'],
    note='round-5 seed')
mut('c05-signed-be-string-length', ['C05'], M,
    [("    slen = struct.unpack_from(lendian and '<I' or '>I', data, offset)[0]\n    s = codecs.decode(data[offset + 4: offset + 4 + slen], 'utf-8')", "    slen = struct.unpack_from(lendian and '<I' or '>i', data, offset)[0]\n    s = codecs.decode(data[offset + 4: offset + 4 + slen], 'utf-8')")], ['C05.D1'],
    note='round-5 seed: signed only in big-endian')
mut('c08-serial-wraps-at-28-bits', ['C08', 'C03'], MS,
    [("            DBusMessage._nextSerial += 1\n", "            DBusMessage._nextSerial = (self.serial + 1) & 0xFFFFFFF or 1\n")], ['C08.D4', 'C03.D5'],
    note='round-5 seed: serials repeat after 2**28 messages')
mut('c13-busnames-class-level', ['C13', 'C14'], BU,
    [("        self.busNames = {}  # name => allow_replacement\n", ""),
     ("    _called_hello = False\n    bus = None\n", "    _called_hello = False\n    bus = None\n    busNames = {}\n")], ['C13.D4', 'C14.D2'],
    note='round-5 seed: one allow-replacement table shared by all connections')
mut('c16-shared-default-exports', ['C16', 'C09'], OB,
    [("    def __init__(self, connection):\n        \"\"\"\n        @type connection: L{client.DBusClientConnection} or L{bus.Bus}", "    def __init__(self, connection, exports={}):\n        \"\"\"\n        @type connection: L{client.DBusClientConnection} or L{bus.Bus}"),
     ("        self.exports = {}  # map object paths => obj", "        self.exports = exports  # map object paths => obj")], ['C16.D1', 'C09.D6'],
    note='round-5 seed: one export table for every handler built without the argument')
mut('c19-signature-255-rejected', ['C19', 'C02'], M,
    [("def marshal_signature(ct, var, start_byte, lendian, oobFDs):\n", "def marshal_signature(ct, var, start_byte, lendian, oobFDs):\n    if len(var) >= 255:\n        raise MarshallingError('Signature exceeds maximum length of 255')\n")], ['C19.D6', 'C02.D4'],
    note='round-5 seed: off by one, the longest valid signature is refused')
mut('ok-c19-signature-over-255-rejected', ['C19', 'C02'], M,
    [("def marshal_signature(ct, var, start_byte, lendian, oobFDs):\n", "def marshal_signature(ct, var, start_byte, lendian, oobFDs):\n    if len(var) > 255:\n        raise MarshallingError('Signature exceeds maximum length of 255')\n")], kind='benign',
    note='an explicit guard with the right bound (struct would raise anyway)')


# ---- round 6 (order / repetition / re-entrancy) ------------------------------------
twin('c09-prefix-call-after-loss', ['C09', 'C08'], '392c9ee', ['C09.D3', 'C08.D2'],
     'pre-fix twin: a call issued while/after connectionLost ran was registered and never failed')
mut('c09-loss-recorded-after-callouts', ['C09'], CL,
    [("        # from here on a new call can get no reply: callRemoteMessage fails it\n        self._lostReason = reason\n\n", ""),
     ("        if established:\n            self.objHandler.connectionLost(reason)", "        self._lostReason = reason\n        if established:\n            self.objHandler.connectionLost(reason)")],
    ['C09.D3'], note='the loss is recorded only after the callbacks and errbacks ran')
mut('c08-lost-call-still-registered', ['C08', 'C09'], CL,
    [("            if self._lostReason is not None:", "            if self._lostReason is not None and not self.busName:")],
    ['C08.D2', 'C09.D3'])
mut('c11-swapped-positional-roles', ['C11'], OB,
    [("        d = self.conn.introspectRemoteObject(\n            busName,\n            objectPath,", "        d = self.conn.introspectRemoteObject(\n            objectPath,\n            busName,")],
    ['C11.D1'], note='two arguments swapped at a positional call site')
mut('ok-c11-keyword-roles', ['C11'], OB,
    [("        d = self.conn.introspectRemoteObject(\n            busName,\n            objectPath,\n            replaceKnownInterfaces,", "        d = self.conn.introspectRemoteObject(\n            objectPath=objectPath,\n            busName=busName,\n            replaceKnownInterfaces=replaceKnownInterfaces,")],
    kind='benign')
mut('c18-lenient-wrapper', ['C18', 'C03'], M,
    [("def validateBusName(n):", "@_lenient\ndef validateBusName(n):"),
     ("def validateObjectPath(p):", "def _lenient(validator):\n    def wrapper(n):\n        try:\n            validator(n)\n        except MarshallingError:\n            if not n.startswith(':'):\n                raise\n    return wrapper\n\n\ndef validateObjectPath(p):")],
    ['C18.DM'], note='a decorator swallows the validator\'s verdict for unique names')
mut('ok-c08-timeout-pop-tolerant', ['C08'], CL,
    [("        del self._pendingCalls[serial]\n        d.errback(error.TimeOut('Method call timed out'))",
      "        self._pendingCalls.pop(serial, None)\n        d.errback(error.TimeOut('Method call timed out'))")], kind='benign')
mut('c13-remove-after-head-append-form', ['C13', 'C14'], BU,
    [("                    if caller in queue:\n                        # it was waiting for the name: no second entry\n                        queue.remove(caller)\n                    del queue[0]\n                    queue.insert(0, caller)",
      "                    del queue[0]\n                    queue.insert(0, caller)\n                    if queue.count(caller) > 1:\n                        queue.remove(caller)")],
    ['C13.D4', 'C14.D3'], note='the old waiting entry is removed after the head insert: list.remove drops the head')

# ---- round 7 (Python pitfalls) -------------------------------------------------------
twin('c05-prefix-signature-not-a-string', ['C05'], '4e8d468', ['C05.D5'],
     'pre-fix twin: a SIGNATURE field holding an array passed the length guard')
twin('c06-prefix-cookie-deleted-twice', ['C06'], '13cf9ea', ['C06.D2'],
     'pre-fix twin: the reject path deleted the cookie a second time')
mut('c07-command-word-lowercased', ['C07', 'C06'], AU,
    [("        m = getattr(self, '_auth_' + cmd.decode(), None)\n        if m:\n            m(args)\n        else:\n            raise DBusAuthenticationFailed(",
      "        m = getattr(self, '_auth_' + cmd.decode().upper(), None)\n        if m:\n            m(args)\n        else:\n            raise DBusAuthenticationFailed(")],
    ['C07.D5'], note='case-insensitive commands: "ok <guid>" is taken for OK')
mut('c10-search-loop-variable', ['C10'], OB,
    [("        for x in o.getInterfaces():\n            if msg.interface:\n                if x.name == msg.interface:\n                    i = x\n                    break\n            else:\n                if msg.member in x.methods:\n                    i = x\n                    break\n",
      "        for i in o.getInterfaces():\n            if msg.interface:\n                if i.name == msg.interface:\n                    break\n            elif msg.member in i.methods:\n                break\n")],
    ['C10.DP'], note='no match leaves the last interface in i')
mut('ok-c10-search-loop-for-else', ['C10'], OB,
    [("        for x in o.getInterfaces():\n            if msg.interface:\n                if x.name == msg.interface:\n                    i = x\n                    break\n            else:\n                if msg.member in x.methods:\n                    i = x\n                    break\n",
      "        for i in o.getInterfaces():\n            if msg.interface:\n                if i.name == msg.interface:\n                    break\n            elif msg.member in i.methods:\n                break\n        else:\n            i = None\n")],
    kind='benign', note='search loop on the loop variable itself, with for-else')
mut('c17-getall-skips-none-values', ['C17', 'C16'], OB,
    [("                v = getattr(self, p.attr_name)\n                if p.iprop.sig in marshal.variantClassMap:\n                    v = marshal.variantClassMap[p.iprop.sig](v)\n                r[p.pname] = v",
      "                v = getattr(self, p.attr_name)\n                if v is None:\n                    return\n                if p.iprop.sig in marshal.variantClassMap:\n                    v = marshal.variantClassMap[p.iprop.sig](v)\n                r[p.pname] = v")],
    ['C17.D1', 'C16.D3'], note='a readable property is left out depending on its value')

# ---- round 8 -------------------------------------------------------------------------
mut('c19-float-inferred-as-boolean', ['C19'], M,
    [("    elif isinstance(pobj, float):\n        return 'd'", "    elif isinstance(pobj, float):\n        return 'b'")],
    ['C19.D2'], note='a basic Python type inferred as the code of another D-Bus type')
mut('c20-queue-reset-on-connection-authenticated', ['C20'], PR,
    [("        self._authenticated = True\n        self.connectionAuthenticated()", "        self._authenticated = True\n        self._receivedFDs = []\n        self.connectionAuthenticated()")],
    ['C20.D3'])
mut('c12-cancel-forgets-only-on-reply', ['C12'], OB,
    [("            self.objHandler.conn.delMatch(rule_id)\n            self._signalRules.remove(rule_id)",
      "            self.objHandler.conn.delMatch(rule_id).addCallback(\n                lambda _: self._signalRules.discard(rule_id))")],
    ['C12.D5'])
mut('ok-c12-cancel-forget-first', ['C12'], OB,
    [("            self.objHandler.conn.delMatch(rule_id)\n            self._signalRules.remove(rule_id)",
      "            self._signalRules.discard(rule_id)\n            self.objHandler.conn.delMatch(rule_id)")],
    kind='benign')
mut('c08-timeout-keeps-entry-when-called', ['C08', 'C09'], CL,
    [("        del self._pendingCalls[serial]\n        d.errback(error.TimeOut('Method call timed out'))",
      "        if d.called:\n            return\n        del self._pendingCalls[serial]\n        d.errback(error.TimeOut('Method call timed out'))")],
    ['C08.D3', 'C09.D3'])
# ---- the seeded changes of independent sub-agents (seeded/<id>/patch.diff) as break entries:
# each must make the check of the property it was written against exit 1
def _load_seeds():
    import glob
    import os
    import re
    d = os.path.join(os.path.dirname(os.path.dirname(
        os.path.abspath(__file__))), 'seeded')
    for p in sorted(glob.glob(os.path.join(d, '*', 'patch.diff'))):
        sid = os.path.basename(os.path.dirname(p))
        m = re.match(r'(C\d\d)-', sid)
        if not m:
            continue
        MUTANTS.append({'id': 'seed-' + sid, 'kind': 'break',
                        'props': [m.group(1)], 'file': None, 'edits': [],
                        'expect': [], 'note': 'seeded by a sub-agent',
                        'patch': p})


_load_seeds()
mut('c03-undefined-name-in-constructor', ['C03', 'C08', 'C10', 'C14', 'C18', 'C20'], MS,
    [("        self.path = path\n        self.member = member\n        self.interface = interface\n        self.destination = destination\n        self.signature = signature\n        self.body = body\n\n        self._marshal()\n\n\n_mtype",
      "        self.path = path\n        self.member = member\n        self.interface = interface\n        self.destination = destination\n        self.signature = signature\n        self.body = body\n        if sender is not None:\n            self.sender = sender\n\n        self._marshal()\n\n\n_mtype")], ['C03.D0'],
    note='a mis-merged hunk: SignalMessage.__init__ has no parameter `sender`')
