"""Unresolvable names: a name read in a function that is neither a local, a
parameter, a variable of an enclosing function, a module-level name nor a
builtin raises NameError on every path that reaches it.  Decided exactly from
CPython's own scope analysis (symtable); no heuristics."""
import builtins
import symtable

_BUILTINS = set(dir(builtins)) | {'__file__', '__name__', '__doc__',
                                  '__package__', '__spec__', '__loader__',
                                  '__builtins__', '__debug__', '__path__'}


def unresolvable_names(src, filename):
    """[(function qualname within the module, name, lineno of the scope)]"""
    top = symtable.symtable(src, filename, 'exec')
    module_names = {s.get_name() for s in top.get_symbols()
                    if s.is_assigned() or s.is_imported() or
                    s.is_namespace() or s.is_parameter()}
    star = any(s.get_name() == '*' for s in top.get_symbols())
    out = []

    def walk(tab, qual):
        for child in tab.get_children():
            q = '%s.%s' % (qual, child.get_name()) if qual else \
                child.get_name()
            if child.get_type() in ('function', 'class'):
                for s in child.get_symbols():
                    n = s.get_name()
                    if not s.is_referenced():
                        continue
                    if s.is_global() and not s.is_declared_global() or \
                            (s.is_global() and s.is_declared_global()
                             and not s.is_assigned()):
                        if n not in module_names and n not in _BUILTINS \
                                and not star:
                            out.append((q, n, child.get_lineno()))
            walk(child, q)
    walk(top, '')
    return out
