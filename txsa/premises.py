"""Premises: clauses decided for ANOTHER property that a property rests on.

The behaviour a property describes is produced by several modules; the file a
property is "about" calls into collaborators (the codec, the message
classes, the validators, the router, the interface model).  A change in a
collaborator that breaks it for some inputs breaks every property built on
it - without touching the file a reviewer would look at.  Round 11 of the
seeding experiment made exactly such changes: 2 of 20 were reported under
the seeded property's own id, 13 more only under the collaborator's.

Each entry names the clauses of the collaborator's check that are NECESSARY
for the property (not "related": if the clause fails, there are inputs for
which the property's statement fails), with the reason.  They are re-run on
the current tree and re-reported as <pid>.DX (slot = original rule and
slot), so that a verdict about a property does not silently assume that its
collaborators are intact.
"""
import importlib

from .loader import AnalysisError

CODEC = ('c01', lambda r, w, s: r.startswith('C01.'),
         'what the message carries is what was passed in: values are encoded '
         'and decoded by marshal.py (the round-trip clauses of C01)')

PREMISES = {
    'C01': [('c19', lambda r, w, s: r == 'C19.D2',
             'the content of a variant is encoded under the signature '
             'inferred for it: every conforming value must get one it can be '
             'encoded under (C19.D2)')],
    'C02': [('c03', lambda r, w, s: r == 'C03.D4' or s in (
        'unknown-code-skips-one-field', 'field-loop-visits-every-field'),
             'a message on the wire is header + padding + body, both in the '
             'byte order its first byte announces (C03.D4); a conformant '
             'message of another implementation may carry header fields '
             'this one does not know, and decodes all the same (C03.D3)')],
    'C03': [CODEC,
            ('c18', lambda r, w, s: r == 'C18.D1',
             'the constructors refuse invalid names through validators that '
             'accept exactly the grammar (C18.D1)')],
    'C04': [CODEC],
    'C08': [CODEC,
            ('c04', lambda r, w, s: r in ('C04.D1', 'C04.D2', 'C04.D3'),
             'a reply completes its call only if it is framed and delivered '
             'whatever the reads look like (C04.D1-D3)')],
    'C09': [('c03', lambda r, w, s: s in (
        'unknown-code-skips-one-field', 'field-loop-visits-every-field',
        'byte-order-from-first-byte', 'body-decoded-under-signature'),
        'connect() concludes through the parsed Hello reply: its body and '
        'reply serial are read whatever other header fields the bus sends '
        '(reader clauses of C03.D3/D4)')],
    'C10': [CODEC,
            ('c18', lambda r, w, s: r == 'C18.D1' and
             w.endswith('validateErrorName'),
             'an exception is answered under its own error name only if '
             'that is a valid one, org.txdbus.InvalidErrorName otherwise: '
             'the dispatcher asks validateErrorName, which must accept '
             'exactly the names an ErrorMessage can carry (C18.D1)'),
            ('c15', lambda r, w, s: r == 'C15.D4',
             'the dispatcher checks calls against the interface objects the '
             'exported object declares: parsing somebody else\'s XML must '
             'create or reuse definitions, never rewrite them (C15.D4)')],
    'C11': [CODEC,
            ('c15', lambda r, w, s: r == 'C15.D5' and
             s.startswith('drops-cached-xml'),
             'a proxy discovered by introspection is built from the XML the '
             'exporter serves: every change of the declared members must '
             'drop the cached document (C15.D5)')],
    'C12': [CODEC],
    'C13': [('c12', lambda r, w, s: s in (
        'registration-key-never-reused', 'returns-registration-key',
        'removes-from-iterated-table'),
        'a disconnecting client is removed through the ids of its match '
        'rules before its names are released: an id that is reused or '
        'missing makes that removal raise and the names stay (C12.D5)')],
    'C14': [CODEC],
    'C15': [('c11', lambda r, w, s: r == 'C11.D1' and s.startswith('role:')
             and 'ntrospect' in s,
             'the caller\'s replaceKnownInterfaces flag reaches the XML '
             'parser under that name (C11.D1 name/role agreement on the '
             'introspection path)')],
    'C16': [CODEC,
            ('c10', lambda r, w, s: r == 'C10.D1' or (
                r == 'C10.D3' and s.startswith('guard:object-exported')),
             'what a peer sees of the tree are the dispatcher\'s answers: '
             'every way out of it sends exactly one reply - UnknownObject '
             'included (C10.D1) - and "exported" is decided by presence in '
             'the table, not by the truth value of the object (C10.D3)')],
    'C17': [CODEC,
            ('c19', lambda r, w, s: r == 'C19.D2',
             'PropertiesChanged carries the raw value as a variant: the type '
             'inferred for it must be one the value can be encoded under '
             '(C19.D2)')],
    'C19': [('c17', lambda r, w, s: r == 'C17.D3',
             'a wrapper class selects its D-Bus type whatever the value: '
             'Get wraps exactly when the declared type is in the table '
             '(C17.D3)')],
    'C20': [CODEC],
}


def run_premises(ctx, pid):
    n = 0
    for modname, flt, why in PREMISES.get(pid, ()):
        mod = importlib.import_module('txsa.rules.' + modname)

        class _Sub:
            prog = ctx.prog
            tier = ctx.tier
            extra = {}

            def ob(self, rule, where, slot, ok, msg, detail=None,
                   nontrivial=True, loc=None, _flt=flt, _why=why):
                nonlocal n
                if rule.split('.')[0] != pid and _flt(rule, where, slot):
                    n += 1
                    ctx.ob('%s.DX' % pid, where, '%s:%s' % (rule, slot), ok,
                           '[premise of %s: %s] %s' % (pid, _why, msg),
                           detail, nontrivial, loc)
                return ok

            def floor(self, *a):
                pass

            def advisory(self, *a):
                pass
        try:
            mod.run(_Sub())
        except AnalysisError as e:
            if not ctx.failed():
                raise AnalysisError('premise %s of %s: %s'
                                    % (modname.upper(), pid, e))
    ctx.extra['premise_obligations'] = n
    return n
