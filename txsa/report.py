"""Findings, obligations, known-finding matching, evidence and replay files."""
import json
import os
import re
import time

VERIF = os.path.dirname(os.path.dirname(os.path.abspath(__file__)))
EVIDENCE_DIR = os.path.join(VERIF, 'evidence')
REPLAY_DIR = os.path.join(EVIDENCE_DIR, 'replay')
KNOWN_FILE = os.path.join(VERIF, 'known_findings.txt')


class Obligation:
    __slots__ = ('rule', 'where', 'slot', 'ok', 'msg', 'detail', 'nontrivial',
                 'loc')

    def __init__(self, rule, where, slot, ok, msg, detail, nontrivial, loc):
        self.rule = rule
        self.where = where
        self.slot = slot
        self.ok = ok
        self.msg = msg
        self.detail = detail
        self.nontrivial = nontrivial
        self.loc = loc

    @property
    def key(self):
        return '%s|%s|%s' % (self.rule, self.where, self.slot)

    def as_dict(self):
        d = {'key': self.key, 'rule': self.rule, 'where': self.where,
             'slot': self.slot, 'verdict': 'holds' if self.ok else 'FAILS',
             'what': self.msg}
        if self.loc:
            d['location'] = self.loc
        if self.detail is not None:
            d['detail'] = self.detail
        return d


class Ctx:
    """Collects the obligations of one property check."""

    def __init__(self, pid, tier, prog, seed=0):
        self.pid = pid
        self.tier = tier
        self.prog = prog
        self.seed = seed
        self.obs = []
        self.advisories = []
        self.undecided = []
        self.extra = {}
        self.floors = {}     # rule -> minimum number of instances
        self.t0 = time.time()

    def ob(self, rule, where, slot, ok, msg, detail=None, nontrivial=True,
           loc=None):
        """Record one obligation instance.  rule like 'C08.D3'; where is a
        qualified name; slot a short semantic slot name."""
        if loc is None and isinstance(where, str) and \
                where in self.prog.all_funcs:
            loc = self.prog.all_funcs[where].where()
        o = Obligation(rule, where, slot, bool(ok), msg, detail, nontrivial,
                       loc)
        self.obs.append(o)
        return o.ok

    def floor(self, rule, n):
        self.floors[rule] = n

    def advisory(self, msg):
        self.advisories.append(msg)

    def failed(self):
        return [o for o in self.obs if not o.ok]


def load_known():
    """-> (known: {pid: {key: text}}, fixed: [lines])"""
    known, fixed = {}, []
    if not os.path.exists(KNOWN_FILE):
        return known, fixed
    with open(KNOWN_FILE, encoding='utf-8') as f:
        for line in f:
            line = line.strip()
            if not line or line.startswith('#'):
                continue
            m = re.match(r'known:\s+property=(\S+)\s+key=(\S+)\s*::\s*(.*)$',
                         line)
            if m:
                known.setdefault(m.group(1), {})[m.group(2)] = m.group(3)
                continue
            if line.startswith('fixed:'):
                fixed.append(line)
    return known, fixed


def builtin_validate(ev):
    """Structural check of the evidence record against EVIDENCE.schema.json
    (used when jsonschema is not importable)."""
    for k in ('property_id', 'tier', 'seed', 'level', 'coverage', 'wall_s'):
        if k not in ev:
            raise ValueError('evidence lacks %s' % k)
    if ev['tier'] not in ('quick', 'thorough'):
        raise ValueError('tier')
    if not isinstance(ev['seed'], int):
        raise ValueError('seed')
    cov = ev['coverage']
    lvl = ev['level']
    if lvl == 'proof':
        if not (cov.get('obligations', 0) >= 1 and cov.get('discharged', 0)
                >= 1 and cov.get('checker_cmd', '').strip() and
                isinstance(cov.get('trusted_base'), list)):
            raise ValueError('proof keys')
    elif lvl == 'other':
        if not str(cov.get('explanation', '')).strip():
            raise ValueError('explanation')
    else:
        raise ValueError('level %s not used by this framework' % lvl)
    if not isinstance(cov.get('samples', []), list):
        raise ValueError('samples')


def validate_evidence(ev):
    try:
        import jsonschema
        schema_path = '/root/.vp/EVIDENCE.schema.json'
        if os.path.exists(schema_path):
            with open(schema_path) as f:
                jsonschema.validate(ev, json.load(f))
            return 'jsonschema'
    except ImportError:
        pass
    builtin_validate(ev)
    return 'builtin'


def finish(ctx, meta, cmdline):
    """Match known findings, write evidence / replay files, print verdict
    lines, return exit code."""
    known, fixed = load_known()
    kmap = known.get(ctx.pid, {})
    failed = ctx.failed()
    unlisted = [o for o in failed if o.key not in kmap]
    listed = [o for o in failed if o.key in kmap]
    # floors: a rule that matched fewer instances than confirmed by hand is
    # an analysis error, not a pass
    from .loader import AnalysisError
    counts = {}
    for o in ctx.obs:
        counts[o.rule] = counts.get(o.rule, 0) + 1
    for rule, n in ctx.floors.items():
        if counts.get(rule, 0) < n and not unlisted:
            raise AnalysisError(
                'rule %s matched %d instance(s), floor is %d - the rule lost '
                'its anchors' % (rule, counts.get(rule, 0), n))
    replay_dir = REPLAY_DIR
    if os.environ.get('TXSA_EVIDENCE_OUT'):
        replay_dir = os.path.join(os.path.dirname(
            os.environ['TXSA_EVIDENCE_OUT']), 'replay')
    os.makedirs(replay_dir, exist_ok=True)
    seen_keys = set()
    replay_paths = []
    for i, o in enumerate(unlisted):
        if o.key in seen_keys:
            continue
        seen_keys.add(o.key)
        safe = re.sub(r'[^A-Za-z0-9_.-]+', '_', o.key)[:120]
        rp = os.path.join(replay_dir, '%s-%s.json' % (ctx.pid, safe))
        with open(rp, 'w') as f:
            json.dump({'property': ctx.pid, 'finding': o.as_dict(),
                       'replay': './check %s --replay %s' % (ctx.pid, rp),
                       'tree': ctx.prog.root,
                       'digests': ctx.prog.digests()}, f, indent=1,
                      default=repr)
        replay_paths.append((o, rp))
    distinct_keys = {o.key for o in ctx.obs}
    nontrivial = {o.key for o in ctx.obs if o.nontrivial}
    rules = sorted({o.rule for o in ctx.obs})
    samples = []
    per_rule = {}
    for o in ctx.obs:
        per_rule.setdefault(o.rule, []).append(o)
    for r in rules:
        for o in per_rule[r][:3]:
            samples.append(o.as_dict())
    for o in failed:
        d = o.as_dict()
        d['known_finding'] = o.key in kmap
        if d not in samples:
            samples.append(d)
    level = meta['level']
    cov = {
        'obligations': len(ctx.obs),
        'discharged': len([o for o in ctx.obs if o.ok]),
        'evaluations': len(ctx.obs),
        'distinct_nontrivial': len(nontrivial),
        'rule': meta.get('rule_text', ''),
        'samples': samples,
        'explanation': meta.get('explanation', ''),
        'checker_cmd': cmdline,
        'trusted_base': meta.get('trusted_base', []),
        'exhaustive': True,
        'rules': {r: {'instances': len(per_rule[r]),
                      'failing': len([o for o in per_rule[r] if not o.ok])}
                  for r in rules},
        'decided_clauses': ['D0 no unresolvable name in the modules the '
                            'property is anchored in (NameError on a path)',
                            'DM module-level state written at run time is a '
                            'sound memo (key-complete, nothing remembered on '
                            'a failing path, entries never changed) and '
                            'package decorators are transparent, for the '
                            'functions reachable from the property\'s entry '
                            'points',
                            'DP no search-loop variable read after an '
                            'unguarded loop, no stale snapshot of self.X in '
                            'a loop that rebinds it, no mutable bound to two '
                            'targets, no container shared between instances '
                            '/ calls, on the same functions',
                            'DX the clauses of other properties that this '
                            'one rests on (txsa/premises.py), re-run and '
                            're-reported']
        + list(meta.get('decided', [])),
        'undecided_clauses': meta.get('undecided', []),
        'advisories': ctx.advisories,
        'known_findings_matched': [o.key for o in listed],
        'unlisted_violations': [o.key for o in unlisted],
        'source_digests': ctx.prog.digests(),
        'tree': ctx.prog.root,
    }
    cov.update(ctx.extra)
    ev = {
        'property_id': ctx.pid,
        'tier': ctx.tier,
        'seed': ctx.seed,
        'level': level,
        'coverage': cov,
        'assumptions': meta.get('assumptions', []),
        'wall_s': round(time.time() - ctx.t0, 3),
        'violations': len(seen_keys),
    }
    how = validate_evidence(ev)
    ev['coverage']['evidence_validated_by'] = how
    os.makedirs(EVIDENCE_DIR, exist_ok=True)
    out = os.environ.get('TXSA_EVIDENCE_OUT') or os.path.join(
        EVIDENCE_DIR, '%s.json' % ctx.pid)
    with open(out, 'w') as f:
        json.dump(ev, f, indent=1, sort_keys=True, default=repr)
    print('%s tier=%s: %d obligation instance(s) over %d rule(s), %d hold, '
          '%d fail (%d listed as known finding)' % (
              ctx.pid, ctx.tier, len(ctx.obs), len(rules),
              cov['discharged'], len(failed), len(listed)))
    for a in ctx.advisories:
        print('ADVISORY: %s' % a)
    done = set()
    for o in listed:
        if o.key in done:
            continue
        done.add(o.key)
        print('KNOWN-FINDING: property=%s %s %s' % (ctx.pid, o.key,
                                                    kmap[o.key]))
    for o, rp in replay_paths:
        print('FINDING %s at %s: %s' % (o.key, o.loc or o.where, o.msg))
        if o.detail is not None:
            print('    detail: %s' % (json.dumps(o.detail, default=str)[:600]))
        print('VIOLATION property=%s replay=%s' % (ctx.pid, rp))
    return 1 if unlisted else 0
