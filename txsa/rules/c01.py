"""C01 - encode/decode round trip: sibling agreement of the two codec halves.

Decided (see DESIGN.md C01): D1 table agreement, D2 format agreement, D3 size
agreement, D4 chunk/size consistency, D5 pad-before-dispatch, D6 array
accounting, D7 traversal/threading.  Not decided: value equality.
"""
import ast
import struct

from .. import spec
from ..codec import CodecModel, pack_call, unpack_call
from ..loader import AnalysisError
from ..sym import C, NONE, contains, is_const, kind, term_str, walk_term
from . import codec_rules as R
from .codec_rules import P, aff, aff_eq, ret_paths, split_ret, strip_sites

META = {
    'level': 'other',
    'rule_text': 'Rule instances are per (type code x byte order x return '
                 'path) of the encoder/decoder pair resolved through the '
                 'marshallers/unmarshallers tables; an instance is '
                 'non-trivial when it compares two extracted terms (formats, '
                 'affine sizes, positions) rather than a table key.',
    'explanation': 'Sibling cross-check of the two halves of the codec, '
                   'extracted by abstract interpretation of txdbus/marshal.py '
                   '(term domain, loops summarised as star terms): same key '
                   'sets, same struct formats per byte order, same affine '
                   'size forms, chunk bytes == reported size on every return '
                   'path, pad[K](pos) before every dispatch on K with the '
                   'padding added to the position, array length == exactly '
                   'the in-loop advance of the position, recursive calls '
                   'thread position and byte order. Round-trip correctness '
                   'follows from these local agreements by structural '
                   'induction on the type grammar (on paper); value equality '
                   'itself is NOT decided.',
    'trusted_base': ['CPython ast', 'struct.calcsize', 'txsa.sym interpreter',
                     'struct.pack/unpack_from inverse for equal formats'],
    'assumptions': [
        'encoders return (size, chunks) and decoders (size, value): the size '
        'component of a callee is the length of its chunk component',
        'exceptions outside try bodies are not modelled',
    ],
    'decided': ['D1 table agreement', 'D2 format agreement',
                'D3 size agreement', 'D4 chunk/size consistency',
                'D5 pad-before-dispatch', 'D6 array accounting',
                'D7 traversal agreement / threading'],
    'undecided': ['value equality for all conforming values (non-finite '
                  'doubles, dict ordering, wrapper types, dbusOrder objects)'],
}


def elem_key_ok(K, ct):
    K = strip_sites(K)
    a = ('sub', ('sub', ct, ('slice', C(1), NONE, NONE)), C(0))
    b = ('sub', ct, C(1))
    return K in (a, b)


def elem_sig_ok(S, ct):
    return strip_sites(S) == ('sub', ct, ('slice', C(1), NONE, NONE))


def array_encoder(ctx, cm, rule, le, spec_rule=None):
    fi = cm.enc['a']
    tag = 'LE' if le else 'BE'
    ct, start = P(fi, 0), P(fi, 2)
    paths = ret_paths(cm.paths(fi, le))
    if not paths:
        raise AnalysisError('%s has no return path' % fi.qualname)
    for p in paths:
        falsy = p.state.falsy
        size, chunks = split_ret(p)
        if size is None or kind(chunks) != 'list' or not chunks[1]:
            ctx.ob(rule, fi.qualname, 'shape:' + tag, False,
                   'array encoder must return (size, chunks)')
            continue
        items = chunks[1]
        pc = pack_call(items[0][1]) if kind(items[0]) == 'item' else None
        if not pc or len(pc[1]) != 1:
            ctx.ob(rule, fi.qualname, 'length-prefix-first:' + tag, False,
                   'the first chunk of an array must be the packed length; '
                   'found %s' % term_str(items[0])[:160])
            continue
        fmt, L = pc[0], pc[1][0]
        if spec_rule:
            want = ('<' if le else '>') + spec.ARRAY_LEN_FMT
            ctx.ob(spec_rule, fi.qualname, 'length-format:' + tag,
                   fmt == want, 'array length must be packed as %r, is %r'
                   % (want, fmt))
        psize = struct.calcsize(fmt)
        # loop + dispatch
        loops = [ev for ev in R.loops_of(p)
                 if any(kind(c[2]) == 'sub' and R._is_table(c[2][1], cm,
                                                            'enc')
                        for bp in ev[4] for c in bp.calls())]
        if len(loops) != 1:
            ctx.ob(rule, fi.qualname, 'element-loop:' + tag, False,
                   'expected exactly one element loop dispatching through '
                   'marshallers, found %d' % len(loops))
            continue
        ev = loops[0]
        # position accumulator = the loop variable in the dispatch position
        slot = None
        for bp in ev[4]:
            for c in bp.calls():
                if kind(c[2]) == 'sub' and R._is_table(c[2][1], cm, 'enc') \
                        and len(c[3]) >= 3:
                    for t in walk_term(c[3][2]):
                        if kind(t) == 'loopvar':
                            slot = t[2]
                    ok = elem_key_ok(c[2][2], ct) and \
                        elem_sig_ok(c[3][0], ct)
                    ctx.ob(rule, fi.qualname, 'element-type:' + tag, ok,
                           'elements must be dispatched on the first code of '
                           'ct[1:] and handed ct[1:]; key %s, signature %s'
                           % (term_str(c[2][2]), term_str(c[3][0])))
        if slot is None:
            ctx.ob(rule, fi.qualname, 'position-accumulator:' + tag, False,
                   'the position handed to element encoders does not advance '
                   'with the loop')
            continue
        pre, post = ev[5][slot], ev[6][slot]
        adv = aff(('binop', '-', post, pre), falsy)
        la = aff(L, falsy)
        ctx.ob(rule, fi.qualname, 'length=in-loop-advance:' + tag,
               la == adv and bool(adv),
               'the packed array length (%s) must equal exactly the advance '
               'of the position inside the element loop (%s): element bytes '
               'and inter-element padding, but neither the 4 length bytes nor '
               'the padding before the first element'
               % (R.affine_str(la), R.affine_str(adv)))
        # initial padding chunks (between the prefix and the loop part)
        mids = [x for x in items[1:] if kind(x) != 'starseq']
        mid_ok = True
        mid_len = {}
        for x in mids:
            v = x[1] if kind(x) == 'item' else None
            isp = v is not None and kind(v) == 'call' and \
                kind(v[2]) == 'sub' and R._is_table(v[2][1], cm, 'pad') and \
                elem_key_ok(v[2][2], ct) and len(v[3]) == 1 and \
                aff_eq(v[3][0], ('binop', '+', start, C(psize)), falsy)
            if not isp:
                mid_ok = False
            else:
                mid_len = R.add_aff(mid_len, aff(('len', v), falsy))
        ctx.ob(rule, fi.qualname, 'initial-padding:' + tag, mid_ok,
               'the only chunk between the length and the elements may be '
               'pad[element code](start + %d); found %s'
               % (psize, [term_str(x)[:100] for x in mids]))
        # the initial padding must be computed (and applied) even when the
        # chunk is omitted because it is empty: position at loop entry
        want_pre = R.add_aff(aff(('binop', '+', start, C(psize)), falsy),
                             mid_len)
        got_pre = aff(pre, falsy)
        ok = got_pre == want_pre
        if not ok and not mids:
            # empty padding omitted from the chunks: position must still
            # include len(pad) which is 0 on this path
            pads = [c for c in p.calls() if kind(c[2]) == 'sub' and
                    R._is_table(c[2][1], cm, 'pad')]
            for pc_ in pads:
                if aff(('binop', '+', ('binop', '+', start, C(psize)),
                        ('len', pc_)), falsy) == got_pre:
                    ok = True
        ctx.ob(rule, fi.qualname, 'position-at-first-element:' + tag, ok,
               'position at the first element must be start + %d + initial '
               'padding; is %s' % (psize, R.affine_str(got_pre)))
        # padding before first element is decided for the element alignment
        pads = [c for c in p.calls(deep=False) if kind(c[2]) == 'sub' and
                R._is_table(c[2][1], cm, 'pad')]
        ok = any(elem_key_ok(c[2][2], ct) and len(c[3]) == 1 and
                 aff_eq(c[3][0], ('binop', '+', start, C(psize)), falsy)
                 for c in pads)
        ctx.ob(rule, fi.qualname, 'initial-padding-computed:' + tag, ok,
               'pad[element code](start + %d) must be evaluated before the '
               'elements (present even for an empty array)' % psize)


def array_decoder(ctx, cm, rule, le, spec_rule=None):
    fi = cm.dec['a']
    tag = 'LE' if le else 'BE'
    ct, data, start = P(fi, 0), P(fi, 1), P(fi, 2)
    allp = cm.paths(fi, le)
    paths = ret_paths(allp)
    if not paths:
        raise AnalysisError('%s has no return path' % fi.qualname)
    for p in paths:
        falsy = p.state.falsy
        size, val = split_ret(p)
        loops = [ev for ev in R.loops_of(p)
                 if any(kind(c[2]) == 'sub' and R._is_table(c[2][1], cm,
                                                            'dec')
                        for bp in ev[4] for c in bp.calls())]
        if len(loops) == 0:
            # shortcut return (e.g. for an empty array): it must still
            # account for the length word and the padding before the first
            # element, which is present even when the array is empty
            ok = False
            for pc_ in [c for c in p.calls(deep=False)
                        if kind(c[2]) == 'sub' and
                        R._is_table(c[2][1], cm, 'pad') and
                        elem_key_ok(c[2][2], ct) and len(c[3]) == 1]:
                want = ('binop', '+', C(4), ('len', pc_))
                if size is not None and aff_eq(size, want, falsy) and \
                        aff_eq(pc_[3][0], ('binop', '+', start, C(4)),
                               falsy):
                    ok = True
            ctx.ob(rule, fi.qualname, 'shortcut-return-size:' + tag, ok,
                   'a return that decodes no element must still report 4 + '
                   'len(pad[element code](offset + 4)) bytes (the padding '
                   'before the first element is present even in an empty '
                   'array); reports %s' % (
                       R.affine_str(aff(size, falsy)) if size is not None
                       else term_str(p.value)[:120]))
            continue
        if len(loops) != 1:
            ctx.ob(rule, fi.qualname, 'element-loop:' + tag, False,
                   'expected exactly one element loop dispatching through '
                   'unmarshallers, found %d' % len(loops))
            continue
        ev = loops[0]
        # length read
        reads = [unpack_call(c) for c in p.calls(deep=False)]
        reads = [(u, c) for u, c in zip(reads, p.calls(deep=False)) if u]
        if not reads:
            ctx.ob(rule, fi.qualname, 'length-read:' + tag, False,
                   'array decoder does not read a length prefix')
            continue
        (fmt, rdata, roff), rcall = reads[0]
        ok = rdata == data and roff == start
        ctx.ob(rule, fi.qualname, 'length-read-at:' + tag, ok,
               'array length must be read at (data, offset); read at (%s, %s)'
               % (term_str(rdata), term_str(roff)))
        if spec_rule:
            want = ('<' if le else '>') + spec.ARRAY_LEN_FMT
            ctx.ob(spec_rule, fi.qualname, 'length-format:' + tag,
                   fmt == want, 'array length must be read as %r, is %r'
                   % (want, fmt))
        psize = struct.calcsize(fmt)
        dlen = ('sub', rcall, C(0))
        slot = None
        for bp in ev[4]:
            for c in bp.calls():
                if kind(c[2]) == 'sub' and R._is_table(c[2][1], cm, 'dec') \
                        and len(c[3]) >= 3:
                    for t in walk_term(c[3][2]):
                        if kind(t) == 'loopvar':
                            slot = t[2]
                    ok = elem_key_ok(c[2][2], ct) and \
                        elem_sig_ok(c[3][0], ct)
                    ctx.ob(rule, fi.qualname, 'element-type:' + tag, ok,
                           'elements must be dispatched on the first code of '
                           'ct[1:] and handed ct[1:]; key %s, signature %s'
                           % (term_str(c[2][2]), term_str(c[3][0])))
        if slot is None:
            ctx.ob(rule, fi.qualname, 'position-accumulator:' + tag, False,
                   'the offset handed to element decoders does not advance '
                   'with the loop')
            continue
        pre, post = ev[5][slot], ev[6][slot]
        # position at first element = start + 4 + len(pad[K](start+4))
        pads = [c for c in p.calls(deep=False) if kind(c[2]) == 'sub' and
                R._is_table(c[2][1], cm, 'pad') and
                elem_key_ok(c[2][2], ct) and len(c[3]) == 1 and
                aff_eq(c[3][0], ('binop', '+', start, C(psize)), falsy)]
        ok = False
        for pc_ in pads:
            want = ('binop', '+', ('binop', '+', start, C(psize)),
                    ('len', pc_))
            if aff_eq(pre, want, falsy):
                ok = True
        ctx.ob(rule, fi.qualname, 'position-at-first-element:' + tag, ok,
               'offset at the first element must be offset + %d + '
               'len(pad[element code](offset + %d)); is %s' % (
                   psize, psize, R.affine_str(aff(pre, falsy))))
        # loop bound: runs while position < first-element position + length
        bound_ok = False
        end = None
        if ev[2] == 'while':
            for bp in ev[4]:
                if not bp.cond:
                    continue
                t, pol = bp.cond[0]
                if kind(t) == 'cmp' and pol and t[1] in ('<', '!='):
                    if kind(t[2]) == 'loopvar' and t[2][2] == slot:
                        end = t[3]
                elif kind(t) == 'cmp' and pol and t[1] == '>' and \
                        kind(t[3]) == 'loopvar' and t[3][2] == slot:
                    end = t[2]
            if end is not None:
                bound_ok = aff_eq(end, ('binop', '+', pre, dlen), falsy)
        ctx.ob(rule, fi.qualname, 'end-bound:' + tag, bound_ok,
               'the element loop must run while offset < (offset after the '
               'initial padding) + length; bound is %s'
               % (term_str(end)[:200] if end is not None else 'not found'))
        # exact-consumption check: a final position != end must raise
        guard = False
        if end is not None:
            for c, pol in p.cond:
                if kind(c) == 'cmp' and c[1] in ('==', '!=') and \
                        {strip_sites(c[2]), strip_sites(c[3])} == \
                        {strip_sites(post), strip_sites(end)}:
                    if (c[1] == '==') == pol:
                        guard = True
            # ... or, the loop having ended (offset < end is false), found
            # "offset > end" false as well
            if not guard:
                ps_, es_ = strip_sites(post), strip_sites(end)

                def rel(c):
                    if kind(c) != 'cmp' or c[1] not in ('<', '>', '<=', '>='):
                        return None
                    a_, b_ = strip_sites(c[2]), strip_sites(c[3])
                    if (a_, b_) == (ps_, es_):
                        return c[1]
                    if (a_, b_) == (es_, ps_):
                        return {'<': '>', '>': '<', '<=': '>=',
                                '>=': '<='}[c[1]]
                    return None
                not_above = any((rel(c) == '>' and not pol) or
                                (rel(c) == '<=' and pol)
                                for c, pol in p.cond)
                # (that the loop runs while offset < end is the clause
                # `end-bound` above: at its exit offset >= end)
                guard = not_above and bound_ok
            raises = [q for q in allp if q.outcome == 'raise' and
                      kind(q.value) == 'call' and
                      q.value[1] == 'error.MarshallingError']
            guard = guard and bool(raises)
        ctx.ob(rule, fi.qualname, 'end-check:' + tag, guard,
               'after the loop, a final offset different from the end bound '
               'must raise MarshallingError (return only when equal)')
        # ... and ONLY then: once the elements have filled the declared
        # length exactly, the array is what the encoder wrote - a path that
        # still raises refuses an encoding the encoder produces
        if end is not None:
            sides = {strip_sites(post), strip_sites(end)}
            late = [q for q in allp if q.outcome == 'raise' and any(
                kind(c) == 'cmp' and c[1] in ('==', '!=') and
                {strip_sites(c[2]), strip_sites(c[3])} == sides and
                (c[1] == '==') == pol for c, pol in q.cond)]
            ctx.ob(rule, fi.qualname, 'exact-fill-is-accepted:' + tag,
                   not late,
                   'the array decoder raises although the elements it read '
                   'end exactly at the declared length [%s]: it refuses '
                   'arrays the encoder writes' % ('; '.join(
                       '%s is %s' % (term_str(c)[:60], pol)
                       for c, pol in late[0].cond[-2:]) if late else ''))
        # reported size = final position - start
        ok = aff_eq(size, ('binop', '-', post, start), falsy)
        ctx.ob(rule, fi.qualname, 'size=advance:' + tag, ok,
               'reported size %s must equal final offset - start offset'
               % R.affine_str(aff(size, falsy)))


def loop_advance(ctx, cm, rule, fi, le, which, tag):
    """In the element loops of the drivers and of the array decoder: the
    position advances per iteration by exactly padding + the size reported by
    the dispatched callee."""
    for p in ret_paths(cm.paths(fi, le)):
        for ev in R.loops_of(p):
            for bp in ev[4]:
                if bp.outcome != 'continue':
                    continue
                disp = [c for c in bp.calls()
                        if kind(c[2]) == 'sub' and
                        R._is_table(c[2][1], cm, which)]
                if len(disp) != 1:
                    continue
                c = disp[0]
                slot = None
                for t in walk_term(c[3][2]) if len(c[3]) > 2 else ():
                    if kind(t) == 'loopvar':
                        slot = t[2]
                if slot is None:
                    ctx.ob(rule, fi.qualname, 'advance:' + tag, False,
                           'position handed to the dispatched callee does '
                           'not depend on the loop-carried position')
                    continue
                d = bp.deltas.get(slot)
                falsy = bp.state.falsy
                want = aff(('binop', '-',
                            ('binop', '+', c[3][2], ('sub', c, C(0))),
                            ('loopvar', ev[1], slot)), falsy)
                got = None
                if d and d[0] == 'num':
                    got = {(strip_sites(a) if a != 1 else 1): v
                           for a, v in d[1]}
                ctx.ob(rule, fi.qualname, 'advance:' + tag, got == want,
                       'per element the position must advance by padding + '
                       'the size the callee reports (%s); advances by %s' % (
                           R.affine_str(want),
                           R.affine_str(got) if got is not None
                           else 'a non-additive update'))


def driver_rules(ctx, cm, rule7, rule5, fi, le, which):
    tag = 'LE' if le else 'BE'
    sig, start = P(fi, 0), P(fi, 2)
    paths = ret_paths(cm.paths(fi, le))
    if not paths:
        raise AnalysisError('%s has no return path' % fi.qualname)
    for p in paths:
        falsy = p.state.falsy
        n = R.check_dispatch(ctx, cm, rule5, fi, le, which, p, tag)
        ctx.ob(rule7, fi.qualname, 'dispatches:' + tag, n >= 1,
               'driver must dispatch every complete type through the table')
        loops = R.loops_of(p)
        its = [ev[3] for ev in loops if ev[3] is not None]
        ok = any(contains(it, lambda x: kind(x) == 'call' and
                          x[1] == 'marshal.genCompleteTypes' and
                          x[3] and x[3][0] == sig) for it in its)
        ctx.ob(rule7, fi.qualname, 'splits-with-genCompleteTypes:' + tag, ok,
               'driver must iterate genCompleteTypes(signature)')
        # dispatch key is the first character of the complete type, which is
        # also what the callee receives
        for before, c, f2 in R.dispatch_sites(cm, p, which):
            K, args = c[2][2], c[3]
            ok = len(args) >= 1 and strip_sites(K) == \
                ('sub', strip_sites(args[0]), C(0)) and \
                contains(args[0], lambda x: kind(x) == 'elem')
            ctx.ob(rule7, fi.qualname, 'key-is-first-code:' + tag, ok,
                   'dispatch key must be the first code of the complete type '
                   'handed to the callee; key %s, type %s'
                   % (term_str(K), term_str(args[0]) if args else '-'))
        size, second = split_ret(p)
        if size is None:
            ctx.ob(rule7, fi.qualname, 'shape:' + tag, False,
                   'driver must return (size, result)')
            continue
        # size = final position - start: only loop advance
        a = aff(size, falsy)
        ok = bool(a) and all(k != 1 and kind(k) == 'star' for k in a)
        if which == 'dec' or which == 'enc':
            ctx.ob(rule7, fi.qualname, 'size=advance:' + tag, ok,
                   'driver must report exactly the advance of its position '
                   '(final - start); reports %s' % R.affine_str(a))


def struct_rules(ctx, cm, rule, le):
    tag = 'LE' if le else 'BE'
    for code in '({':
        for which, tbl, driver in (('enc', cm.enc, 'marshal.marshal'),
                                   ('dec', cm.dec, 'marshal.unmarshal')):
            fi = tbl[code]
            for p in ret_paths(cm.paths(fi, le)):
                v = p.value
                ok = kind(v) == 'call' and v[1] == driver
                detail = None
                if ok:
                    callee = ctx.prog.func(driver)
                    b = dict(zip(callee.params(), v[3]))
                    b.update(dict(v[4]))
                    ps = callee.params()
                    want_sig = ('sub', P(fi, 0), ('slice', C(1), C(-1),
                                                   NONE))
                    ok = b.get(ps[0]) == want_sig and \
                        b.get(ps[1]) == P(fi, 1) and \
                        b.get(ps[2]) == P(fi, 2) and \
                        b.get('lendian') == C(le) and \
                        b.get('oobFDs') == P(fi, 4)
                    detail = {k: term_str(x) for k, x in b.items()}
                ctx.ob(rule, fi.qualname, 'delegates:%s:%s' % (code, tag),
                       ok, 'container %r must delegate to %s(ct[1:-1], value,'
                       ' position, byte order, descriptors)' % (code, driver),
                       detail)


def variant_rules(ctx, cm, rule5, rule7, le, rule_spec=None):
    tag = 'LE' if le else 'BE'
    # encoder
    fi = cm.enc['v']
    start = P(fi, 2)
    for p in ret_paths(cm.paths(fi, le)):
        falsy = p.state.falsy
        calls = p.calls()
        sigc = [c for c in calls if c[1] == 'marshal.marshal_signature']
        body = [c for c in calls if c[1] == 'marshal.marshal']
        pads = [c for c in calls if kind(c[2]) == 'sub' and
                R._is_table(c[2][1], cm, 'pad')]
        if len(sigc) != 1 or len(body) != 1 or len(pads) != 1:
            ctx.ob(rule7, fi.qualname, 'shape:' + tag, False,
                   'variant encoder must encode one signature, pad once and '
                   'encode one value (found %d/%d/%d)'
                   % (len(sigc), len(pads), len(body)))
            continue
        sc, bc, pc = sigc[0], body[0], pads[0]
        cal = ctx.prog.func('marshal.marshal_signature')
        sb = dict(zip(cal.params(), sc[3]))
        sb.update(dict(sc[4]))
        vsig_enc = sb.get(cal.params()[1])
        ok = sb.get(cal.params()[2]) == start
        ctx.ob(rule7, fi.qualname, 'signature-at-start:' + tag, ok,
               'the variant signature must be encoded at the start position')
        drv = ctx.prog.func('marshal.marshal')
        bb = dict(zip(drv.params(), bc[3]))
        bb.update(dict(bc[4]))
        vsig_body = bb.get(drv.params()[0])
        same = strip_sites(vsig_enc) == strip_sites(vsig_body)
        if rule_spec:
            ctx.ob(rule_spec, fi.qualname, 'one-signature:' + tag, same,
                   'the signature written (%s) and the signature the content '
                   'is encoded under (%s) must be the same value' % (
                       term_str(vsig_enc), term_str(vsig_body)))
            ok = kind(vsig_body) == 'call' and \
                vsig_body[1] == 'marshal.sigFromPy' and \
                vsig_body[3] == (P(fi, 1),)
            ctx.ob(rule_spec, fi.qualname, 'signature-of-value:' + tag, ok,
                   'variant signature must be sigFromPy(value)',
                   nontrivial=False)
        ok = strip_sites(pc[2][2]) == ('sub', strip_sites(vsig_body), C(0))
        ctx.ob(rule5, fi.qualname, 'pad-key:' + tag, ok,
               'variant content must be padded for the first code of its '
               'signature; padded for %s' % term_str(pc[2][2]))
        want_pad_at = ('binop', '+', start, ('sub', sc, C(0)))
        ok = len(pc[3]) == 1 and aff_eq(pc[3][0], want_pad_at, falsy)
        ctx.ob(rule5, fi.qualname, 'pad-position:' + tag, ok,
               'content padding must be computed at start + signature size')
        want_pos = ('binop', '+', want_pad_at, ('len', pc))
        ok = aff_eq(bb.get(drv.params()[2], C(0)), want_pos, falsy)
        ctx.ob(rule5, fi.qualname, 'content-position:' + tag, ok,
               'content must be encoded at start + signature size + padding; '
               'encoded at %s' % term_str(bb.get(drv.params()[2])))
        ok = kind(bb.get(drv.params()[1])) == 'list' and \
            bb[drv.params()[1]][1] == (('item', P(fi, 1)),)
        ctx.ob(rule7, fi.qualname, 'content-is-value:' + tag, ok,
               'variant content must be [value]', nontrivial=False)
    # decoder
    fi = cm.dec['v']
    data, start = P(fi, 1), P(fi, 2)
    for p in ret_paths(cm.paths(fi, le)):
        falsy = p.state.falsy
        calls = p.calls()
        sigc = [c for c in calls if c[1] == 'marshal.unmarshal_signature']
        body = [c for c in calls if c[1] == 'marshal.unmarshal']
        pads = [c for c in calls if kind(c[2]) == 'sub' and
                R._is_table(c[2][1], cm, 'pad')]
        if len(sigc) != 1 or len(body) != 1 or len(pads) != 1:
            ctx.ob(rule7, fi.qualname, 'shape:' + tag, False,
                   'variant decoder must decode one signature, pad once and '
                   'decode one value (found %d/%d/%d)'
                   % (len(sigc), len(pads), len(body)))
            continue
        sc, bc, pc = sigc[0], body[0], pads[0]
        cal = ctx.prog.func('marshal.unmarshal_signature')
        sb = dict(zip(cal.params(), sc[3]))
        sb.update(dict(sc[4]))
        ok = sb.get(cal.params()[1]) == data and \
            sb.get(cal.params()[2]) == start
        ctx.ob(rule7, fi.qualname, 'signature-at-start:' + tag, ok,
               'the variant signature must be decoded at (data, offset)')
        vsig = ('sub', sc, C(1))
        nsig = ('sub', sc, C(0))
        ok = strip_sites(pc[2][2]) == ('sub', vsig, C(0))
        ctx.ob(rule5, fi.qualname, 'pad-key:' + tag, ok,
               'variant content must be padded for the first code of the '
               'decoded signature; padded for %s' % term_str(pc[2][2]))
        want_pad_at = ('binop', '+', start, nsig)
        ok = len(pc[3]) == 1 and aff_eq(pc[3][0], want_pad_at, falsy)
        ctx.ob(rule5, fi.qualname, 'pad-position:' + tag, ok,
               'content padding must be computed at offset + signature size')
        drv = ctx.prog.func('marshal.unmarshal')
        bb = dict(zip(drv.params(), bc[3]))
        bb.update(dict(bc[4]))
        want_pos = ('binop', '+', want_pad_at, ('len', pc))
        ok = bb.get(drv.params()[0]) == vsig and \
            bb.get(drv.params()[1]) == data and \
            aff_eq(bb.get(drv.params()[2], C(0)), want_pos, falsy)
        ctx.ob(rule5, fi.qualname, 'content-position:' + tag, ok,
               'content must be decoded under the decoded signature at '
               'offset + signature size + padding')
        size, val = split_ret(p)
        want = ('binop', '+', ('binop', '+', nsig, ('len', pc)),
                ('sub', bc, C(0)))
        ok = size is not None and aff_eq(size, want, falsy)
        ctx.ob(rule7, fi.qualname, 'size:' + tag, ok,
               'variant decoder must report signature size + padding + '
               'content size; reports %s' % (term_str(size)[:160]
                                             if size is not None else '-'))
        ok = val == ('sub', ('sub', bc, C(1)), C(0))
        ctx.ob(rule7, fi.qualname, 'value:' + tag, ok,
               'variant decoder must return the single decoded value',
               nontrivial=False)


def _limit_tests(prog, fi):
    """[(direction, bound, lineno)] for every `if <x> OP <int>: ... raise`
    of fi: the values REFUSED are those above (`gt`) / below (`lt`) the bound.
    Module constants are folded; only bounds of at least 8 count as limits
    (smaller ones are structural tests: emptiness, arity)."""
    from .c03 import module_const
    out = []

    def const_of(e):
        if isinstance(e, ast.Constant) and isinstance(e.value, int) and \
                not isinstance(e.value, bool):
            return e.value
        if isinstance(e, ast.Name):
            try:
                t = module_const(prog, fi.module.name, e.id)
            except Exception:
                t = None
            if t is not None and is_const(t) and isinstance(t[1], int) \
                    and not isinstance(t[1], bool):
                return t[1]
        if isinstance(e, ast.BinOp) and isinstance(e.op, ast.Pow):
            a, b = const_of(e.left), const_of(e.right)
            if a is not None and b is not None and 0 <= b < 64:
                return a ** b
        return None
    for n in ast.walk(fi.node):
        if not isinstance(n, ast.If):
            continue
        if not any(isinstance(x, ast.Raise) for st in n.body
                   for x in ast.walk(st)):
            continue
        for c in ast.walk(n.test):
            if not (isinstance(c, ast.Compare) and len(c.ops) == 1):
                continue
            l, r = c.left, c.comparators[0]
            op = type(c.ops[0])
            kl, kr = const_of(l), const_of(r)
            if kr is not None and kl is None:
                k = kr
            elif kl is not None and kr is None:
                k = kl
                op = {ast.Gt: ast.Lt, ast.Lt: ast.Gt, ast.GtE: ast.LtE,
                      ast.LtE: ast.GtE}.get(op, op)
            else:
                continue
            if op is ast.Gt:
                d = ('gt', k)
            elif op is ast.GtE:
                d = ('gt', k - 1)
            elif op is ast.Lt:
                d = ('lt', k)
            elif op is ast.LtE:
                d = ('lt', k + 1)
            else:
                continue
            if abs(d[1]) >= 8:
                out.append((d[0], d[1], n.lineno))
    return out


def limits_agree(ctx, cm, rule):
    """A size / depth / count limit that only the DECODER enforces makes
    values the encoder accepts undecodable: every `if x > LIMIT: raise` in
    the functions the decoder runs has the same refusal somewhere in the
    functions the encoder runs."""
    from .. import callgraph as CG
    prog = ctx.prog
    enc_roots = [prog.func('marshal.marshal')] + list(cm.enc.values())
    dec_roots = [prog.func('marshal.unmarshal')] + list(cm.dec.values())
    enc = CG.reachable(prog, enc_roots, within=('marshal',))
    dec = CG.reachable(prog, dec_roots, within=('marshal',))
    enc_limits = {(d, k) for fi in enc.values()
                  for d, k, _ in _limit_tests(prog, fi)}
    n = 0
    for q, fi in sorted(dec.items()):
        for d, k, line in _limit_tests(prog, fi):
            n += 1
            ctx.ob(rule, q, 'decoder-limit-is-an-encoder-limit:%s:%d'
                   % (d, k), (d, k) in enc_limits,
                   'the decoder refuses values %s %d (line %d) but nothing '
                   'the encoder runs refuses them: a value that encodes '
                   'does not decode' % (
                       'above' if d == 'gt' else 'below', k, line))
    ctx.ob(rule, 'marshal', 'decoder-limits-scanned', True,
           '%d limit test(s) in %d decoder function(s); %d encoder '
           'function(s)' % (n, len(dec), len(enc)), nontrivial=False)
    ctx.extra['limits'] = {'decoder_functions': len(dec),
                           'encoder_functions': len(enc),
                           'decoder_limit_tests': n}
    if len(dec) < 10 or len(enc) < 10:
        raise AnalysisError('codec families not resolved (%d encoder, %d '
                            'decoder functions)' % (len(enc), len(dec)))


def run(ctx):
    cm = CodecModel(ctx.prog)
    limits_agree(ctx, cm, 'C01.D5')
    R.r_tables(ctx, cm, 'C01.D1')
    R.r_fixed(ctx, cm, 'C01.D2', 'C01.D3', None)
    R.r_stringlike(ctx, cm, 'C01.D3', None)
    for le, _ in R.ORDERS:
        tag = 'LE' if le else 'BE'
        for fi in (ctx.prog.func('marshal.marshal'), cm.enc['a'],
                   cm.enc['v']):
            R.r_encoder_accounting(ctx, cm, 'C01.D4', fi, le, tag)
        for fi, which in ((ctx.prog.func('marshal.marshal'), 'enc'),
                          (ctx.prog.func('marshal.unmarshal'), 'dec')):
            driver_rules(ctx, cm, 'C01.D7', 'C01.D5', fi, le, which)
            loop_advance(ctx, cm, 'C01.D5', fi, le, which, tag)
        for fi, which in ((cm.enc['a'], 'enc'), (cm.dec['a'], 'dec')):
            for p in ret_paths(cm.paths(fi, le)):
                R.check_dispatch(ctx, cm, 'C01.D5', fi, le, which, p, tag)
            loop_advance(ctx, cm, 'C01.D5', fi, le, which, tag)
        array_encoder(ctx, cm, 'C01.D6', le)
        array_decoder(ctx, cm, 'C01.D6', le)
        struct_rules(ctx, cm, 'C01.D7', le)
        variant_rules(ctx, cm, 'C01.D5', 'C01.D7', le)
        for fi in list(cm.enc.values()) + list(cm.dec.values()) + [
                ctx.prog.func('marshal.marshal'),
                ctx.prog.func('marshal.unmarshal')]:
            for p in cm.paths(fi, le):
                R.check_threading(ctx, cm, 'C01.D7', fi, le, p, fi.name)
    ctx.floor('C01.D1', 17)
    ctx.floor('C01.D2', 20)
    ctx.floor('C01.D3', 40)
    ctx.floor('C01.D4', 6)
    ctx.floor('C01.D5', 12)
    ctx.floor('C01.D6', 12)
    ctx.floor('C01.D7', 12)
