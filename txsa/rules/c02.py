"""C02 - the bytes are exactly the D-Bus wire format: conformance of the
extracted codec model with the specification tables (txsa/spec.py)."""
from .. import spec
from ..codec import CodecModel
from ..loader import AnalysisError
from ..sym import C, Interp, is_const, kind, term_str
from . import codec_rules as R
from . import c01
from .codec_rules import ret_paths

META = {
    'level': 'other',
    'rule_text': 'Instances: (type code x byte order) for formats and sizes; '
                 '(alignment x position residue 0..23) for the padding '
                 'function; return paths of the string-like, array and '
                 'variant codecs for framing. Non-trivial = compares an '
                 'extracted constant/term with a value from the '
                 'specification table.',
    'explanation': 'Conformance of the codec model extracted from '
                   'txdbus/marshal.py with the D-Bus specification tables '
                   '(alignment, struct formats with explicit byte-order '
                   'prefix, boolean 0/1, NUL padding as a function of '
                   'position interpreted exactly in the congruence domain '
                   'mod 8, length prefix + payload + NUL framing, array '
                   'length excludes the initial padding, one signature per '
                   'variant, byte order threaded through every recursive '
                   'call, bodies start at an 8-aligned absolute position). '
                   'Byte-exactness of whole encodings against an independent '
                   'codec is a dynamic differential test and is NOT decided.',
    'trusted_base': ['txsa/spec.py (transcription of the D-Bus '
                     'specification)', 'CPython ast', 'struct.calcsize',
                     'txsa.sym interpreter'],
    'assumptions': ['the padding function is evaluated by constant folding '
                    'of its body for positions 0..23 (three periods of 8)'],
    'decided': ['D1 alignment table', 'D2 format table', 'D3 padding '
                'function', 'D4 string/signature/array framing',
                'D5 variant carries the signature of its content',
                'D6 byte order throughout', 'D7 absolute positions'],
    'undecided': ['byte-exactness of whole encodings for generated values '
                  'against an independent codec'],
}


def absolute_positions(ctx, rule):
    """Callers outside marshal.py start the codec at position 0 (messages are
    laid out so that both header and body start 8-aligned)."""
    prog = ctx.prog
    n = 0
    for fi in prog.all_funcs.values():
        if fi.module.name == 'marshal':
            continue
        import ast as _ast
        for node in _ast.walk(fi.node):
            if not isinstance(node, _ast.Call):
                continue
            r = prog.resolve_name_expr(fi.module, node.func)
            if not r or r[0] != 'func' or r[1].qualname not in (
                    'marshal.marshal', 'marshal.unmarshal'):
                continue
            callee = r[1]
            pname = callee.params()[2]
            given = None
            if len(node.args) > 2:
                given = node.args[2]
            for kw in node.keywords:
                if kw.arg == pname:
                    given = kw.value
            ok = given is None or (isinstance(given, _ast.Constant)
                                   and given.value == 0)
            n += 1
            ctx.ob(rule, fi.qualname, 'starts-at-0:%s' % callee.name, ok,
                   'message-level callers must run the codec from position '
                   '0 (header and body each start 8-aligned)')
    return n


def run(ctx):
    cm = CodecModel(ctx.prog)
    R.r_align_spec(ctx, cm, 'C02.D1')
    R.r_tables(ctx, cm, 'C02.D1')
    R.r_fixed(ctx, cm, None, None, 'C02.D2')
    R.r_padfn(ctx, cm, 'C02.D3')
    R.r_stringlike(ctx, cm, None, 'C02.D4')
    R.signature_length_limit(ctx, cm, 'C02.D4')
    for le, _ in R.ORDERS:
        tag = 'LE' if le else 'BE'
        c01.array_encoder(ctx, cm, 'C02.D4', le, spec_rule='C02.D4')
        c01.array_decoder(ctx, cm, 'C02.D4', le, spec_rule='C02.D4')
        for fi in (ctx.prog.func('marshal.marshal'), cm.enc['a'],
                   cm.enc['v']):
            R.r_encoder_accounting(ctx, cm, 'C02.D4', fi, le, tag)
        c01.variant_rules(ctx, cm, 'C02.D5', 'C02.D5', le,
                          rule_spec='C02.D5')
        for fi, which in ((ctx.prog.func('marshal.marshal'), 'enc'),
                          (ctx.prog.func('marshal.unmarshal'), 'dec'),
                          (cm.enc['a'], 'enc'), (cm.dec['a'], 'dec')):
            for p in ret_paths(cm.paths(fi, le)):
                R.check_dispatch(ctx, cm, 'C02.D6', fi, le, which, p, tag)
        for fi in list(cm.enc.values()) + list(cm.dec.values()) + [
                ctx.prog.func('marshal.marshal'),
                ctx.prog.func('marshal.unmarshal')]:
            for p in cm.paths(fi, le):
                R.check_threading(ctx, cm, 'C02.D6', fi, le, p, fi.name)
    absolute_positions(ctx, 'C02.D7')
    ctx.floor('C02.D1', 17)
    ctx.floor('C02.D2', 20)
    ctx.floor('C02.D3', 5)
    ctx.floor('C02.D4', 20)
    ctx.floor('C02.D5', 6)
    ctx.floor('C02.D6', 8)
    ctx.floor('C02.D7', 3)


def run_thorough(ctx):
    """Padding function on positions 0..1023 (128 periods of the congruence
    domain) instead of 0..23."""
    cm = CodecModel(ctx.prog)
    for al in (1, 2, 4, 8):
        bad = []
        for x in range(0, 1024):
            n, b = cm.pad_length(al, x)
            if n != (-x) % al or b != b'\0' * n:
                bad.append(x)
        ctx.ob('C02.D3', cm.pad_builder, 'align%d:0..1023' % al, not bad,
               'padding wrong at positions %s' % bad[:5])
