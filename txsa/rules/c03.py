"""C03 - messages serialise well-formed and parse back: table agreement,
header typing, writer/reader slot coverage, layout, serial, size guard and
constructor validation."""
import ast

from .. import spec
from ..loader import AnalysisError
from ..sym import (C, NONE, Interp, State, affine, contains, is_const,
                   iter_events, kind, subst_fold, term_str, try_py,
                   walk_term)
from .codec_rules import strip_sites

META = {
    'level': 'other',
    'rule_text': 'Instances: (message class x header-field row) for the '
                 'tables; (message class x non-string header field) for '
                 'typing; writer slot x reader store for coverage; flag '
                 'values 0..3 evaluated by constant folding; every path of '
                 '_marshal for the size guard and serial; every constructor '
                 'path x validated role.',
    'explanation': 'Agreement between the message writer (_marshal, the four '
                   'constructors) and reader (parseMessage) extracted from '
                   'txdbus/message.py: header-field tables equal the '
                   'specification\'s code/name/required tables; every header '
                   'value with a non-string wire type is wrapped in the '
                   'class carrying that type on every path into the header '
                   'list (including the parse -> re-marshal path the bus '
                   'uses); the flag bits written are read back with the same '
                   'bit and polarity; body length, header padding and body '
                   'are laid out and split at the same boundary; serials are '
                   'allocated read-then-increment from a positive counter; '
                   'the 2**27 size guard is on every normal exit; '
                   'constructor arguments that will be emitted reach their '
                   'validator first. Equality of parsed and built messages '
                   'for arbitrary bodies is NOT decided.',
    'trusted_base': ['txsa/spec.py header tables', 'txsa.sym interpreter',
                     'CPython ast'],
    'assumptions': ['the body codec is covered by C01/C02'],
    'decided': ['D1 header-field tables (incl. never changed in place at run time, not even through a local alias)', 'D2 header-field typing',
                'D3 writer/reader slot coverage (flags for every value of the '
                'flags byte, serial, fields; an unknown field code skips that '
                'field only, the loop over the fields is never left early)',
                'D4 layout', 'D5 serial allocation', 'D6 size limit',
                'D7 constructor validation'],
    'undecided': ['equality of parsed and built messages for arbitrary '
                  'bodies', 'parsing of foreign spec-conformant bytes beyond '
                  'the per-field table agreement'],
}

MSG = 'message.DBusMessage'
VALIDATOR = {'interface': ('marshal.validateInterfaceName',),
             'member': ('marshal.validateMemberName',),
             'destination': ('marshal.validateBusName',),
             'error_name': ('marshal.validateErrorName',
                            'marshal.validateInterfaceName')}


def message_classes(prog):
    base = prog.cls(MSG)
    return [c for c in prog.subclasses(base) if c is not base]


def class_const(prog, c, name):
    it = Interp(prog)
    init = prog.lookup_method(c, '_marshal')
    it._stack.append(init)
    return it.class_attr_term(c, name)


def module_const(prog, modname, name):
    it = Interp(prog)
    m = prog.module(modname)
    fi = next(iter(m.funcs.values()))
    it._stack.append(fi)
    return it.module_name(m, name)


def run(ctx):
    prog = ctx.prog
    classes = message_classes(prog)
    if len(classes) < 4:
        raise AnalysisError('expected four message classes, found %d'
                            % len(classes))
    ok, hcode = try_py(module_const(prog, 'message', '_hcode'))
    if not ok:
        raise AnalysisError('message._hcode is not a constant table')
    hcode_is_mapping = isinstance(hcode, dict)
    if isinstance(hcode, (tuple, list)):
        # a table indexed by the code (code -> name, gaps as None)
        hcode = {i: v for i, v in enumerate(hcode) if v is not None}
    elif not hcode_is_mapping:
        raise AnalysisError('message._hcode is neither a mapping nor a '
                            'sequence')
    ctx.extra['hcode_table_kind'] = 'mapping' if hcode_is_mapping \
        else 'sequence'
    mtype = module_const(prog, 'message', '_mtype')
    if kind(mtype) != 'dict':
        raise AnalysisError('message._mtype is not a literal table')
    # D1 tables ------------------------------------------------------------------
    for code, (name, _t) in spec.HEADER_FIELDS.items():
        ctx.ob('C03.D1', 'message._hcode', 'code:%d' % code,
               hcode.get(code) == name,
               'header field code %d is %r in the specification, _hcode says '
               '%r' % (code, name, hcode.get(code)))
    extra = sorted(set(hcode) - set(spec.HEADER_FIELDS))
    ctx.ob('C03.D1', 'message._hcode', 'no-unknown-codes', not extra,
           '_hcode maps codes the specification does not define: %s' % extra,
           nontrivial=False)
    by_type = {}
    for k_, v_ in mtype[1]:
        if is_const(k_) and kind(v_) == 'class':
            by_type[k_[1]] = prog.cls(v_[1])
    for t in spec.MESSAGE_TYPES:
        c = by_type.get(t)
        mt = class_const(prog, c, '_messageType') if c else None
        ctx.ob('C03.D1', 'message._mtype', 'type:%d' % t,
               c is not None and mt == C(t),
               'message type %d must map to a class whose _messageType is '
               '%d' % (t, t))
    attrs_of = {}
    for c in classes:
        mt = class_const(prog, c, '_messageType')
        okh, rows = header_rows(prog, c)
        if not okh or not is_const(mt):
            raise AnalysisError('%s: _headerAttrs/_messageType not constant'
                                % c.qualname)
        attrs_of[c.qualname] = rows
        req = set()
        for row in rows:
            attr, code, required = row[:3]
            okr = spec.HEADER_FIELDS.get(code, (None,))[0] == attr and \
                hcode.get(code) == attr
            ctx.ob('C03.D1', c.qualname, 'row:%s' % attr, okr,
                   'header attribute %r is declared with code %r; the '
                   'specification / _hcode say %r / %r' % (
                       attr, code, spec.HEADER_FIELDS.get(code, (None,))[0],
                       hcode.get(code)))
            if required:
                req.add(code)
        want = spec.REQUIRED_FIELDS.get(mt[1])
        ctx.ob('C03.D1', c.qualname, 'required-set', req == want,
               'required header fields of message type %s must be %s, '
               'declared %s' % (mt[1], sorted(want or ()), sorted(req)))
    # D2 typing + D3 writer slots + D4 + D5 + D6 from _marshal -------------------------
    mfi = prog.func(MSG + '._marshal')
    selft = ('param', 'self')
    for c in classes:
        it = Interp(prog, exc_edges=False, self_cls=c)
        paths = it.run(mfi)
        done = header_typing_unrolled(ctx, c, mfi)
        marshal_rules(ctx, c, mfi, paths, selft, skip_typing=done)
    reader_rules(ctx, classes, hcode_is_mapping)
    from .c09 import per_instance_registries
    per_instance_registries(
        ctx, 'C03.D1', ('message',),
        'the header-field table of a message class grows with every message '
        'that needed the extra field: later messages repeat it')
    serial_rules(ctx)
    constructor_rules(ctx, classes)
    ctx.floor('C03.D1', 30)
    ctx.floor('C03.D2', 8)
    ctx.floor('C03.D3', 6)
    ctx.floor('C03.D4', 6)
    ctx.floor('C03.D5', 3)
    ctx.floor('C03.D6', 4)
    ctx.floor('C03.D7', 8)


def header_rows(prog, c):
    """(ok, rows) of a message class's header table: each row's first three
    columns (attribute, code, required) as Python values; further columns
    (e.g. a wrapper class per field) are left to the interpreter."""
    t = class_const(prog, c, '_headerAttrs')
    ok, rows = try_py(t)
    if ok:
        return (isinstance(rows, (list, tuple)) and
                all(isinstance(r, (list, tuple)) and len(r) >= 3
                    for r in rows)), rows
    if kind(t) not in ('list', 'tuple'):
        return False, None
    out = []
    for x in t[1]:
        x = x[1] if kind(x) == 'item' else x
        if is_const(x) and isinstance(x[1], tuple):
            cols = [C(v) for v in x[1]]
        elif kind(x) in ('tuple', 'list'):
            cols = [y[1] if kind(y) == 'item' else y for y in x[1]]
        else:
            return False, None
        if len(cols) < 3 or not all(is_const(y) for y in cols[:3]):
            return False, None
        out.append(tuple(y[1] for y in cols[:3]))
    return True, out


def wrapper_sig(prog, t):
    """dbusSignature of the wrapper class a term is constructed with."""
    if kind(t) == 'call' and kind(t[2]) == 'class':
        c = prog.all_classes.get(t[2][1])
        if c is not None:
            it = Interp(prog)
            it._stack.append(next(iter(prog.all_funcs.values())))
            v = it.class_attr_term(c, 'dbusSignature')
            if is_const(v):
                return v[1]
    return None


def fold_pad_tables(prog, term, depth=0):
    """Evaluate module-level tables that are computed at import time from
    `marshal.pad[<code>](n)` over constant ranges (`tuple(pad['header'](n)
    for n in range(8))`, and tables derived from such tables): the padding
    function is taken to be what the specification says - zero bytes up to
    the next multiple of the alignment - which is what C01/C02 decide about
    `pad` itself.  Returns the term with those globals replaced by constants
    where that works."""
    from .. import spec as _spec
    if depth > 3:
        return term

    def align_of(code):
        if code == 'header':
            return _spec.HEADER_ALIGN
        t = getattr(_spec, 'TYPES', {}).get(code)
        return t[0] if t else None

    def rewrite(x):
        if not isinstance(x, tuple) or not x:
            return x
        if not isinstance(x[0], str):
            return tuple(rewrite(y) if isinstance(y, tuple) else y
                         for y in x)
        if x[0] == 'global' and len(x) == 3:
            m = prog.modules.get(x[1])
            vals = m.assigns.get(x[2]) if m is not None else None
            if vals and len(vals) == 1 and x[2] not in m.mutated and \
                    x[2] != 'pad':
                v = Interp(prog).eval_in_module(m, vals[0])
                if v is not None:
                    v2 = fold_pad_tables(prog, v, depth + 1)
                    if try_py(v2)[0]:
                        return v2
            return x
        if x[0] == 'call' and kind(x[2]) == 'sub' and \
                kind(x[2][1]) == 'global' and x[2][1][2] == 'pad' and \
                is_const(x[2][2]) and len(x[3]) == 1 and not x[4]:
            a = rewrite(x[3][0])
            al = align_of(x[2][2][1])
            if is_const(a) and isinstance(a[1], int) and al:
                return C(b'\0' * ((-a[1]) % al))
        if x[0] == 'call' and x[1] in ('tuple', 'list') and \
                len(x[3]) == 1 and kind(x[3][0]) == 'comp':
            comp = x[3][0]
            if len(comp[2]) == 1 and len(comp[3]) == 1 and not comp[5]:
                seq = rewrite(comp[3][0])
                ok, items = try_py(seq)
                if ok and not isinstance(items, dict) and len(items) <= 64:
                    el = comp[2][0]
                    elems = [t for t in walk_term(el) if kind(t) == 'elem']
                    out = []
                    for it in items:
                        from ..sym import from_py
                        e2 = subst_fold(el, {e_: from_py(it)
                                             for e_ in elems})
                        e2 = subst_fold(rewrite(e2), {})
                        if not is_const(e2):
                            return x
                        out.append(e2)
                    return ('tuple', tuple(out))
        return tuple(rewrite(y) if isinstance(y, tuple) else y for y in x)
    return subst_fold(rewrite(term), {})


def _padding_from_table(prog, padt, hdr):
    """`_TABLE[len(header) % 8]` where the module-level table is
    `tuple(pad['header'](n) for n in range(8))`: the padding to a multiple of
    8 depends on the length modulo 8 only, so the entry IS
    pad['header'](len(header))."""
    want_len = strip_sites(('call', 'len', ('builtin', 'len'), (hdr,), (),
                            None))
    if not (kind(padt) == 'sub' and kind(padt[2]) == 'binop' and
            padt[2][1] == '%' and padt[2][3] == C(8) and
            strip_sites(padt[2][2]) == want_len and
            kind(padt[1]) == 'global'):
        return False
    m = prog.modules.get(padt[1][1])
    vals = m.assigns.get(padt[1][2]) if m is not None else None
    if not vals or len(vals) != 1 or padt[1][2] in m.mutated:
        return False
    v = Interp(prog).eval_in_module(m, vals[0])
    if kind(v) == 'call' and v[1] in ('tuple', 'list') and len(v[3]) == 1:
        v = v[3][0]
    if kind(v) != 'comp' or len(v[2]) != 1 or len(v[3]) != 1 or v[5]:
        return False
    from ..sym import try_py
    ok, seq = try_py(v[3][0])
    el = v[2][0]
    return bool(ok) and list(seq) == list(range(8)) and \
        kind(el) == 'call' and kind(el[2]) == 'sub' and \
        el[2][2] == C('header') and kind(el[2][1]) == 'global' and \
        el[2][1][2] == 'pad' and len(el[3]) == 1 and \
        kind(el[3][0]) == 'elem'


def marshal_rules(ctx, c, mfi, paths, selft, skip_typing=False):
    prog = ctx.prog
    q = mfi.qualname
    cname = c.name
    seen_fields = set()
    n_guard = 0
    flag_rows = {}
    for p in paths:
        if p.outcome == 'raise':
            continue
        # --- D2: header typing in the field loop (fallback when the loop
        # over the header table could not be unrolled)
        for ev in p.trace:
            if ev[0] != 'loop' or skip_typing:
                continue
            for bp in ev[4]:
                apps = [e for e in bp.trace if e[0] == 'mutate' and
                        e[2] == 'append']
                if not apps:
                    continue
                item = apps[-1][3][0]
                if kind(item) != 'list' or len(item[1]) != 2:
                    continue
                hval = item[1][1][1]
                # which attribute names select this body path?
                eq_true = [cn[3][1] for cn, pol in bp.cond
                           if kind(cn) == 'cmp' and cn[1] == '==' and pol
                           and is_const(cn[3])]
                eq_false = [cn[3][1] for cn, pol in bp.cond
                            if kind(cn) == 'cmp' and cn[1] == '==' and
                            not pol and is_const(cn[3])]
                for code, (name, wtype) in spec.HEADER_FIELDS.items():
                    if wtype == 's':
                        continue
                    selected = (name in eq_true) or (not eq_true and
                                                     name not in eq_false)
                    if not selected:
                        continue
                    if (cname, name) in seen_fields:
                        continue
                    # does this class ever carry that field?
                    okh, rows = header_rows(prog, c)
                    names = [r[0] for r in rows] + ['unix_fds']
                    if name not in names:
                        continue
                    seen_fields.add((cname, name))
                    ws = wrapper_sig(prog, hval)
                    ok = ws == wtype
                    why = ''
                    if not ok and ws is None:
                        # unwrapped at the sink: every store must be wrapped
                        ok, why = all_stores_wrapped(prog, name, wtype)
                    ctx.ob('C03.D2', q, 'typed:%s:%s' % (cname, name), ok,
                           'header field %r (wire type %r) reaches the header '
                           'list as %s%s' % (
                               name, wtype,
                               'a value wrapped for %r' % ws if ws else
                               'an unwrapped value (a variant then infers '
                               'its type from the Python value: an int '
                               'becomes INT32 "i")', why))
        # --- header marshal call: the seven slots
        hcalls = [cl for cl in p.calls(deep=False)
                  if cl[1] == 'marshal.marshal' and cl[3] and
                  cl[3][0] == C(spec.HEADER_SIGNATURE)]
        if len(hcalls) != 1:
            ctx.ob('C03.D3', q, 'header-call:%s' % cname, False,
                   '_marshal must encode the fixed header once under %r'
                   % spec.HEADER_SIGNATURE)
            continue
        hc = hcalls[0]
        slots = hc[3][1]
        if kind(slots) != 'list' or len(slots[1]) != 7:
            ctx.ob('C03.D3', q, 'seven-slots:%s' % cname, False,
                   'the fixed header has seven slots')
            continue
        sl = [x[1] for x in slots[1]]
        er = ('attr', selft, 'expectReply')
        au = ('attr', selft, 'autoStart')
        def tv(t):
            if t in p.state.truthy:
                return True
            if t in p.state.falsy:
                return False
            cv = class_const(prog, c, t[2])
            if is_const(cv) and not Interp(prog)._has_instance_store(
                    c, t[2]):
                return bool(cv[1])
            return None
        e, a = tv(er), tv(au)
        if e is not None and a is not None and is_const(sl[2]):
            flag_rows[(e, a)] = sl[2][1]
        elif not is_const(sl[2]):
            # computed without branching (a table indexed by the two
            # booleans, arithmetic on them): evaluate the expression for
            # every combination this path allows
            for e2 in ((True, False) if e is None else (e,)):
                for a2 in ((True, False) if a is None else (a,)):
                    v2 = subst_fold(sl[2], {er: C(e2), au: C(a2)})
                    if is_const(v2) and isinstance(v2[1], int):
                        flag_rows[(e2, a2)] = int(v2[1])
        mt = class_const(prog, c, '_messageType')
        ctx.ob('C03.D3', q, 'slot-type:%s' % cname, sl[1] == mt,
               'slot 1 must carry the message type', nontrivial=False)
        ctx.ob('C03.D3', q, 'slot-version:%s' % cname,
               sl[3] == C(spec.PROTOCOL_VERSION),
               'slot 3 must carry protocol version 1', nontrivial=False)
        lend = dict(hc[4]).get('lendian')
        okb = (sl[0] == C(ord('l')) and lend == C(True)) or \
            (sl[0] == C(ord('B')) and lend == C(False)) or \
            (kind(lend) == 'cmp' and lend[2] == sl[0] and
             lend[3] == C(ord('l')))
        ctx.ob('C03.D4', q, 'byte-order-flag:%s' % cname, okb,
               'the byte-order flag written (%s) and the byte order used '
               'for the header (%s) must agree' % (term_str(sl[0]),
                                                   term_str(lend)))
        # --- D4 layout
        raw = p.state.heap.get((selft, 'rawMessage'))
        parts = None
        if kind(raw) == 'call' and kind(raw[2]) == 'attr' and \
                raw[2][2] == 'join' and raw[3] and kind(raw[3][0]) == 'list':
            parts = [x[1] for x in raw[3][0][1]]
        elif kind(raw) == 'binop' and raw[1] == '+':
            # header + padding + body written as a concatenation
            parts = []

            def flat(t):
                if kind(t) == 'binop' and t[1] == '+':
                    flat(t[2])
                    flat(t[3])
                else:
                    parts.append(t)
            flat(raw)
            if len(parts) == 2:
                parts.append(C(b''))     # `x + b''` was folded to x
        if not parts or len(parts) != 3:
            ctx.ob('C03.D4', q, 'layout:%s' % cname, False,
                   'rawMessage must be header + padding + body')
            continue
        hdr, padt, body = parts
        okl = kind(hdr) == 'call' and contains(hdr, lambda x: x == hc)
        ctx.ob('C03.D4', q, 'header-first:%s' % cname, okl,
               'the message must start with the encoded fixed header')
        okp = kind(padt) == 'call' and kind(padt[2]) == 'sub' and \
            padt[2][2] == C('header') and len(padt[3]) == 1 and \
            strip_sites(padt[3][0]) == strip_sites(
                ('call', 'len', ('builtin', 'len'), (hdr,), (), None))
        if not okp:
            okp = _padding_from_table(prog, padt, hdr)
        ctx.ob('C03.D4', q, 'padding-after-header:%s' % cname, okp,
               "the header must be followed by pad['header'](len(header))")
        want_len = strip_sites(('call', 'len', ('builtin', 'len'), (body,),
                                (), None))
        okb = strip_sites(sl[4]) == want_len or (
            body == C(b'') and sl[4] == C(0))
        ctx.ob('C03.D4', q, 'body-length:%s' % cname, okb,
               'the declared body length must be len() of exactly the bytes '
               'that follow the padding; declared %s' % term_str(sl[4])[:80])
        sig = ('attr', selft, 'signature')
        if sig in p.state.truthy:
            bc = [cl for cl in p.calls(deep=False)
                  if cl[1] == 'marshal.marshal' and cl[3] and
                  cl[3][0] == sig]
            okbody = len(bc) == 1 and contains(body, lambda x: x == bc[0]) \
                and bc[0][3][1] == ('attr', selft, 'body')
            ctx.ob('C03.D4', q, 'body-under-signature:%s' % cname, okbody,
                   'the body must be self.body encoded under self.signature')
            if len(bc) == 1:
                callee = prog.func('marshal.marshal')
                bb = dict(zip(callee.params(), bc[0][3]))
                bb.update(dict(bc[0][4]))
                blend = bb.get('lendian', C(True))
                ctx.ob('C03.D4', q, 'body-byte-order=header-byte-order:%s'
                       % cname, blend == lend,
                       'header and body of one message must be encoded in '
                       'the same byte order (the one the first byte '
                       'declares); the header is encoded with lendian=%s, '
                       'the body with lendian=%s' % (
                           term_str(lend)[:60], term_str(blend)[:60]))
        # --- D5 serial slot
        ser = p.state.heap.get((selft, 'serial'))
        ctx.ob('C03.D5', q, 'slot-serial:%s' % cname,
               sl[5] == (ser if ser is not None else
                         ('attr', selft, 'serial')),
               'slot 5 must carry the message serial', nontrivial=False)
        ns = ('param', 'newSerial')
        cls_ctr = None
        incs = [e for e in p.trace if e[0] == 'setattr' and
                e[2] == '_nextSerial']
        if ns in p.state.truthy:
            ok5 = False
            if len(incs) == 1 and kind(incs[0][3]) == 'binop' and \
                    incs[0][3][1] == '+' and is_const(incs[0][3][3]) and \
                    isinstance(incs[0][3][3][1], int) and \
                    incs[0][3][3][1] > 0 and \
                    kind(incs[0][3][2]) == 'attr' and \
                    incs[0][3][2][2] == '_nextSerial':
                ctr = incs[0][3][2]
                # read-then-increment or increment-then-read: both fresh
                ok5 = ser == ctr or ser == incs[0][3]
                # one process-wide counter: read and written on the class
                # that defines it (type(self)/self would fork a counter per
                # subclass or per instance and serials would repeat)
                okg = incs[0][1] == ('class', MSG) and ctr[1] == (
                    'class', MSG)
                ctx.ob('C03.D5', q, 'one-global-counter:%s' % cname, okg,
                       'serials must come from the single process-wide '
                       'counter DBusMessage._nextSerial; this path reads '
                       '%s and writes it on %s: each message class (or '
                       'instance) then numbers its serials independently and '
                       'serials repeat' % (term_str(ctr)[:60],
                                           term_str(incs[0][1])[:40]))
            ctx.ob('C03.D5', q, 'fresh-serial:%s' % cname, bool(ok5),
                   'a new serial must be taken from the counter and the '
                   'counter incremented by a positive constant on the same '
                   'path')
        elif ns in p.state.falsy:
            ctx.ob('C03.D5', q, 'keeps-serial:%s' % cname,
                   not incs and ser is None,
                   're-marshalling with newSerial false must keep the '
                   'serial and leave the counter alone')
        # --- D6 size guard
        n_guard += 1
        guard = False
        for cn, pol in p.cond:
            cs = strip_sites(cn)
            if kind(cs) == 'cmp' and cs[1] in ('>', '<=') and \
                    cs[3] == C(spec.MAX_MESSAGE) and kind(cs[2]) == 'call' \
                    and cs[2][1] == 'len' and \
                    strip_sites(cs[2][3][0]) == strip_sites(raw):
                if (cs[1] == '>') != pol:
                    guard = True
        ctx.ob('C03.D6', q, 'size-guard-on-exit:%s' % cname, guard,
               'every normal exit of _marshal must have passed '
               'len(rawMessage) <= 2**27')
    # the guard raises MarshallingError
    okr = False
    for p in paths:
        if p.outcome == 'raise' and kind(p.value) == 'call' and \
                p.value[1] == 'error.MarshallingError':
            for cn, pol in p.cond:
                cs = strip_sites(cn)
                if kind(cs) == 'cmp' and cs[1] == '>' and pol and \
                        cs[3] == C(spec.MAX_MESSAGE):
                    okr = True
    ctx.ob('C03.D6', q, 'oversize-raises:%s' % cname, okr,
           'a message longer than 2**27 bytes must raise MarshallingError')
    # flags
    for (e, a), v in sorted(flag_rows.items()):
        want = (0 if e else spec.FLAG_NO_REPLY_EXPECTED) | \
            (0 if a else spec.FLAG_NO_AUTO_START)
        ctx.ob('C03.D3', q, 'flags:%s:reply=%s,autostart=%s' % (cname, e, a),
               v == want, 'flags byte for expectReply=%s autoStart=%s must '
               'be %d, is %d' % (e, a, want, v))
    settable = Interp(prog)._has_instance_store(c, 'expectReply')
    if len(flag_rows) < (4 if settable else 1):
        ctx.ob('C03.D3', q, 'flags-table:%s' % cname, False,
               'could not extract the flags byte for the combinations of '
               'expectReply/autoStart (got %d)' % len(flag_rows))


def header_typing_unrolled(ctx, c, mfi):
    """D2 with the loop over the (constant) header table unrolled: every
    header attribute present, descriptors present.  Independent of how the
    wrapping is spelled (if/elif chain, dict of wrappers, ...).  Returns False
    when the table does not unroll (the summarised loop is used instead)."""
    prog = ctx.prog
    selft = ('param', 'self')
    okh, rows = header_rows(prog, c)
    if not okh:
        return False
    names = [r[0] for r in rows] + ['unix_fds']
    heap = {(selft, n): ('inst', '<%s>' % n, None) for n in names}
    it = Interp(prog, exc_edges=False, self_cls=c, unroll_const=True)
    try:
        paths = it.run(mfi, {'oobFDs': ('inst', '<oobFDs>', None)},
                       state=State(heap=heap))
    except AnalysisError:
        return False
    found = {}
    for p in paths:
        if p.outcome == 'raise':
            continue
        hl = p.state.heap.get((selft, 'headers'))
        if kind(hl) != 'list' or not all(kind(x) == 'item' for x in hl[1]):
            return False
        for x in hl[1]:
            v = x[1]
            if kind(v) != 'list' or len(v[1]) != 2 or \
                    not is_const(v[1][0][1]):
                return False
            found.setdefault(v[1][0][1][1], set()).add(v[1][1][1])
    if not found:
        return False
    q = mfi.qualname
    for code, (name, wtype) in spec.HEADER_FIELDS.items():
        if wtype == 's' or name not in names:
            continue
        vals = found.get(code)
        if vals is None:
            if name == 'unix_fds':
                continue    # added only on the descriptor path
            ctx.ob('C03.D2', q, 'typed:%s:%s' % (c.name, name), False,
                   'header field %r never reaches the header list' % name)
            continue
        for hval in vals:
            ws = wrapper_sig(prog, hval)
            ok = ws == wtype
            why = ''
            if not ok and ws is None:
                ok, why = all_stores_wrapped(prog, name, wtype)
            ctx.ob('C03.D2', q, 'typed:%s:%s' % (c.name, name), ok,
                   'header field %r (wire type %r) reaches the header list '
                   'as %s%s' % (
                       name, wtype,
                       'a value wrapped for %r' % ws if ws else
                       'an unwrapped value (a variant then infers its type '
                       'from the Python value: an int becomes INT32 "i")',
                       why))
    return True


def all_stores_wrapped(prog, attr, wtype):
    """Are all stores to .<attr> package-wide wrapped for wtype, and is there
    no dynamic setattr(...) that can write it raw?"""
    raw_sites = []
    for fi in prog.all_funcs.values():
        for n in prog._iter_scope(fi.node):
            if isinstance(n, ast.Assign):
                for t in n.targets:
                    if isinstance(t, ast.Attribute) and t.attr == attr:
                        v = n.value
                        okw = False
                        if isinstance(v, ast.Call):
                            r = prog.resolve_name_expr(fi.module, v.func)
                            if r and r[0] == 'class' and \
                                    'dbusSignature' in r[1].attrs:
                                sv = r[1].attrs['dbusSignature']
                                okw = isinstance(sv, ast.Constant) and \
                                    sv.value == wtype
                        if not okw:
                            raw_sites.append(fi.qualname)
            if isinstance(n, ast.Call) and isinstance(n.func, ast.Name) and \
                    n.func.id == 'setattr' and len(n.args) == 3 and \
                    fi.module.name == 'message' and \
                    not isinstance(n.args[1], ast.Constant):
                raw_sites.append(fi.qualname + ' (setattr by header code)')
    if raw_sites:
        return False, '; it is stored unwrapped in: %s' % ', '.join(
            sorted(set(raw_sites)))
    return True, ''


def reader_rules(ctx, classes, table_is_mapping=True):
    prog = ctx.prog
    fi = prog.func('message.parseMessage')
    it = Interp(prog, exc_edges=False)
    paths = [p for p in it.run(fi) if p.outcome == 'return']
    if not paths:
        raise AnalysisError('parseMessage has no return path')
    raw = ('param', fi.params()[0])
    q = fi.qualname
    covered = {}
    for p in paths:
        hcalls = [c for c in p.calls(deep=False)
                  if c[1] == 'marshal.unmarshal' and c[3] and
                  c[3][0] == C(spec.HEADER_SIGNATURE)]
        if len(hcalls) != 1:
            ctx.ob('C03.D3', q, 'reads-header', False,
                   'parseMessage must decode the fixed header once')
            continue
        hc = hcalls[0]
        hval = ('sub', hc, C(1))
        nheader = ('sub', hc, C(0))
        m = p.value
        # byte order
        callee = prog.func('marshal.unmarshal')
        b = dict(zip(callee.params(), hc[3]))
        b.update(dict(hc[4]))
        lend = b.get('lendian')
        okl = kind(lend) == 'cmp' and lend[2] == ('sub', raw, C(0)) and (
            (lend[1] == '==' and lend[3] == C(ord('l'))) or
            (lend[1] == '!=' and lend[3] == C(ord('B'))))
        ctx.ob('C03.D4', q, 'byte-order-from-first-byte', okl,
               'the byte order must be taken from the first byte (== "l"); '
               'is %s' % term_str(lend))
        ctx.ob('C03.D4', q, 'header-from-offset-0',
               b.get(callee.params()[1]) == raw and
               b.get(callee.params()[2], C(0)) == C(0),
               'the header must be decoded from the start of the message')
        heap = p.state.heap
        # serial
        ctx.ob('C03.D3', q, 'restores-serial',
               heap.get((m, 'serial')) == ('sub', hval, C(5)),
               'the serial must be restored from header slot 5')
        # flags
        for attr, bit in (('expectReply', spec.FLAG_NO_REPLY_EXPECTED),
                          ('autoStart', spec.FLAG_NO_AUTO_START)):
            v = heap.get((m, attr))
            ok = False
            detail = None
            if v is not None:
                ok = True
                from ..sym import truth
                for fl in range(4):
                    env = {('sub', hval, C(2)): C(fl)}
                    # a path that tests the flags byte is only taken for
                    # the flag values its condition admits
                    feasible = True
                    for c, pol in p.cond:
                        if contains(c, lambda x: x == ('sub', hval, C(2))):
                            tc = truth(subst_fold(c, env))
                            if tc is not None and tc != pol:
                                feasible = False
                    if not feasible:
                        continue
                    covered.setdefault(attr, set()).add(fl)
                    r = subst_fold(v, env)
                    tv = truth(r)
                    if tv is None or tv != (not (fl & bit)):
                        ok = False
                        detail = {'flags': fl, 'value': term_str(r)}
            ctx.ob('C03.D3', q, 'restores-flag:%s' % attr, ok,
                   'the flags byte (header slot 2, bit %#x) is written from '
                   '%s by _marshal but parseMessage %s: a parsed message '
                   'always reports %s=True' % (
                       bit, attr, 'restores it with the wrong bit/polarity'
                       if v is not None else 'never reads it', attr), detail)
        # fields
        loops = [ev for ev in p.trace if ev[0] == 'loop' and
                 ev[3] == ('sub', hval, C(6))]
        okf = False
        for ev in loops:
            for bp in ev[4]:
                for c in bp.calls():
                    if c[1] == 'setattr' and len(c[3]) == 3 and \
                            c[3][0] == m and (
                                kind(c[3][1]) == 'sub' or (
                                    # _hcode.get(code)
                                    kind(c[3][1]) == 'call' and
                                    kind(c[3][1][2]) == 'attr' and
                                    c[3][1][2][2] == 'get' and
                                    kind(c[3][1][2][1]) == 'dict')):
                        okf = True
                        # ... through a table that knows EVERY field code of
                        # the specification: whatever the message type, a
                        # known field that is present is restored
                        nm = c[3][1]
                        base = nm[1] if kind(nm) == 'sub' else nm[2][1]
                        okt, tb = try_py(base)
                        if okt and isinstance(tb, dict):
                            cover = all(tb.get(k) == v[0] for k, v in
                                        spec.HEADER_FIELDS.items())
                        elif okt and isinstance(tb, (list, tuple)):
                            cover = all(k < len(tb) and tb[k] == v[0]
                                        for k, v in
                                        spec.HEADER_FIELDS.items())
                        else:
                            cover = False
                        ctx.ob('C03.D3', q, 'restores-fields-of-every-code',
                               cover,
                               'the attribute name a header field is stored '
                               'under comes from %s, not from a constant '
                               'table of all field codes of the '
                               'specification: a known field the table does '
                               'not list for this message (UNIX_FDS on a '
                               'reply, say) is dropped on parsing'
                               % term_str(base)[:80])
        ctx.ob('C03.D3', q, 'restores-fields', okf,
               'every (code, value) of header slot 6 must be stored on the '
               'message under _hcode[code]')
        # padding / body split
        body = heap.get((m, 'rawBody'))
        okb = False
        if kind(body) == 'sub' and body[1] == raw and \
                kind(body[2]) == 'slice' and body[2][2] == NONE:
            lo = body[2][1]
            okb = True
            from ..sym import truth
            for nh in range(0, 24):
                env = {nheader: C(nh)}
                # padding computed by a conditional: the path is taken only
                # for the header lengths its condition admits
                feas = True
                for c_, pol_ in p.cond:
                    if contains(c_, lambda x: x == nheader):
                        tv = truth(subst_fold(c_, env))
                        if tv is not None and tv != pol_:
                            feas = False
                if not feas:
                    continue
                covered.setdefault('<padding>', set()).add(nh)
                r = subst_fold(lo, env)
                if not is_const(r) and contains(
                        r, lambda x: kind(x) == 'global'):
                    r = subst_fold(fold_pad_tables(prog, r), env)
                if not is_const(r) and contains(
                        r, lambda x: kind(x) == 'global'):
                    # the padding comes out of a module-level table the value
                    # model cannot evaluate (built from marshal.pad at import
                    # time): not decidable here - not a violation
                    raise AnalysisError(
                        'parseMessage: the start of the body is computed '
                        'from the module-level table %s, which does not '
                        'fold to constants' % term_str(next(
                            x for x in walk_term(r)
                            if kind(x) == 'global')))
                if r != C(nh + ((-nh) % 8)):
                    okb = False
        ctx.ob('C03.D4', q, 'body-starts-after-padding', okb,
               'the body must start at the header length rounded up to a '
               'multiple of 8 (evaluated for header lengths 0..23)')
        sig = heap.get((m, 'signature')) or ('attr', m, 'signature')
        bcalls = [c for c in p.calls(deep=False)
                  if c[1] == 'marshal.unmarshal' and c is not hc]
        if sig in p.state.truthy or bcalls:
            okc = False
            for c in bcalls:
                bb = dict(zip(callee.params(), c[3]))
                bb.update(dict(c[4]))
                if bb.get(callee.params()[0]) == sig and \
                        bb.get(callee.params()[1]) == body and \
                        bb.get('lendian') == lend and \
                        bb.get(callee.params()[2], C(0)) == C(0):
                    okc = True
            ctx.ob('C03.D4', q, 'body-decoded-under-signature', okc,
                   'the body must be decoded from rawBody under the parsed '
                   'signature with the parsed byte order')
    pads = covered.pop('<padding>', None)
    if pads is not None:
        ctx.ob('C03.D4', q, 'body-starts-after-padding:all-lengths',
               pads == set(range(24)),
               'some header length (mod 8) reaches no return path: %s'
               % sorted(set(range(24)) - pads))
    for attr, fls in sorted(covered.items()):
        ctx.ob('C03.D3', q, 'restores-flag:%s:all-values' % attr,
               fls == set(range(4)),
               'some value of the flags byte (%s) reaches no return path of '
               'parseMessage' % sorted(set(range(4)) - fls))
    # an unknown field code is skipped for THAT field only (readers must
    # ignore codes they do not know; the fields after it still count)
    itx = Interp(prog, exc_edges=True)
    n_unknown = 0
    for p in itx.run(fi):
        for ev in p.trace:
            if ev[0] != 'loop' or not (kind(ev[3]) == 'sub' and
                                       ev[3][2] == C(6)):
                continue
            for bp in ev[4]:
                edges = [e for e in bp.trace if e[0] == 'exc-edge' and
                         e[1] == 'subscript']
                if not edges:
                    continue
                n_unknown += 1
                # what the lookup raises for an unknown code depends on the
                # table: KeyError for a mapping, IndexError for a sequence -
                # the handler taken on this edge must be one that catches it
                want = 'KeyError' if table_is_mapping else 'IndexError'
                caught = [e for e in bp.trace if e[0] == 'except']
                catches = (not caught) or any(
                    set(e[1]) & {want, 'LookupError', 'Exception',
                                 'BaseException', ''} or not e[1]
                    for e in caught)
                ctx.ob('C03.D3', q, 'unknown-code-skips-one-field',
                       bp.outcome == 'continue' and catches,
                       'a header field with a code that is not in _hcode '
                       '(KeyError) must be skipped and the loop must go on '
                       'with the next field; on this path the exception '
                       'leaves the field loop, so every field after an '
                       'unknown one (possibly the signature, hence the '
                       'body) is dropped or the message is rejected')
    if n_unknown == 0:
        # no KeyError edge: every subscript of the code table must be
        # guarded by a membership test on the same key (or .get be used)
        unguarded = _unguarded_table_subscripts(fi.node)
        ctx.ob('C03.D3', q, 'unknown-code-skips-one-field', not unguarded,
               'parseMessage must tolerate unknown header field codes: '
               'the code table is subscripted without a KeyError handler '
               'or membership guard at line(s) %s' % unguarded)
    # whatever the form of the lookup: nothing inside the loop over the
    # header fields may end the loop early - the fields behind the one that
    # is skipped (SIGNATURE, REPLY_SERIAL, UNIX_FDS ...) still count
    for node in prog._iter_scope(fi.node):
        if isinstance(node, ast.For) and \
                isinstance(node.iter, ast.Subscript) and \
                isinstance(node.iter.slice, ast.Constant) and \
                node.iter.slice.value == 6:
            leaves = [n for st in node.body for n in ast.walk(st)
                      if isinstance(n, (ast.Break, ast.Return))]
            ctx.ob('C03.D3', q, 'field-loop-visits-every-field', not leaves,
                   'the loop over the header fields is left early (line %s): '
                   'every field after that one - possibly the signature, '
                   'the reply serial, the descriptor count - is dropped'
                   % [n.lineno for n in leaves])


def _unguarded_table_subscripts(fn):
    """Line numbers of `T[k]` in fn, T a module-level Name, k the loop's
    code variable, that sit neither under `if k in T` nor inside a try."""
    bad = []

    def walk(node, guards, in_try):
        if isinstance(node, ast.If):
            g = set(guards)
            t = node.test
            tests = t.values if isinstance(t, ast.BoolOp) and \
                isinstance(t.op, ast.And) else [t]
            for x in tests:
                if isinstance(x, ast.Compare) and len(x.ops) == 1 and \
                        isinstance(x.ops[0], ast.In):
                    g.add((ast.unparse(x.left),
                           ast.unparse(x.comparators[0])))
            walk(node.test, guards, in_try)
            for st in node.body:
                walk(st, g, in_try)
            for st in node.orelse:
                walk(st, guards, in_try)
            return
        if isinstance(node, ast.Try):
            for st in node.body:
                walk(st, guards, True)
            for h in node.handlers:
                walk(h, guards, in_try)
            for st in node.orelse + node.finalbody:
                walk(st, guards, in_try)
            return
        if isinstance(node, ast.Subscript) and \
                isinstance(node.value, ast.Name) and \
                node.value.id.startswith('_h') and not in_try and \
                isinstance(node.ctx, ast.Load):
            key = (ast.unparse(node.slice), node.value.id)
            if key not in guards:
                bad.append(node.lineno)
        for ch in ast.iter_child_nodes(node):
            walk(ch, guards, in_try)
    walk(fn, frozenset(), False)
    return bad


def serial_rules(ctx):
    prog = ctx.prog
    base = prog.cls(MSG)
    init = base.attrs.get('_nextSerial')
    ok = isinstance(init, ast.Constant) and isinstance(init.value, int) and \
        init.value > 0
    ctx.ob('C03.D5', MSG, 'counter-starts-positive', ok,
           'serial 0 is invalid: the counter must start at a positive '
           'constant')
    n = 0
    for fi in prog.all_funcs.values():
        for node in prog._iter_scope(fi.node):
            tgt = None
            if isinstance(node, ast.AugAssign):
                tgt = node.target
                okk = isinstance(node.op, ast.Add) and \
                    isinstance(node.value, ast.Constant) and \
                    isinstance(node.value.value, int) and \
                    node.value.value > 0
            elif isinstance(node, ast.Assign):
                tgt = node.targets[0]
                okk = False
            if isinstance(tgt, ast.Attribute) and tgt.attr == '_nextSerial':
                n += 1
                ctx.ob('C03.D5', fi.qualname, 'counter-only-incremented',
                       okk, 'the serial counter may only be incremented by '
                       'a positive constant')
    if n == 0:
        ctx.ob('C03.D5', MSG, 'counter-incremented', False,
               'the serial counter is never incremented: serials repeat')


def constructor_rules(ctx, classes):
    prog = ctx.prog
    selft = ('param', 'self')
    for c in classes:
        init = c.methods.get('__init__')
        if init is None:
            continue
        it = Interp(prog, exc_edges=False, self_cls=c)
        for p in it.run(init):
            if p.outcome == 'raise':
                continue
            mcalls = [i for i, e in enumerate(p.trace) if e[0] == 'call' and
                      (e[1][1] or '').endswith('._marshal')]
            ctx.ob('C03.D7', init.qualname, 'marshals', len(mcalls) == 1,
                   'a constructed message must be serialised once',
                   nontrivial=False)
            if not mcalls:
                continue
            before = p.trace[:mcalls[0]]
            # each header attribute the constructor fills from a parameter
            # is filled from the parameter OF THAT NAME (the four classes
            # are copies of each other: a line copied from a neighbour keeps
            # the neighbour's right-hand side)
            ps = set(init.params())
            for attr, _t in spec.HEADER_FIELDS.values():
                v = p.state.heap.get((selft, attr))
                if kind(v) == 'param' and attr in ps and v[1] in ps:
                    ctx.ob('C03.D7', init.qualname, 'field-from-its-'
                           'parameter:%s' % attr, v[1] == attr,
                           'the %s header field of the message is filled '
                           'from the constructor parameter %r although there '
                           'is a parameter %r' % (attr.upper(), v[1], attr),
                           nontrivial=(v[1] != attr))
            for role, validators in VALIDATOR.items():
                v = p.state.heap.get((selft, role))
                if v is None or kind(v) != 'param':
                    continue
                validated = any(e[0] == 'call' and e[1][1] in validators and
                                e[1][3] and e[1][3][0] == v for e in before)
                known_none = any(
                    kind(cn) == 'cmp' and cn[2] == v and cn[3] == NONE and
                    ((cn[1] == 'is') == pol) for cn, pol in p.cond)
                ok = validated or known_none
                how = 'is not None' if not (v in p.state.falsy) else \
                    'is falsy but possibly not None (e.g. the empty string)'
                ctx.ob('C03.D7', init.qualname, 'validates:%s' % role, ok,
                       '%s %s on this path and will be emitted as a header '
                       'field (emission condition: "is not None"), but it '
                       'was not validated' % (role, how),
                       {'path': [(term_str(a)[:60], b_)
                                 for a, b_ in p.cond[:6]]})
            # path: validated when encoded (marshal_object_path), reserved
            # path rejected for method calls
