"""C04 - framing is independent of how the stream is cut into reads:
non-interference obligations on BasicDBusProtocol.dataReceived.

If (a) `data` is used only by appending it to the buffer, (b) no other
cross-call state survives than values recomputed from the buffer head, and
(c) the function loops until the buffer holds no complete unit, then what is
delivered is a function of the concatenated stream and not of how it was cut
(DESIGN 0.1).  The three premises are syntactic and are checked here; the
conclusion is the paper argument.
"""
import ast

from .. import spec
from ..loader import AnalysisError
from ..sym import (C, NONE, Interp, State, contains, is_const, iter_events,
                   kind, subst_fold, term_str, truth, walk_term)
from .codec_rules import strip_sites

Q = 'protocol.BasicDBusProtocol.dataReceived'

META = {
    'level': 'other',
    'rule_text': 'Instances: every segment (function path or loop-body '
                 'path) of dataReceived in binary mode and in line mode, '
                 'analysed with the mode flag preset; the length expression '
                 'evaluated by constant folding for field-array lengths '
                 '0..40 x body lengths {0,1,5,8}.',
    'explanation': 'Non-interference premises of the framing code, checked '
                   'on every path: the received chunk is used only as the '
                   'right operand of the concatenation stored to the buffer; '
                   'header reads are dominated by len(buffer) >= 16 and use '
                   'the offsets the specification layout of the fixed header '
                   'implies; the total length expression equals 16 + fields '
                   '+ pad-to-8 + body for all evaluated values; only '
                   '_buffer/_nextMsgLen/_endian are written, the length is '
                   'reset before delivery and the byte order is assigned on '
                   'both branches; delivered prefix and kept suffix are cut '
                   'at the same index; after a delivery the remainder is '
                   're-examined by a loop (not by per-message recursion); in '
                   'line mode the chunk only feeds buffer + data, lines are '
                   'consumed so that the bytes after the authenticating line '
                   'stay intact, and no line-mode operation follows the '
                   'switch. The delivered sequence for concrete streams and '
                   'partitions is NOT explored.',
    'trusted_base': ['txsa/spec.py header layout', 'txsa.sym interpreter',
                     'CPython ast',
                     'paper argument: chunk-boundary non-interference'],
    'assumptions': ['Twisted delivers the stream in order'],
    'decided': ['D1 layout agreement', 'D2 non-interference premises',
                'D3 drain', 'D4 bounded stack', 'D5 mode-switch typestate (incl. the receiver is set up - connectionAuthenticated - before leftover bytes are framed)',
                'D6 line-mode premises (incl. the length limit is a limit on one '
                'line)'],
    'undecided': ['the delivered sequence for concrete streams and '
                  'partitions'],
}

SELF = ('param', 'self')
BUF = ('attr', SELF, '_buffer')


def header_layout(prog):
    """Offsets implied by message._headerFormat and the spec alignments."""
    m = prog.module('message')
    vals = m.assigns.get('_headerFormat')
    if not vals or not isinstance(vals[0], ast.Constant):
        raise AnalysisError('message._headerFormat is not a constant')
    sig = vals[0].value
    pos = 0
    offs = []
    i = 0
    while i < len(sig):
        c = sig[i]
        al, _f, size = spec.TYPES[c]
        pos += (-pos) % al
        offs.append((c, pos))
        if c == 'a':
            elem = sig[i + 1]
            first = pos + 4
            first += (-first) % spec.TYPES[elem][0]
            offs.append(('first', first))
            break
        pos += size
        i += 1
    d = {}
    us = [o for c, o in offs if c == 'u']
    d['body_len'] = us[0]
    d['array_len'] = [o for c, o in offs if c == 'a'][0]
    d['first_field'] = [o for c, o in offs if c == 'first'][0]
    return d


def data_terms_ok(term, data, allow_firstbyte=False):
    """Every occurrence of the chunk parameter inside `term` must be the
    right operand of `self._buffer + <chunk>` (or, in line mode, the first
    byte test / the chunk minus its first byte)."""
    bad = []

    def chunk(x):
        if x == data:
            return True
        if allow_firstbyte and kind(x) == 'sub' and x[1] == data and \
                kind(x[2]) == 'slice' and x[2][1] == C(1) and \
                x[2][2] == NONE:
            return True
        return False

    def go(x, parent):
        if not isinstance(x, tuple):
            return
        if x == data:
            ok = False
            if kind(parent) == 'binop' and parent[1] == '+' and \
                    parent[3] == x and _is_buf(parent[2]):
                ok = True
            if allow_firstbyte and kind(parent) == 'sub' and \
                    parent[1] == x and (parent[2] == C(0) or (
                        kind(parent[2]) == 'slice' and
                        parent[2][1] == C(1))):
                ok = True
            if not ok:
                bad.append(parent if parent is not None else x)
            return
        if allow_firstbyte and chunk(x) and x != data:
            if kind(parent) == 'binop' and parent[1] == '+' and \
                    parent[3] == x and _is_buf(parent[2]):
                return
        for y in x:
            if isinstance(y, tuple):
                go(y, x if isinstance(x[0], str) else parent)
    go(term, None)
    return bad


def _is_buf(t):
    return t == BUF or (kind(t) == 'loopvar' and t[2].endswith('._buffer'))


def all_terms(trace, cond):
    for ev in trace:
        if ev[0] in ('call',):
            yield ev[1]
        elif ev[0] in ('setattr',):
            yield ev[3]
        elif ev[0] in ('setsub',):
            yield ev[2]
            yield ev[3]
        elif ev[0] in ('mutate',):
            for a in ev[3]:
                yield a
    for c, pol in cond:
        yield c


def segments(paths):
    """(trace, cond, state, outcome, is_loop_body, loop_event)"""
    seen = set()
    for p in paths:
        yield p.trace, p.cond, p.state, p.outcome, False, None
        for ev in p.trace:
            if ev[0] == 'loop' and id(ev) not in seen and ev[1] not in seen:
                seen.add(ev[1])
                for bp in ev[4]:
                    yield bp.trace, bp.cond, bp.state, bp.outcome, True, ev
                    for ev2 in bp.trace:
                        if ev2[0] == 'loop' and ev2[1] not in seen:
                            seen.add(ev2[1])
                            for bp2 in ev2[4]:
                                yield (bp2.trace, bp2.cond, bp2.state,
                                       bp2.outcome, True, ev2)


def is_delivery(ev):
    return ev[0] == 'call' and (ev[1][1] or '').endswith(
        '.rawDBusMessageReceived')


def is_self_recursion(ev, fi):
    return ev[0] == 'call' and ev[1][1] == fi.qualname


def run(ctx):
    prog = ctx.prog
    fi = prog.func(Q)
    data = ('param', fi.params()[1])
    cls = prog.cls('protocol.BasicDBusProtocol')
    lay = header_layout(prog)
    ctx.extra['header_layout'] = lay
    mx = Interp(prog)
    mx._stack.append(fi)
    hdr_len = mx.class_attr_term(cls, 'MSG_HDR_LEN')
    ctx.ob('C04.D1', 'protocol.BasicDBusProtocol', 'MSG_HDR_LEN',
           hdr_len == C(lay['first_field']),
           'the first header field starts at byte %d (the field array '
           'elements are 8-aligned); MSG_HDR_LEN is %s' % (
               lay['first_field'], term_str(hdr_len) if hdr_len else None))
    binary_mode(ctx, fi, data, lay)
    line_mode(ctx, fi, data)
    hook_before_flush(ctx)
    # "with identical content, whatever mix of byte orders the senders
    # used": a framed message is handed to parseMessage, which must take
    # the byte order of header AND body from that message's own first byte
    # (the reader clauses of C03-D4, re-reported)
    from . import c03 as _c03

    class _Reader:
        prog = ctx.prog
        tier = ctx.tier
        extra = {}

        def ob(self, rule, where, slot, ok, msg, detail=None,
               nontrivial=True, loc=None):
            if slot in ('byte-order-from-first-byte',
                        'body-decoded-under-signature',
                        'header-from-offset-0',
                        'unknown-code-skips-one-field',
                        'field-loop-visits-every-field'):
                ctx.ob('C04.D1', where, 'content:' + slot, ok,
                       '[each delivered message is decoded in its own byte '
                       'order] ' + msg, detail, nontrivial, loc)
            return ok

        def floor(self, *a):
            pass

        def advisory(self, *a):
            pass
    _c03.reader_rules(_Reader(), _c03.message_classes(ctx.prog))
    ctx.floor('C04.D1', 5)
    ctx.floor('C04.D2', 8)
    ctx.floor('C04.D3', 1)
    ctx.floor('C04.D4', 1)
    ctx.floor('C04.D5', 2)
    ctx.floor('C04.D6', 3)


def hook_before_flush(ctx):
    """The bytes that follow the last authentication line in the same read
    are framed (dataReceived re-entered) only AFTER the switch is complete:
    connectionAuthenticated() is where the receivers set themselves up (the
    bus gives the connection its name, the client sends Hello); a message
    dispatched before it runs meets a half-initialised receiver - which is
    how "one read" and "two reads" come to differ."""
    prog = ctx.prog
    sfi = prog.func('protocol.BasicDBusProtocol.setAuthenticationSucceeded')
    n = 0
    for p in Interp(prog, exc_edges=False,
                    inline=lambda q, d: False).run(sfi):
        def named(ev, name):
            return ev[0] == 'call' and (
                str(ev[1][1] or '').endswith(name) or (
                    kind(ev[1][2]) in ('attr', 'bound') and
                    str(ev[1][2][2]).endswith(name)))
        hook = [i for i, ev in enumerate(p.trace)
                if named(ev, 'connectionAuthenticated')]
        flush = [i for i, ev in enumerate(p.trace)
                 if named(ev, 'dataReceived')]
        n += 1
        ctx.ob('C04.D5', sfi.qualname, 'hook-runs', bool(hook),
               'the switch to binary mode must call connectionAuthenticated',
               nontrivial=False)
        if flush:
            ctx.ob('C04.D5', sfi.qualname, 'receiver-set-up-before-flush',
                   bool(hook) and hook[0] < flush[0],
                   'the buffered bytes are framed and dispatched before '
                   'connectionAuthenticated() ran: a message that arrives in '
                   'the same read as the end of the handshake reaches a '
                   'receiver that is not set up yet')
    if n == 0:
        raise AnalysisError('setAuthenticationSucceeded has no path')


def binary_mode(ctx, fi, data, lay):
    prog = ctx.prog
    it = Interp(prog, exc_edges=False)
    paths = it.run(fi, {}, state=State(heap={(SELF, '_authenticated'):
                                             C(True)}))
    q = fi.qualname
    n_deliver = n_len = 0
    covered_len = set()
    for trace, cond, st, outcome, in_loop, lev in segments(paths):
        # (a) chunk use
        for t in all_terms(trace, cond):
            bad = data_terms_ok(t, data)
            ctx.ob('C04.D2', q, 'chunk-only-appended', not bad,
                   'in binary mode the received chunk may only be appended '
                   'to the buffer; it is also used in %s' % (
                       [term_str(b)[:80] for b in bad[:2]]),
                   nontrivial=bool(contains(t, lambda x: x == data)))
        # (c) state written
        for ev in trace:
            if ev[0] == 'setattr' and ev[1] == SELF:
                from ..loader import attr_read_elsewhere
                # (a counter that is only ever incremented cannot carry
                # framing state from one call to the next)
                ok = ev[2] in ('_buffer', '_nextMsgLen', '_endian') or \
                    not attr_read_elsewhere(fi.node, ev[2])
                ctx.ob('C04.D2', q, 'state:%s' % ev[2], ok,
                       'binary-mode framing may keep only _buffer, '
                       '_nextMsgLen and _endian across calls; it writes '
                       'self.%s' % ev[2], nontrivial=False)
        # header reads
        unpacks = [ev[1] for ev in trace if ev[0] == 'call' and
                   ev[1][1] in ('struct.unpack', 'struct.unpack_from')]
        if unpacks:
            n_len += 1
            guard = False
            for c, pol in cond:
                cs = strip_sites(c)
                if kind(cs) == 'cmp' and kind(cs[2]) == 'call' and \
                        cs[2][1] == 'len' and _is_buf_value(cs[2][3][0],
                                                            data) \
                        and is_const(cs[3]):
                    if (cs[1] == '>=' and pol and
                            cs[3][1] >= lay['first_field']) or \
                       (cs[1] == '<' and not pol and
                            cs[3][1] >= lay['first_field']) or \
                       (cs[1] == '>' and pol and
                            cs[3][1] >= lay['first_field'] - 1):
                        guard = True
            ctx.ob('C04.D2', q, 'header-read-needs-16-bytes', guard,
                   'the fixed header is read on a path that has not '
                   'established len(buffer) >= %d' % lay['first_field'])
            big = None
            for c, pol in cond:
                if kind(c) == 'cmp' and c[1] in ('!=', '==') and \
                        c[3] == C(b'l') and kind(c[2]) == 'sub':
                    big = (c[1] == '!=') == pol
            want = {True: '>I', False: '<I'}.get(big)
            roles = {}
            for u in unpacks:
                fmt = u[3][0]
                okf = is_const(fmt) and want is not None and fmt[1] == want
                fields = None
                if is_const(fmt) and isinstance(fmt[1], str) and \
                        want is not None and not okf:
                    # a composite layout ('>4xI4xI'): same byte order, pad
                    # bytes, and every value an unsigned 32-bit word
                    import re as _re
                    body_ = fmt[1][1:]
                    items = _re.findall(r'(\d*)([A-Za-z?])', body_)
                    if fmt[1][:1] == want[0] and items and \
                            ''.join(a + b for a, b in items) == body_ and \
                            all(cd in 'xI' for _, cd in items):
                        okf = True
                        fields, off_ = [], 0
                        for cnt, cd in items:
                            k_ = int(cnt) if cnt else 1
                            if cd == 'x':
                                off_ += k_
                            else:
                                for _i in range(k_):
                                    fields.append(off_)
                                    off_ += 4
                ctx.ob('C04.D1', q, 'length-format', okf,
                       'lengths in the fixed header must be read as %r on '
                       'this path (byte-order flag %s "l"); read as %s - a '
                       'non-constant format means the byte order of a '
                       'previous message leaks in' % (
                           want, '!=' if big else '==', term_str(fmt)))
                src = u[3][1] if len(u[3]) > 1 else None
                if kind(src) == 'sub' and kind(src[2]) == 'slice' and \
                        is_const(src[2][1]) and is_const(src[2][2]) and \
                        _is_buf_value(src[1], data):
                    roles[src[2][1][1]] = (u, src[2][2][1], 0)
                elif u[1] == 'struct.unpack_from' and fields is not None \
                        and _is_buf_value(src, data) and (
                            len(u[3]) == 2 or is_const(u[3][2])):
                    base_ = u[3][2][1] if len(u[3]) == 3 else 0
                    for k_, off_ in enumerate(fields):
                        roles[base_ + off_] = (u, base_ + off_ + 4, k_)
                elif u[1] == 'struct.unpack_from' and len(u[3]) == 3 and \
                        _is_buf_value(src, data) and is_const(u[3][2]) and \
                        is_const(fmt):
                    import struct as _st
                    try:
                        w = _st.calcsize(fmt[1])
                    except _st.error:
                        w = 0
                    roles[u[3][2][1]] = (u, u[3][2][1] + w, 0)
            okr = set(roles) == {lay['body_len'], lay['array_len']} and \
                all(hi - lo == 4 for lo, (u, hi, _k) in roles.items())
            ctx.ob('C04.D1', q, 'length-offsets', okr,
                   'body length and field-array length live at bytes '
                   '%d..%d and %d..%d of the fixed header; read at %s' % (
                       lay['body_len'], lay['body_len'] + 4,
                       lay['array_len'], lay['array_len'] + 4,
                       sorted((lo, hi) for lo, (u, hi, _k) in roles.items())))
            # total length expression
            stores = [ev[3] for ev in trace if ev[0] == 'setattr' and
                      ev[2] == '_nextMsgLen' and ev[3] != C(0)]
            if okr and stores:
                T = stores[0]
                ub = ('sub', roles[lay['body_len']][0],
                      C(roles[lay['body_len']][2]))
                ua = ('sub', roles[lay['array_len']][0],
                      C(roles[lay['array_len']][2]))
                bad = None
                for h in range(0, 41):
                    for b in (0, 1, 5, 8):
                        env = {ub: C(b), ua: C(h)}
                        # a path that tests the lengths (padding by a
                        # conditional) is taken only for the values its
                        # condition admits
                        feas = True
                        for c_, pol_ in cond:
                            if contains(c_, lambda x: x in (ub, ua)):
                                tv = truth(subst_fold(c_, env))
                                if tv is not None and tv != pol_:
                                    feas = False
                        if not feas:
                            continue
                        covered_len.add((h, b))
                        r = subst_fold(T, env)
                        wantv = lay['first_field'] + h + \
                            (-(lay['first_field'] + h)) % 8 + b
                        if r != C(wantv) and bad is None:
                            bad = {'fields': h, 'body': b,
                                   'computed': term_str(r)[:60],
                                   'expected': wantv}
                ctx.ob('C04.D1', q, 'total-length', bad is None,
                       'the message length must be %d + fields + pad-to-8 + '
                       'body; first disagreement: %s' % (lay['first_field'],
                                                         bad), bad)
            elif not stores:
                ctx.ob('C04.D1', q, 'total-length', False,
                       'the computed length is not stored in _nextMsgLen')
        # delivery
        dels = [i for i, ev in enumerate(trace) if is_delivery(ev)]
        if dels:
            n_deliver += 1
            i = dels[0]
            arg = trace[i][1][3][0] if trace[i][1][3] else None
            resets = [j for j, ev in enumerate(trace) if ev[0] == 'setattr'
                      and ev[2] == '_nextMsgLen' and ev[3] == C(0)]
            ctx.ob('C04.D2', q, 'length-reset-before-delivery',
                   bool(resets) and resets[-1] < i,
                   '_nextMsgLen must be reset to 0 before the message is '
                   'delivered (a handler that re-enters or raises would '
                   'otherwise see a stale length)')
            bufstores = [ev[3] for j, ev in enumerate(trace)
                         if ev[0] == 'setattr' and ev[2] == '_buffer'
                         and j < i]
            okc = False
            if kind(arg) == 'sub' and kind(arg[2]) == 'slice' and \
                    arg[2][1] == NONE and bufstores:
                n, b0 = arg[2][2], arg[1]
                for bs in bufstores:
                    if bs == ('sub', b0, ('slice', n, NONE, NONE)):
                        okc = True
            ctx.ob('C04.D2', q, 'cut-at-same-index', okc,
                   'the delivered message must be buffer[:n] and the kept '
                   'remainder buffer[n:] for the same buffer and the same n '
                   '(before the delivery)')
            # D3 drain / D4 bounded stack
            rec = [ev for ev in trace[i:] if is_self_recursion(ev, fi)]
            drains = bool(rec) or (in_loop and outcome == 'continue')
            ctx.ob('C04.D3', q, 'drain-after-delivery', drains,
                   'after a delivery the remaining buffer must be examined '
                   'again (further complete messages may already be '
                   'buffered); this path neither loops nor re-enters')
            ctx.ob('C04.D4', q, 'no-recursion-per-message', not rec,
                   'the drain re-enters dataReceived once per buffered '
                   'message: a read carrying ~1000 small messages exceeds '
                   'the interpreter recursion limit and the rest is lost')
    # D3: the framing loop is left only for want of bytes.  Every way out of
    # it that does not deliver must rest on a comparison of the buffered
    # length ("fewer than 16", "fewer than the message needs"), or on the
    # needed length being 0 (no header read yet) - a message that is complete
    # in the buffer is delivered whatever else is true of the connection
    segs = list(segments(paths))
    is_buflen = lambda x: kind(x) == 'call' and x[1] == 'len' and x[3] and \
        contains(x[3][0], lambda y: y == ('attr', SELF, '_buffer') or
                 (kind(y) == 'loopvar'))
    needed = set()
    for trace, cond, st, outcome, in_loop, lev in segs:
        for c, pol in cond:
            if kind(c) == 'cmp' and c[1] in ('<', '<=', '>', '>='):
                if is_buflen(c[2]):
                    needed.add(c[3])
                elif is_buflen(c[3]):
                    needed.add(c[2])
    n_exit = 0
    for trace, cond, st, outcome, in_loop, lev in segs:
        if not in_loop or outcome not in ('break', 'return') or \
                any(is_delivery(ev) for ev in trace):
            continue
        n_exit += 1
        short = False
        for c, pol in cond:
            if c in needed and not pol:
                short = True          # `if not <needed length>:`
            if kind(c) != 'cmp':
                continue
            if c[1] in ('<', '<=', '>', '>=') and (is_buflen(c[2]) or
                                                    is_buflen(c[3])):
                less = c[1] in ('<', '<=')
                if is_buflen(c[3]):
                    less = not less
                if less == pol:
                    short = True
            if c[1] == '==' and pol and C(0) in (c[2], c[3]) and \
                    (c[2] in needed or c[3] in needed):
                short = True
        ctx.ob('C04.D3', q, 'stops-only-for-want-of-bytes', short,
               'the framing loop is left (%s) on a path whose conditions '
               'say nothing about the buffer being too short [%s]: '
               'messages that are complete in the buffer are not '
               'delivered' % (outcome, '; '.join(
                   '%s is %s' % (term_str(c)[:60], pol)
                   for c, pol in cond[-2:])))
    if n_exit == 0 and any(s_[4] for s_ in segs):
        raise AnalysisError('C04: the framing loop has no exit path')
    want_cov = {(h, b) for h in range(0, 41) for b in (0, 1, 5, 8)}
    if covered_len:
        ctx.ob('C04.D1', q, 'total-length:all-lengths-covered',
               covered_len == want_cov,
               'some (field-array length, body length) pairs reach no path '
               'that computes the message length: %s'
               % sorted(want_cov - covered_len)[:4])
    if n_deliver == 0:
        raise AnalysisError('dataReceived: no delivering path in binary mode')
    if n_len == 0:
        raise AnalysisError('dataReceived: no path reads the fixed header')


def _is_buf_value(t, data):
    return _is_buf(t) or t == ('binop', '+', BUF, data)


def line_mode(ctx, fi, data, r5='C04.D5', r6='C04.D6'):
    prog = ctx.prog
    q = fi.qualname
    n_switch = n_feed = 0
    delim = None
    mx = Interp(prog)
    mx._stack.append(fi)
    delim = mx.class_attr_term(prog.cls('protocol.BasicDBusProtocol'),
                               'authDelimiter')
    for fb in (C(False), C(True)):
        for client in (C(True), C(False)):
            it = Interp(prog, exc_edges=False,
                        inline=lambda qn, d: qn.endswith(
                            '.authMessageLengthExceeded'))
            heap = {(SELF, '_authenticated'): C(False),
                    (SELF, '_firstByte'): fb, (SELF, '_client'): client}
            paths = it.run(fi, {}, state=State(heap=heap))
            for trace, cond, st, outcome, in_loop, lev in segments(paths):
                for t in all_terms(trace, cond):
                    bad = data_terms_ok(t, data, allow_firstbyte=True)
                    ctx.ob(r6, q, 'chunk-only-feeds-buffer', not bad,
                           'in line mode the received chunk may only be '
                           'appended to the buffer (after the first-byte '
                           'test); it is also used in %s: a delimiter cut '
                           'by a read boundary would be missed' % (
                               [term_str(b)[:80] for b in bad[:2]]),
                           nontrivial=bool(contains(
                               t, lambda x: x == data)))
                handles = [i for i, ev in enumerate(trace)
                           if ev[0] == 'call' and kind(ev[1][2]) == 'attr'
                           and ev[1][2][2] == 'handleAuthMessage']
                switch = [i for i, ev in enumerate(trace)
                          if ev[0] == 'call' and (ev[1][1] or '').endswith(
                              '.setAuthenticationSucceeded')]
                if switch:
                    n_switch += 1
                    ctx.ob(r5, q, 'no-line-mode-after-switch',
                           outcome == 'return',
                           'after authentication succeeded the line loop '
                           'must be left at once; this path goes on to the '
                           'next line (the authenticator is gone and the '
                           'bytes are binary message data)')
                    line = trace[handles[0]][1][3][0] if handles else None
                    bufv = st.heap.get((SELF, '_buffer'))
                    # the remainder may also be handed on as the argument
                    # of the re-entrant dataReceived call, buffer emptied
                    refeed = [ev[1][3][0] for ev in trace[switch[0]:]
                              if ev[0] == 'call' and
                              ev[1][1] == fi.qualname and
                              kind(ev[1][2]) == 'bound' and
                              ev[1][2][1] == SELF and len(ev[1][3]) == 1]
                    # the remainder reaches the framing code ONCE: either
                    # it stays in the buffer and the re-entry brings nothing
                    # (b''), or the buffer is emptied and the re-entry
                    # brings it
                    kept = st.heap.get((SELF, '_buffer'))
                    ctx.ob(r5, q, 'remainder-fed-once',
                           kept == C(b'') or all(a == C(b'') for a in refeed),
                           'the bytes behind the last handshake line stay in '
                           'the buffer AND are handed to the re-entrant '
                           'dataReceived (%s): every message that arrives in '
                           'the same read as the end of the handshake is '
                           'framed twice' % (term_str(refeed[0])[:50]
                                             if refeed else ''))
                    if bufv == C(b'') and len(refeed) == 1:
                        bufv = refeed[0]
                    ok = False
                    if kind(line) == 'sub' and kind(line[1]) == 'call' and \
                            kind(line[1][2]) == 'attr':
                        pc = line[1]
                        meth = pc[2][2]
                        if meth == 'partition' and line[2] == C(0) and \
                                pc[3] and pc[3][0] == delim:
                            ok = bufv == ('sub', pc, C(2))
                        elif meth == 'split' and len(pc[3]) == 2 and \
                                pc[3][0] == delim and pc[3][1] == C(1) \
                                and line[2] == C(0):
                            ok = bufv in (('sub', pc, C(1)),
                                          ('sub', pc, C(-1)))
                    if not ok and bufv is not None and contains(
                            bufv, lambda x: kind(x) == 'call' and
                            kind(x[2]) == 'attr' and x[2][2] == 'join' and
                            x[2][1] == delim):
                        ok = True
                    ctx.ob(r5, q, 'remainder-intact-at-switch', ok,
                           'when the handshake ends, everything after the '
                           'authenticating line must be in the buffer with '
                           'its delimiters intact (rest of partition / '
                           'split(delim, 1), or re-joined); the buffer holds '
                           '%s' % (term_str(bufv)[:100]
                                   if bufv is not None else 'an old value'))
            # every non-rejecting function path feeds buffer + chunk
            for p in paths:
                lose_first = any(
                    ev[0] == 'call' and kind(ev[1][2]) == 'attr' and
                    ev[1][2][2] == 'loseConnection' for ev in p.trace[:2])
                if lose_first and fb == C(True):
                    continue
                if any(kind(c) == 'attr' and c[2] == 'disconnecting' and pol
                       for c, pol in p.cond):
                    continue     # the connection is already being closed
                feeds = False
                for t in all_terms(
                        [e for tr in [p.trace] for e in iter_events(tr)],
                        p.cond):
                    if contains(t, lambda x: kind(x) == 'binop' and
                                x[1] == '+' and x[2] == BUF and (
                                    x[3] == data or (
                                        kind(x[3]) == 'sub' and
                                        x[3][1] == data))):
                        feeds = True
                # the length limit is a limit on ONE line: it may reject a
                # complete line, or what is left when no complete line is
                # buffered - never the whole buffer before the lines in it
                # were taken out (after the last handshake line the buffer
                # legitimately holds any amount of binary messages)
                seen_loop = False
                for ev in p.trace:
                    if ev[0] == 'loop':
                        seen_loop = True
                    arg = None
                    if ev[0] == 'enter' and ev[1].endswith(
                            '.authMessageLengthExceeded') and ev[3][3]:
                        arg = ev[3][3][0]
                    if ev[0] == 'call' and (ev[1][1] or '').endswith(
                            '.authMessageLengthExceeded') and ev[1][3]:
                        arg = ev[1][3][0]
                    if arg is None:
                        continue
                    is_line = kind(arg) == 'sub' and kind(arg[1]) == 'call' \
                        and kind(arg[1][2]) == 'attr' and \
                        arg[1][2][2] in ('partition', 'split')
                    no_delim = any(
                        kind(c) == 'cmp' and c[1] in ('in', 'not in') and
                        c[2] == delim and c[3] == arg and
                        ((c[1] == 'in') != pol) for c, pol in p.cond)
                    ok = is_line or no_delim or (
                        seen_loop and kind(arg) == 'loopout')
                    ctx.ob(r6, q, 'length-limit-on-one-line', ok,
                           'the %d-byte limit rejects %s on a path that has '
                           'not taken the complete lines out of it: a read '
                           'that carries the last handshake line together '
                           'with more than that many bytes of messages '
                           'drops the connection' % (
                               16384, term_str(arg)[:60]))
                n_feed += 1
                ctx.ob(r6, q, 'every-path-concatenates', feeds,
                       'a line-mode path does not look at buffer + chunk: '
                       'bytes would be handled outside the stream order')
    if n_switch == 0:
        ctx.ob(r5, q, 'switch-found', False,
               'dataReceived never switches to binary mode')


def shared_line_framing(ctx, r5, r6):
    """The line-mode clauses, reported under another property's rule ids
    (the handshake properties C06/C07 quantify over all splittings of the
    lines across reads)."""
    fi = ctx.prog.func(Q)
    line_mode(ctx, fi, ('param', fi.params()[1]), r5, r6)
