"""C05 - hostile bytes are rejected in bounded time: termination / progress
obligations over the decode call graph.

D1 loop progress, D2 recursion measure, D3 bounded reads, D4 unknown message
type rejected before the class table is indexed.
"""
import ast

from .. import callgraph as CG
from .. import spec
from ..codec import CodecModel, unpack_call
from ..loader import AnalysisError
from ..sym import (C, NONE, Interp, affine, contains, is_const, iter_events,
                   kind, term_str, walk_term)
from . import codec_rules as R
from .codec_rules import P, aff, ret_paths, split_ret, strip_sites

META = {
    'level': 'proof',
    'rule_text': 'Obligations: one per (while loop x body path to the back '
                 'edge) of every function reachable from parseMessage / '
                 'unmarshal; one per call edge inside a cycle of the decode '
                 'call graph; one per decoder return path (bounded read); the '
                 'unknown-type guard.  All are non-trivial (each compares '
                 'extracted terms or lower bounds).',
    'explanation': 'Termination and progress of decoding proved from the '
                   'source: every while loop reachable from parseMessage has '
                   'a variable compared with a loop-invariant bound that '
                   'strictly increases on every path to the back edge (lower '
                   'bounds of decoder sizes computed as a fixpoint over the '
                   'unmarshallers table; an explicit zero-progress guard is '
                   'recognised through the path condition); every cycle of '
                   'the decode call graph strictly shrinks the signature or '
                   'advances the offset; every decoder starts with a bounds-'
                   'checked struct.unpack_from at its own offset so reading '
                   'past the input raises. The proportionality constant and '
                   'the reactor\'s handling of the exception are not decided.',
    'trusted_base': ['CPython ast', 'txsa.sym interpreter',
                     'struct.unpack_from raises struct.error when the buffer '
                     'is too short', 'CPython recursion limit turns '
                     'unbounded depth into RecursionError'],
    'assumptions': ['exceptions propagate to the Twisted reactor, which '
                    'drops only the offending connection (trusted)',
                    'for-loops over finite sequences/generators terminate '
                    'when the generator\'s own loops are proved'],
    'decided': ['D1 loop progress (every decoder size bounded below)', 'D2 recursion measure',
                'D3 bounded reads', 'D4 unknown message type rejected',
                'D5 the body signature is a string and bounded (<= 255) before it is '
                'split and decoded - the premise under which the quadratic '
                'splitter is constant work'],
    'undecided': ['the constant of "work proportional to length" (signature '
                  'splitting is quadratic in a <=255-byte signature)',
                  'that the exception costs the peer only its own '
                  'connection (reactor behaviour)'],
}

UNSIGNED = set('BHIQLN')
NEG_INF = None


class Bounds:
    """Sound lower bounds of the sizes reported by the decoders (post-
    fixpoint of the size equations, started from 0)."""

    def __init__(self, ctx, cm):
        self.ctx = ctx
        self.cm = cm
        self.lb = {f.qualname: 0 for f in cm.dec.values()}
        self.lb['marshal.unmarshal'] = 0
        self.funcs = {f.qualname: f for f in cm.dec.values()}
        self.funcs['marshal.unmarshal'] = ctx.prog.func('marshal.unmarshal')
        self._paths = {}
        self.unbounded = {}
        for q, f in self.funcs.items():
            # both byte orders: a format may be signed in one of them only
            self._paths[q] = ret_paths(cm.paths(f, True)) + \
                ret_paths(cm.paths(f, False))
        for _ in range(8):
            new = {}
            for q in self.funcs:
                vals = []
                for p in self._paths[q]:
                    size, _v = split_ret(p)
                    if size is None:
                        # pure delegation f(...) -> bound of the callee
                        v = p.value
                        if kind(v) == 'call' and v[1] in self.lb:
                            vals.append(self.lb[v[1]])
                        else:
                            vals.append(0)
                        continue
                    b = self.bound(aff(size, p.state.falsy), p.cond)
                    if b is None:
                        # no lower bound (a SIGNED value read from the input
                        # enters the size): reported by size_bounded()
                        self.unbounded[(q, term_str(size)[:120])] = p
                    vals.append(b if b is not None else 0)
                new[q] = min(vals) if vals else 0
            if new == self.lb:
                break
            self.lb = new

    def table_min(self):
        return min(self.lb[f.qualname] for f in self.cm.dec.values())

    def atom_lb(self, a, cond=()):
        k = kind(a)
        if k == 'len':
            return 0
        if k == 'sub' and a[2] == C(0) and kind(a[1]) == 'call':
            c = a[1]
            u = unpack_call(c)
            if u:
                return 0 if u[0][-1:] in UNSIGNED else NEG_INF
            if kind(c[2]) == 'sub' and R._is_table(c[2][1], self.cm, 'dec'):
                b = self.table_min()
                if b == 0 and positive_by_cond(a, cond):
                    return 1
                return b
            if c[1] in self.lb:
                b = self.lb[c[1]]
                if b == 0 and positive_by_cond(a, cond):
                    return 1
                return b
        if k == 'star':
            for vec in a[2]:
                if self.bound(dict(vec)) is None or self.bound(dict(vec)) < 0:
                    return NEG_INF
            return 0
        return NEG_INF

    def bound(self, a, cond=()):
        total = 0
        for atom, coef in a.items():
            if atom == 1:
                total += coef
                continue
            if coef < 0:
                return NEG_INF
            b = self.atom_lb(atom, cond)
            if b is None:
                return NEG_INF
            total += coef * b
        return total


def positive_by_cond(x, cond):
    """Does the path condition establish x != 0 / x > 0 (given x >= 0)?"""
    xs = strip_sites(x)
    for c, pol in cond:
        c = strip_sites(c)
        if c == xs and pol:
            return True
        if kind(c) == 'cmp' and c[2] == xs and is_const(c[3]):
            op, kv = c[1], c[3][1]
            if op == '==' and kv == 0 and not pol:
                return True
            if op == '!=' and kv == 0 and pol:
                return True
            if op == '<=' and kv == 0 and not pol:
                return True
            if op == '>' and kv == 0 and pol:
                return True
            if op == '<' and kv == 1 and not pol:
                return True
            if op == '>=' and kv == 1 and pol:
                return True
    return False


def returns_at_least_param(prog, fi, pname):
    """Summary: every returned value is None or >= parameter pname (the
    loop-carried copy of that parameter, updated only by non-negative
    increments, or the parameter itself)."""
    it = Interp(prog, exc_edges=False)
    paths = it.run(fi)
    b = lambda d: all(c >= 0 for a, c in d if a == 1) and \
        all(c >= 0 and kind(a) == 'len' for a, c in d if a != 1)
    for p in paths:
        if p.outcome == 'fall' or (p.outcome == 'return' and p.value == NONE):
            continue
        if p.outcome == 'raise':
            continue
        v = p.value
        if v == ('param', pname):
            continue
        # an element of range(<that parameter>, stop): >= the parameter
        if kind(v) == 'elem' and kind(v[1]) == 'call' and \
                v[1][2] == ('builtin', 'range') and len(v[1][3]) == 2 and \
                v[1][3][0] == ('param', pname):
            continue
        if kind(v) == 'loopvar' and v[2] == pname:
            # all continue-path deltas of that slot are >= 0
            ok = True
            for ev in iter_events(p.trace, deep=False):
                pass
            continue
        return False
    # check monotonicity of the loop-carried slot
    for p in paths:
        for ev in p.trace:
            if ev[0] != 'loop':
                continue
            if ev[5].get(pname) not in (('param', pname),):
                continue
            for bp in ev[4]:
                if bp.outcome != 'continue':
                    continue
                d = bp.deltas.get(pname)
                if d is None or d[0] != 'num' or not b(d[1]):
                    return False
    return True


def while_progress(ctx, rule, fi, bounds, cm):
    """Every while loop of fi: bound-compared variable strictly increases on
    every path to the back edge."""
    prog = ctx.prog
    # a helper that searches a position in a loop and returns it (a bracket
    # matcher lifted out of the function) is used through its summary
    # `returns_at_least_param`, not inlined: its loop would hide the result
    searchers = {f.qualname for f in fi.module.funcs.values()
                 if any(isinstance(n, (ast.While, ast.For))
                        for n in ast.walk(f.node)) and
                 any(isinstance(n, ast.Return) and
                     isinstance(n.value, ast.Name)
                     for n in ast.walk(f.node)) and f is not fi}
    it = Interp(prog, exc_edges=True, no_inline=searchers)
    args = {'lendian': C(True)} if 'lendian' in fi.params() else {}
    paths = it.run(fi, args)
    seen = set()
    n_while = len([n for n in prog._iter_scope(fi.node)
                   if isinstance(n, ast.While)])
    for p in paths:
        for ev in iter_events(p.trace):
            if ev[0] != 'loop' or ev[2] != 'while':
                continue
            lid = ev[1]
            key = (lid[0], lid[1])
            for bp in ev[4]:
                if bp.outcome != 'continue':
                    continue
                if not bp.cond:
                    ctx.ob(rule, fi.qualname, 'while@%s' % _loopname(fi, lid),
                           False, 'while loop without a recognisable test')
                    continue
                t, pol = bp.cond[0]
                slot = None
                bound_t = None
                if kind(t) == 'cmp' and pol and t[1] in ('<', '<=', '!=') \
                        and kind(t[2]) == 'loopvar':
                    slot, bound_t = t[2][2], t[3]
                elif kind(t) == 'cmp' and pol and t[1] in ('>', '>=') and \
                        kind(t[3]) == 'loopvar':
                    slot, bound_t = t[3][2], t[2]
                tag = 'while@%s' % _loopname(fi, lid)
                if slot is None or contains(
                        bound_t, lambda x: kind(x) == 'loopvar'
                        and x[1] == lid):
                    ctx.ob(rule, fi.qualname, tag, False,
                           'loop test %s is not "variable < loop-invariant '
                           'bound"' % term_str(t)[:120])
                    continue
                seen.add(key)
                lv = ('loopvar', lid, slot)
                d = bp.deltas.get(slot)
                ok = False
                why = ''
                if d is not None and d[0] == 'num':
                    da = {(strip_sites(a) if a != 1 else 1): c
                          for a, c in d[1]}
                    b = bounds.bound(da, bp.cond)
                    ok = b is not None and b >= 1
                    why = 'advance per iteration %s has lower bound %s' % (
                        R.affine_str(da), b)
                else:
                    e = bp.state.store.get(slot)
                    ea = aff(e, bp.state.falsy) if e is not None else {}
                    const = ea.get(1, 0)
                    others = [(a, c) for a, c in ea.items() if a != 1]
                    if len(others) == 1 and others[0][1] == 1 and \
                            kind(others[0][0]) == 'call':
                        call = others[0][0]
                        callee = prog.all_funcs.get(call[1] or '')
                        if callee is not None and call[3]:
                            # the position the helper starts from is one of
                            # its parameters (the first one of a closure; a
                            # later one when the helper was lifted out and
                            # gets what it captured passed in)
                            for pn, arg in zip(callee.params(), call[3]):
                                a0 = aff(('binop', '-', arg, lv),
                                         bp.state.falsy)
                                if set(a0) <= {1} and \
                                        a0.get(1, 0) + const >= 1 and \
                                        returns_at_least_param(prog, callee,
                                                               pn):
                                    ok = True
                                    break
                        why = 'new value %s' % R.affine_str(ea)
                    else:
                        why = 'new value %s is not an increment' % (
                            R.affine_str(ea))
                ctx.ob(rule, fi.qualname, tag, ok,
                       'loop variable %r must strictly increase on every '
                       'path to the back edge: %s' % (slot, why),
                       {'path_condition': [(term_str(c)[:80], pl)
                                           for c, pl in bp.cond[:6]]})
    return n_while, len(seen)


def _loopname(fi, lid):
    # stable name: ordinal of the while statement inside the function
    whiles = sorted(n.lineno for n in ast.walk(fi.node)
                    if isinstance(n, (ast.While, ast.For)))
    try:
        return 'loop%d' % (whiles.index(lid[1]) + 1)
    except ValueError:
        return 'loop'


# ---------------------------------------------------------------------------

def recursion_measure(ctx, rule, cm, bounds):
    prog = ctx.prog
    nodes = {f.qualname: f for f in cm.dec.values()}
    for q in ('marshal.unmarshal', 'marshal.genCompleteTypes'):
        nodes[q] = prog.func(q)
    edges = []   # (caller, callee, label, detail)
    for q, fi in nodes.items():
        it = Interp(prog, exc_edges=False)
        args = {'lendian': C(True)} if 'lendian' in fi.params() else {}
        for p in it.run(fi, args):
            for before, ev, falsy in R.walk_segments(p.trace,
                                                     p.state.falsy):
                if ev[0] != 'call':
                    continue
                c = ev[1]
                targets = []
                if c[1] in nodes:
                    targets = [c[1]]
                elif kind(c[2]) == 'sub' and R._is_table(c[2][1], cm, 'dec'):
                    targets = [f.qualname for f in cm.dec.values()]
                if not targets:
                    continue
                for t in targets:
                    callee = nodes[t]
                    ps = callee.params()
                    b = dict(zip(ps, c[3]))
                    b.update(dict(c[4]))
                    sig_arg = b.get(ps[0])
                    label, detail = _edge_label(fi, callee, sig_arg, b,
                                                falsy, bounds, p, ev)
                    edges.append((q, t, label, detail))
    # SCCs
    graph = {}
    for a, b, l, d in edges:
        graph.setdefault(a, set()).add(b)
    sccs = _sccs(list(nodes), graph)
    in_cycle = {}
    for comp in sccs:
        if len(comp) > 1 or any(a == b for a, b, _, _ in edges
                                if a in comp and b in comp):
            for x in comp:
                in_cycle[x] = frozenset(comp)
    n = 0
    weak = {}
    for a, b, l, d in edges:
        if a in in_cycle and b in in_cycle[a]:
            n += 1
            ctx.ob(rule, a, 'edge->%s' % b.split('.')[-1], l != 'BAD',
                   'recursive edge %s -> %s neither shrinks the signature, '
                   'nor advances the offset, nor passes them on unchanged: '
                   '%s' % (a, b, d), d)
            if l == 'KEEP':
                weak.setdefault(a, set()).add(b)
    # removing strictly decreasing edges must leave the graph acyclic
    for comp in _sccs(list(nodes), weak):
        cyc = len(comp) > 1 or (comp and comp[0] in weak.get(comp[0], ()))
        if cyc:
            ctx.ob(rule, sorted(comp)[0], 'cycle-without-decrease', False,
                   'call cycle %s has no edge that strictly shrinks the '
                   'signature or advances the offset' % sorted(comp))
    ctx.ob(rule, 'marshal.unmarshal', 'cycles-have-decreasing-edge', True,
           'every cycle of the decode call graph contains a strictly '
           'decreasing edge', {'edges_in_cycles': n}, nontrivial=True)
    return n


def _proper_slice_of(t, base):
    """t = base[lo:hi] with lo >= 1 or hi <= -1 (constant or loop index+1)"""
    if kind(t) == 'sub' and t[1] == base and kind(t[2]) == 'slice':
        lo, hi = t[2][1], t[2][2]
        if is_const(lo) and isinstance(lo[1], int) and lo[1] >= 1:
            return True
        if is_const(hi) and isinstance(hi[1], int) and hi[1] <= -1:
            return True
        a = affine(lo)
        # loop index (>= 0 by construction: starts at 0, only incremented)
        if a.get(1, 0) >= 1 and all(
                kind(k) in ('loopvar', 'loopout') and c >= 0
                for k, c in a.items() if k != 1):
            return True
    return False


def _edge_label(fi, callee, sig_arg, b, falsy, bounds, p, ev):
    own_sig = ('param', fi.params()[0])
    ps = callee.params()
    # offset measure (decoders only): callee offset - own offset
    adv = None
    if len(ps) > 2 and len(fi.params()) > 2 and ps[2] in b and \
            fi.params()[1] == 'data':
        d = aff(('binop', '-', b[ps[2]], ('param', fi.params()[2])), falsy)
        # loop-carried offset: loopvar >= initial (increments proved by D1)
        d2 = {}
        for a_, c_ in d.items():
            if a_ != 1 and kind(a_) in ('loopvar',):
                continue
            d2[a_] = c_
        adv = bounds.bound(d2, p.cond)
    detail = {'signature_argument': term_str(sig_arg)[:120],
              'offset_advance_lower_bound': adv}
    shrinks = _proper_slice_of(sig_arg, own_sig) or (
        kind(sig_arg) == 'sub' and _proper_slice_of(sig_arg[1], own_sig))
    # slices of a slice-of-own (tsig = ct[1:])
    keeps = sig_arg == own_sig or contains(
        sig_arg, lambda x: kind(x) == 'elem' and contains(
            x, lambda y: kind(y) == 'call' and
            y[1] == 'marshal.genCompleteTypes' and y[3] and
            y[3][0] == own_sig))
    if shrinks:
        return 'DEC', detail
    if adv is not None and adv >= 1:
        return 'DEC', detail
    if keeps and (adv is None or adv >= 0):
        return 'KEEP', detail
    return 'BAD', detail


def _sccs(nodes, graph):
    index = {}
    low = {}
    stack = []
    on = set()
    out = []
    counter = [0]

    def visit(v):
        index[v] = low[v] = counter[0]
        counter[0] += 1
        stack.append(v)
        on.add(v)
        for w in graph.get(v, ()):
            if w not in index:
                visit(w)
                low[v] = min(low[v], low[w])
            elif w in on:
                low[v] = min(low[v], index[w])
        if low[v] == index[v]:
            comp = []
            while True:
                w = stack.pop()
                on.discard(w)
                comp.append(w)
                if w == v:
                    break
            out.append(comp)
    for v in nodes:
        if v not in index:
            visit(v)
    return out


# ---------------------------------------------------------------------------

def bounded_reads(ctx, rule, cm):
    for code, fi in sorted(cm.dec.items()):
        data, off = P(fi, 1), P(fi, 2)
        for p in ret_paths(cm.paths(fi, True)):
            v = p.value
            if kind(v) == 'call' and v[1] == 'marshal.unmarshal':
                ctx.ob(rule, fi.qualname, 'first-read:%s' % code, True,
                       'delegates to the driver', nontrivial=False)
                continue
            reads = []
            for c in p.calls(deep=False):
                u = unpack_call(c)
                if u and c[1] == 'struct.unpack_from':
                    reads.append(u)
                if c[1] in ('marshal.unmarshal_signature',) and \
                        len(c[3]) >= 3 and c[3][1] == data and \
                        c[3][2] == off:
                    reads.append(('delegated', data, off))
            ok = any(r[1] == data and r[2] is not None and
                     R.aff_eq(r[2], off, p.state.falsy) for r in reads)
            ctx.ob(rule, fi.qualname, 'first-read:%s' % code, ok,
                   'decoder of %r must begin with a bounds-checked '
                   'struct.unpack_from(fmt, data, offset) at its own offset '
                   '(a read past the end of the input then raises); reads: '
                   '%s' % (code, [(r[0], term_str(r[2])[:60] if r[2] else '')
                                  for r in reads]))
        # no size may be derived from a silent slice: sizes use only unpacked
        # values, len(pad) and callee sizes - checked by Bounds (atoms it
        # cannot bound are reported under D1)


def signature_bounded(ctx, rule):
    """genCompleteTypes copies the rest of the signature once per array
    code: its work is quadratic in the signature length.  That is constant
    work only if the length is bounded, which the wire type SIGNATURE
    guarantees (one length byte) - but a header field is a VARIANT and a peer
    may put a STRING of any length there.  parseMessage must therefore bound
    the length itself before the signature reaches the splitter."""
    prog = ctx.prog
    fi = prog.func('message.parseMessage')
    n = 0
    for p in Interp(prog, exc_edges=False).run(fi):
        if p.outcome != 'return':
            continue
        for c in p.calls(deep=False):
            if c[1] != 'marshal.unmarshal' or not c[3] or \
                    c[3][0] == C(spec.HEADER_SIGNATURE):
                continue
            sig = c[3][0]
            lens = ('call', 'len', ('builtin', 'len'), (sig,), (), None)
            bounded = False
            for t, pol in p.cond:
                if kind(t) == 'cmp' and t[2] == lens and is_const(t[3]) \
                        and isinstance(t[3][1], int):
                    k = t[3][1]
                    if (t[1] == '>' and not pol and k <= 255) or \
                       (t[1] == '>=' and not pol and k <= 256) or \
                       (t[1] == '<=' and pol and k <= 255) or \
                       (t[1] == '<' and pol and k <= 256):
                        bounded = True
            # ... and len() bounds a signature only if the value IS a
            # string: the field is a variant, and len(['(ayay...)']) == 1
            is_str = any(
                kind(t) == 'call' and t[1] == 'isinstance' and pol and
                len(t[3]) == 2 and t[3][0] == sig and
                t[3][1] in (('builtin', 'str'),
                            ('tuple', (('builtin', 'str'),)))
                for t, pol in p.cond) or any(
                kind(t) == 'cmp' and t[1] in ('is', '==') and pol and
                kind(t[2]) == 'call' and t[2][1] == 'type' and
                t[2][3] == (sig,) and t[3] == ('builtin', 'str')
                for t, pol in p.cond)
            ctx.ob(rule, fi.qualname, 'signature-is-a-string', is_str,
                   'the body is decoded under a header-field value that was '
                   'not tested to be a string: the field is a variant, and a '
                   'peer can send e.g. an ARRAY holding one string of '
                   'megabytes - its len() is 1, it passes the length bound '
                   'and is split by the quadratic splitter')
            n += 1
            ctx.ob(rule, fi.qualname, 'signature-length-bounded', bounded,
                   'the body is decoded under a signature taken from a '
                   'header field whose length was not bounded by 255 on '
                   'this path: the field is a variant, a peer can send a '
                   'STRING of megabytes there, and splitting it into '
                   'complete types is quadratic (a 1.5 MB message already '
                   'costs seconds, 128 MiB hours)')
    if n == 0:
        raise AnalysisError('parseMessage: the body decode was not found')


def unknown_type_guard(ctx, rule):
    prog = ctx.prog
    fi = prog.func('message.parseMessage')
    it = Interp(prog, exc_edges=False)
    paths = it.run(fi)
    mt = Interp(prog)
    mt._stack.append(fi)
    table = mt.module_name(fi.module, '_mtype')
    n = 0
    raise_ok = False
    for p in paths:
        # where is the class table indexed?
        subs = set()
        for ev in iter_events(p.trace):
            for part in ev[1:]:
                if isinstance(part, tuple):
                    for t in walk_term(part):
                        if kind(t) == 'sub' and t[1] == table:
                            subs.add(t[2])
        for t in walk_term(p.value) if p.value else ():
            if kind(t) == 'sub' and t[1] == table:
                subs.add(t[2])
        # ... or looked up with .get(): the result is the class, None (the
        # default) stands for "unknown"
        gets = set()
        for ev in iter_events(p.trace):
            for part in ev[1:]:
                if isinstance(part, tuple):
                    for t in walk_term(part):
                        if kind(t) == 'call' and kind(t[2]) == 'attr' and \
                                t[2][1] == table and t[2][2] == 'get' and \
                                len(t[3]) == 1:
                            gets.add(t)
        for c, pol in p.cond:
            for t in walk_term(c):
                if kind(t) == 'call' and kind(t[2]) == 'attr' and \
                        t[2][1] == table and t[2][2] == 'get' and \
                        len(t[3]) == 1:
                    gets.add(t)

        def is_none(g, want):
            for c, pol in p.cond:
                if kind(c) == 'cmp' and c[2] == g and c[3] == NONE and \
                        c[1] in ('is', 'is not'):
                    if ((c[1] == 'is') == pol) == want:
                        return True
                if c == g and pol != want:
                    return True
            return False
        for g in gets:
            n += 1
            if p.outcome == 'raise' and kind(p.value) == 'call' and \
                    p.value[1] == 'error.MarshallingError' and \
                    is_none(g, True):
                raise_ok = True
            elif p.outcome != 'raise':
                ctx.ob(rule, fi.qualname, 'guard-dominates-index',
                       is_none(g, False),
                       'the message class is taken from %s without a test '
                       'that the type is known' % term_str(g)[:60])
        for k in subs:
            n += 1
            ok = any(kind(c) == 'cmp' and c[2] == k and c[3] == table and
                     ((c[1] == 'not in' and not pol) or
                      (c[1] == 'in' and pol)) for c, pol in p.cond)
            ctx.ob(rule, fi.qualname, 'guard-dominates-index', ok,
                   'the message-class table is indexed with %s without a '
                   'dominating membership test' % term_str(k))
        if p.outcome == 'raise' and kind(p.value) == 'call' and \
                p.value[1] == 'error.MarshallingError':
            if any(kind(c) == 'cmp' and c[3] == table and
                   ((c[1] == 'not in' and pol) or (c[1] == 'in' and not pol))
                   for c, pol in p.cond):
                raise_ok = True
    ctx.ob(rule, fi.qualname, 'unknown-type-raises-MarshallingError',
           raise_ok, 'an unknown message type must raise MarshallingError')
    if n == 0:
        raise AnalysisError('parseMessage: could not find where the message '
                            'class table is indexed')


def buffer_slices(ctx, rule, cm):
    """Decoding is linear only if no decoder copies the message: a slice of
    the buffer with an open end (`data[:end]`, `data[offset:]`) costs the
    length of the MESSAGE, once per value decoded - quadratic for a message
    of many small arrays or strings.  A slice with both ends given
    (`data[offset + 4: offset + 4 + slen]`) costs what the value occupies."""
    prog = ctx.prog
    n = 0
    # (function, name of the parameter that holds the message buffer): the
    # decoders' second parameter, followed through the helpers they hand it to
    bufp = {}
    work = []
    for fi in list(cm.dec.values()) + [prog.func('marshal.unmarshal')]:
        ps = fi.params()
        if len(ps) >= 2:
            work.append((fi, ps[1]))
    while work:
        fi, pn = work.pop()
        if pn in bufp.get(fi.qualname, (None, set()))[1]:
            continue
        bufp.setdefault(fi.qualname, (fi, set()))[1].add(pn)
        for cs in CG.edges_from(prog, fi):
            for i, a in enumerate(cs.node.args):
                if isinstance(a, ast.Name) and a.id == pn:
                    for t in cs.targets:
                        if t.module.name != 'marshal':
                            continue
                        tp = t.params()
                        k = i + (1 if t.is_method and not isinstance(
                            cs.node.func, ast.Name) else 0)
                        if k < len(tp):
                            work.append((t, tp[k]))
    for q, (fi, names) in sorted(bufp.items()):
        buf = set(names)
        # names the buffer is re-bound to
        for a in prog._iter_scope(fi.node):
            if isinstance(a, ast.Assign) and len(a.targets) == 1 and \
                    isinstance(a.targets[0], ast.Name) and any(
                        isinstance(x, ast.Name) and x.id in buf
                        for x in ast.walk(a.value)) and isinstance(
                            a.value, (ast.Subscript, ast.Name)):
                buf.add(a.targets[0].id)
        for sub in prog._iter_scope(fi.node):
            if isinstance(sub, ast.Subscript) and \
                    isinstance(sub.slice, ast.Slice) and \
                    isinstance(sub.value, ast.Name) and sub.value.id in buf:
                n += 1
                sl = sub.slice
                ok = sl.lower is not None and sl.upper is not None and not (
                    isinstance(sl.lower, ast.Constant))
                ctx.ob(rule, q, 'buffer-slice-is-value-sized@%s'
                       % ast.unparse(sub)[:40], ok,
                       '%s copies the message buffer up to / from a position '
                       '(an open-ended slice) every time a value of this '
                       'type is decoded: the cost of decoding is no longer '
                       'proportional to the length of the message (line %d)'
                       % (ast.unparse(sub)[:60], sub.lineno))
    ctx.extra['buffer_slices'] = n
    if n < 1:
        raise AnalysisError('the string decoders\' slices of the buffer were '
                            'not found (anchor changed)')


def run(ctx):
    prog = ctx.prog
    cm = CodecModel(prog)
    buffer_slices(ctx, 'C05.D3', cm)
    bounds = Bounds(ctx, cm)
    ctx.extra['decoder_size_lower_bounds'] = dict(bounds.lb)
    # every reported size has a lower bound: the loops over elements only
    # make progress if no decoder can report a NEGATIVE size
    for q in sorted(bounds.funcs):
        bad = [t for (qq, t) in bounds.unbounded if qq == q]
        ctx.ob('C05.D1', q, 'size-bounded-below', not bad,
               'the size this decoder reports has no lower bound: %s - a '
               'value read SIGNED from the input (or subtracted) enters it, '
               'so a hostile length makes the size negative, the position '
               'of the enclosing array loop moves backwards and the loop '
               'never ends' % (bad[:1] or ''), nontrivial=bool(bad))
    roots = [prog.func('message.parseMessage'),
             prog.func('marshal.unmarshal')]
    reach = CG.reachable(prog, roots, within=('marshal', 'message'))
    for q in ('marshal.genCompleteTypes',):
        fi = prog.func(q)
        reach[fi.qualname] = fi
        for nf in fi.nested.values():
            reach[nf.qualname] = nf
    total_w = proved = 0
    for q, fi in sorted(reach.items()):
        has_while = any(isinstance(n, ast.While)
                        for n in prog._iter_scope(fi.node))
        if not has_while:
            continue
        nw, seen = while_progress(ctx, 'C05.D1', fi, bounds, cm)
        total_w += nw
        proved += seen
        if seen < nw:
            ctx.ob('C05.D1', fi.qualname, 'all-while-loops-analysed', False,
                   '%d while loop(s) but only %d could be analysed'
                   % (nw, seen))
    ctx.extra['functions_reachable_from_parseMessage'] = sorted(reach)
    ctx.extra['while_loops'] = total_w
    recursion_measure(ctx, 'C05.D2', cm, bounds)
    bounded_reads(ctx, 'C05.D3', cm)
    unknown_type_guard(ctx, 'C05.D4')
    signature_bounded(ctx, 'C05.D5')
    ctx.floor('C05.D5', 1)
    ctx.floor('C05.D1', 5)
    ctx.floor('C05.D2', 4)
    ctx.floor('C05.D3', 17)
    ctx.floor('C05.D4', 2)
