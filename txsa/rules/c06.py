"""C06 - the bus authenticates only after a mechanism accepted: typestate
analysis of the machine extracted from BusAuthenticator, plus the line-mode
limits of BasicDBusProtocol.dataReceived on the server side."""
import ast

from .. import spec
from ..fsm import CLOSE, Machine
from ..loader import AnalysisError
from ..sym import (C, NONE, Interp, State, contains, is_const, iter_events,
                   kind, term_str, walk_term)

K = 'authentication.BusAuthenticator'

META = {
    'level': 'other',
    'rule_text': 'Instances: every deduplicated transition row (abstract '
                 'state, command, outputs, next state | CLOSE) of the '
                 'machine extracted from BusAuthenticator, checked against '
                 'the safety conditions and the specification\'s server '
                 'table; plus the paths of dataReceived in line mode for '
                 'the limits. A row is non-trivial when it emits output, '
                 'changes state or closes.',
    'explanation': 'Typestate analysis: a finite transition system is '
                   'extracted from the source of BusAuthenticator on every '
                   'run by abstract interpretation (tracked fields = all '
                   'self.X; commands = the _auth_* methods found through the '
                   'getattr dispatch idiom + the not-found branch; opaque '
                   'tests fork; outputs abstracted to their leading token; '
                   'DBusAuthenticationFailed = CLOSE) and explored '
                   'exhaustively from the state after __init__ + '
                   'beginAuthentication. Checked on the graph: '
                   'authenticated only from WaitingForBegin with a mechanism '
                   'that answered OK in the current exchange; responses '
                   'equal the server table for every (state, command); the '
                   'rejection limit; and in dataReceived the first-byte, '
                   'line-length and unterminated-buffer limits. The level '
                   'is "other", not model checking: what is explored is an '
                   'abstraction computed from the AST, no trace is replayed '
                   'against the implementation. Acceptance of good '
                   'credentials (mechanism internals) is NOT decided.',
    'trusted_base': ['txsa/spec.py server table (D-Bus spec, Authentication '
                     'Protocol)', 'txsa.sym interpreter / txsa.fsm extractor',
                     'CPython ast'],
    'assumptions': ['mechanism objects answer step() with any of OK / '
                    'CONTINUE / other (all three explored)',
                    'non-auth exceptions (bad hex in DATA, non-ASCII command '
                    'bytes) reach the reactor, which closes the connection'],
    'decided': ['D1 safety of authentication; what runs once a client is accepted cannot fail for a peer without a local user entry', 'D2 response table (the command word is taken exactly; a mechanism\'s cleanup runs once per exchange, so the reject path always answers)',
                'D3 limits (rejections - the count is never lowered -, first byte, line length); the text of a failure is a string (the handler reports before it closes)',
                'D4 a mechanism answers OK only on its accepting branch '
                '(cookie: computed hash == received hash, no exception '
                'swallowed on the way; EXTERNAL: peer credentials present)',
                'D5 line framing independent of read splitting (shared with '
                'C04-D5/D6)',
                'D6 text/bytes agreement on the accepting data path (a '
                'necessary condition of "good credentials are accepted")'],
    'undecided': ['a conforming client with good credentials is accepted '
                  '(mechanisms\' cryptographic / file-system behaviour)',
                  'a wrong cookie is never accepted, beyond D1',
                  ],
}

WFA, WFD, WFB = 'WaitingForAuth', 'WaitingForData', 'WaitingForBegin'


def field(m, s, name):
    a = m.get(s, name)
    return a[1] if a[0] == 'c' else a[0]


def build(prog):
    m = Machine(prog, K)
    for need in ('state', 'authenticated', 'current_mech', 'reject_count'):
        if need not in m.fields:
            raise AnalysisError('anchor vanished: %s.%s' % (K, need))
    inits = m.initial(['__init__', 'beginAuthentication'])
    m.explore(inits, terminal=lambda mm, s:
              mm.get(s, 'authenticated') == ('c', True))
    return m, inits


def took_ok_fork(t):
    """The path compared the mechanism's step() status with 'OK' and took
    the true branch."""
    for c, pol in t.path.cond:
        if kind(c) == 'cmp' and c[1] == '==' and c[3] == C('OK') and pol:
            if contains(c[2], lambda x: kind(x) == 'call' and (
                    (kind(x[2]) == 'attr' and x[2][2] == 'step') or
                    (x[1] or '').endswith('.step'))):
                return True
    return False


def run(ctx):
    prog = ctx.prog
    m, inits = build(prog)
    frag = m.fragile_split()
    ctx.ob('C06.D2', m.dispatch.qualname, 'line-split-cannot-fail',
           not frag, 'the dispatcher unpacks a split of the line into a fixed '
           'number of names without the matching maxsplit (%s): %s' % (
               '; '.join('%s (line %d)' % (t, ln) for ln, t in frag),
               'a client line with more words than the dispatcher unpacks raises out of dataReceived instead of being answered'))
    lossy = m.lossy_dispatch_key()
    ctx.ob('C06.D2', m.dispatch.qualname, 'command-word-taken-exactly',
           not lossy, 'the handler is chosen from the command word after it '
           'was %s: a line that is not a protocol command is answered as if '
           'it were one (the response table requires ERROR)' % '; '.join(
               '%s (line %d)' % (t, ln) for ln, t in lossy))
    cls = prog.cls(K)
    rows = m.rows()
    ctx.extra['states'] = len(m.states)
    ctx.extra['transitions'] = len(m.transitions)
    ctx.extra['rows'] = len(rows)
    ctx.extra['commands'] = m.commands + ['<unknown>']
    ctx.extra['tracked_fields'] = m.fields
    ctx.extra['traces_validated_against_impl'] = 0
    mx = Interp(prog)
    mx._stack.append(prog.lookup_method(cls, '__init__'))
    maxrej = mx.class_attr_term(cls, 'MAX_REJECTS_ALLOWED')
    if not is_const(maxrej):
        raise AnalysisError('MAX_REJECTS_ALLOWED is not a constant')
    MAXR = maxrej[1]
    ctx.ob('C06.D3', K, 'max-rejects-constant', MAXR == spec.MAX_REJECTS,
           'the connection must be closed after more than %d rejections; '
           'MAX_REJECTS_ALLOWED is %r' % (spec.MAX_REJECTS, MAXR))
    where = lambda t: K + '.' + (m.prefix + t.cmd if t.cmd != '<unknown>'
                                 else 'handleAuthMessage')

    def trace_to(t):
        seq = m.shortest_to(inits, t.pre) or []
        return {'from_initial': seq + [t.cmd],
                'pre': m.show(t.pre),
                'choices': [l for l in t.labels][:6]}

    # D1 safety ---------------------------------------------------------------
    n_auth = 0
    for t in m.transitions:
        if ('c', True) in t.stores.get('authenticated', []):
            n_auth += 1
            pre_state = field(m, t.pre, 'state')
            mech = m.get(t.pre, 'current_mech')
            ok = pre_state == WFB and mech == ('obj',)
            ctx.ob('C06.D1', where(t), 'authenticated-only-from-WaitingFor'
                   'Begin', ok, 'authenticated is set from state %r with '
                   'mechanism %r: a peer must be accepted only after a '
                   'mechanism answered OK and BEGIN followed'
                   % (pre_state, mech[0]), trace_to(t))
        if ('c', WFB) in t.stores.get('state', []):
            ok = took_ok_fork(t) and 'OK' in t.outputs and \
                m.get(t.post, 'current_mech') == ('obj',) and not t.closed
            ctx.ob('C06.D1', where(t), 'WaitingForBegin-only-after-OK', ok,
                   'the machine enters WaitingForBegin on a path where the '
                   'mechanism did not answer OK (or OK was not sent)',
                   trace_to(t))
        if 'current_mech' in t.stores and not t.closed and not t.exc:
            becomes_auth = ('c', True) in t.stores.get('authenticated', [])
            post_state = field(m, t.post, 'state')
            if not becomes_auth:
                ok = post_state != WFB or took_ok_fork(t)
                ctx.ob('C06.D1', where(t), 'mechanism-change-leaves-'
                       'WaitingForBegin', ok, 'the current mechanism is '
                       'replaced or cleared while the machine stays in '
                       'WaitingForBegin: a later BEGIN would be accepted '
                       'without an OK in the current exchange', trace_to(t))
            if t.stores['current_mech'][-1] == ('obj',):
                offered = False
                for c, pol in t.path.cond:
                    if kind(c) == 'cmp' and c[1] in ('in', 'not in') and \
                            (c[1] == 'in') == pol and \
                            contains(c[3], lambda x: x == (
                                'attr', ('param', 'self'), 'mechanisms')
                                or kind(x) == 'inst'):
                        offered = True
                ctx.ob('C06.D1', where(t), 'mechanism-from-offered-table',
                       offered, 'a mechanism object is created without the '
                       'name having been found in the offered table',
                       trace_to(t))
    if n_auth == 0:
        ctx.ob('C06.D1', K, 'can-authenticate', False,
               'no transition ever sets authenticated: nobody can log in')
    # anything reachable with authenticated True but state != WFB ?
    for s in m.states:
        if m.get(s, 'authenticated') == ('c', True):
            ok = field(m, s, 'state') == WFB
            ctx.ob('C06.D1', K, 'authenticated-state-shape', ok,
                   'reachable authenticated state %s' % m.show(s))
    # the protocol drops the authenticator right after success
    _protocol_drops_authenticator(ctx)

    # D2 response table ---------------------------------------------------------
    allowed = {}
    for st in (WFA, WFD, WFB):
        for cmd in m.commands + ['<unknown>']:
            allowed[(st, cmd)] = {(('ERROR',), st)}
    mech_outcomes = {(('OK',), WFB), (('DATA',), WFD), (('REJECTED',), WFA),
                     ((), CLOSE)}
    allowed[(WFA, 'AUTH')] = set(mech_outcomes)
    allowed[(WFD, 'DATA')] = set(mech_outcomes)
    for st in (WFA, WFD, WFB):
        allowed[(st, 'ERROR')] = {(('REJECTED',), WFA), ((), CLOSE)}
        allowed[(st, 'BEGIN')] = {((), CLOSE)}
    for st in (WFD, WFB):
        allowed[(st, 'CANCEL')] = {(('REJECTED',), WFA), ((), CLOSE)}
    allowed[(WFB, 'BEGIN')] = {((), 'AUTHENTICATED')}
    allowed[(WFB, 'NEGOTIATE_UNIX_FD')] = {(('AGREE_UNIX_FD',), WFB),
                                           (('ERROR',), WFB)}
    required = {
        (WFA, 'AUTH'): {(('OK',), WFB), (('DATA',), WFD),
                        (('REJECTED',), WFA)},
        (WFD, 'DATA'): {(('OK',), WFB), (('DATA',), WFD),
                        (('REJECTED',), WFA)},
        (WFB, 'BEGIN'): {((), 'AUTHENTICATED')},
    }
    seen = {}
    for (pre, cmd, outs, post), t in rows.items():
        st = field(m, pre, 'state')
        if m.get(pre, 'authenticated') == ('c', True):
            continue
        if post == 'EXC':
            continue      # non-auth exception: connection dropped by reactor
        if post == CLOSE:
            obs = (outs, CLOSE)
        elif m.get(post, 'authenticated') == ('c', True):
            obs = (outs, 'AUTHENTICATED')
        else:
            obs = (outs, field(m, post, 'state'))
        seen.setdefault((st, cmd), set()).add(obs)
        al = allowed.get((st, cmd))
        if al is None:
            ctx.ob('C06.D2', where(t), 'known-state:%s' % st, False,
                   'state %r is not a state of the server machine' % st,
                   trace_to(t))
            continue
        ok = obs in al
        cnt = field(m, pre, 'reject_count')
        ctx.ob('C06.D2', where(t), 'row:%s/%s' % (st, cmd), ok,
               'in %s (rejections so far: %s) the bus answers %s with %s and '
               'goes to %s; the authentication state machine allows only %s'
               % (st, cnt, cmd, list(outs) or 'nothing', obs[1],
                  sorted((list(o), n) for o, n in al)), trace_to(t),
               nontrivial=bool(outs) or obs[1] != st)
        if 'REJECTED' in outs:
            # the REJECTED line lists the offered mechanisms
            pass
    for key, req in required.items():
        got = seen.get(key, set())
        for r in req:
            ctx.ob('C06.D2', K + '.' + m.prefix + key[1],
                   'possible:%s/%s->%s' % (key[0], key[1],
                                           ','.join(r[0]) or r[1]),
                   r in got, 'in %s, %s must be able to lead to %s %s'
                   % (key[0], key[1], list(r[0]), r[1]))
    # REJECTED carries the mechanism list
    rej = None
    for s in m.states:
        a = m.get(s, 'reject_msg') if 'reject_msg' in m.fields else None
        if a and a[0] == 'c':
            rej = a[1]
    mechs = mx.class_attr_term(cls, 'authenticators')
    names = [k[1] for k, _ in mechs[1]] if kind(mechs) == 'dict' else []
    if rej is not None and names:
        ok = rej.startswith(b'REJECTED ') and all(
            n in rej.split()[1:] for n in names)
        ctx.ob('C06.D2', K + '.__init__', 'rejected-lists-mechanisms', ok,
               'REJECTED must list the offered mechanisms %s; the message is '
               '%r' % (names, rej))
    else:
        ctx.ob('C06.D2', K + '.__init__', 'rejected-lists-mechanisms',
               False, 'could not fold the REJECTED message / mechanism table')

    # D3 limits --------------------------------------------------------------------
    n_lim = 0
    for (pre, cmd, outs, post), t in rows.items():
        cnt = m.get(pre, 'reject_count')
        if cnt[0] != 'c':
            continue
        al = allowed.get((field(m, pre, 'state'), cmd), set())
        rejecting = (('REJECTED',), WFA) in al
        if not rejecting or post == 'EXC':
            continue
        is_rej = 'REJECTED' in outs or post == CLOSE
        if not is_rej:
            continue
        n_lim += 1
        if cnt[1] >= MAXR:
            ok = post == CLOSE and 'REJECTED' not in outs
            msg = 'after %d rejections a further one must close the ' \
                  'connection without REJECTED' % cnt[1]
        else:
            ok = post != CLOSE and 'REJECTED' in outs and \
                m.get(post, 'reject_count') == ('c', cnt[1] + 1)
            msg = 'rejection number %d must be answered REJECTED (the ' \
                  'connection is closed only after more than %d)' % (
                      cnt[1] + 1, MAXR)
        ctx.ob('C06.D3', where(t), 'reject-limit:%s' % (
            'over' if cnt[1] >= MAXR else 'under'), ok, msg, trace_to(t))
    if n_lim < 6:
        raise AnalysisError('rejection-limit rule matched %d rows' % n_lim)
    # "more than five rejections" counts rejections on the CONNECTION: no
    # transition may lower the counter (an OK that resets it lets a peer
    # alternate accepted and abandoned exchanges for ever)
    for (pre, cmd, outs, post), t in rows.items():
        if post in (CLOSE, 'EXC'):
            continue
        a, b = m.get(pre, 'reject_count'), m.get(post, 'reject_count')
        if a[0] != 'c' or b is None:
            continue
        ok = b[0] == 'c' and b[1] >= a[1]
        ctx.ob('C06.D3', where(t), 'reject-count-never-lowered', ok,
               'the rejection counter goes from %s to %s on %s in state %s: '
               'the limit of %d then counts only the rejections since the '
               'last accepted exchange, and a peer that lets a mechanism '
               'succeed and cancels it is never cut off' % (
                   a[1], b[1] if b[0] == 'c' else b, cmd,
                   field(m, pre, 'state'), MAXR), trace_to(t),
               nontrivial=False)
    _line_mode_limits(ctx)
    _mechanism_acceptance(ctx, mechs)
    _cleanup_once(ctx, mechs)
    _acceptance_cannot_fail(ctx)
    from .common import failure_text_is_text
    failure_text_is_text(ctx, 'C06.D3', 'the bus never closes the connection it decided to close')
    _text_bytes_agreement(ctx, mechs)
    from .c09 import per_instance_registries
    per_instance_registries(ctx, 'C06.D1', ('authentication', 'protocol', 'bus'),
                            'server authenticators of different connections share state')
    ctx.floor('C06.D6', 3)
    from .c04 import shared_line_framing
    shared_line_framing(ctx, 'C06.D5', 'C06.D5')
    ctx.floor('C06.D5', 3)
    ctx.floor('C06.D4', 3)
    ctx.floor('C06.D1', 8)
    ctx.floor('C06.D2', 40)
    ctx.floor('C06.D3', 10)


def _server_paths(prog, heap_over, inline_extra=()):
    bp = prog.cls('bus.BusProtocol')
    fi = prog.lookup_method(bp, 'dataReceived')
    selft = ('param', 'self')
    heap = {(selft, '_authenticated'): C(False)}
    heap.update({(selft, k): v for k, v in heap_over.items()})
    inl = {'protocol.BasicDBusProtocol.authMessageLengthExceeded'} | \
        set(inline_extra)
    it = Interp(prog, inline=lambda q, d: q in inl, self_cls=bp,
                exc_edges=True)
    return fi, it.run(fi, {}, state=State(heap=heap))


def _is_lose(c):
    return kind(c[2]) == 'attr' and c[2][2] == 'loseConnection'


def _is_handle(c):
    return kind(c[2]) == 'attr' and c[2][2] == 'handleAuthMessage'


def _line_mode_limits(ctx):
    prog = ctx.prog
    bp = prog.cls('bus.BusProtocol')
    mx = Interp(prog)
    mx._stack.append(prog.lookup_method(bp, 'dataReceived'))
    lim = mx.class_attr_term(bp, 'MAX_AUTH_LENGTH')
    ctx.ob('C06.D3', 'protocol.BasicDBusProtocol', 'max-auth-length',
           lim == C(spec.MAX_AUTH_LINE),
           'authentication lines are limited to %d bytes; MAX_AUTH_LENGTH '
           'is %s' % (spec.MAX_AUTH_LINE, term_str(lim) if lim else None))
    cl = mx.class_attr_term(bp, '_client')
    ctx.ob('C06.D3', 'bus.BusProtocol', 'server-side', cl == C(False),
           'BusProtocol must run the server side of the handshake '
           '(_client False)', nontrivial=False)
    # first byte
    fi, paths = _server_paths(prog, {'_firstByte': C(True)})
    q = fi.qualname
    data = ('param', fi.params()[1])
    n = 0
    for p in paths:
        bad = None
        for c, pol in p.cond:
            if kind(c) == 'cmp' and c[2] == ('sub', data, C(0)) and \
                    c[3] == C(0):
                bad = (c[1] == '!=') == pol
        if bad is None and any(kind(c) == 'attr' and
                               c[2] == 'disconnecting' and pol
                               for c, pol in p.cond):
            continue         # already closing: nothing is interpreted
        if bad is None:
            ctx.ob('C06.D3', q, 'first-byte-tested', False,
                   'the first byte of a server connection must be compared '
                   'with NUL before anything else')
            continue
        if bad:
            n += 1
            calls = p.calls()
            ok = any(_is_lose(c) for c in calls) and \
                not any(_is_handle(c) for c in calls)
            ctx.ob('C06.D3', q, 'first-byte-not-nul-closes', ok,
                   'a first byte other than NUL must close the connection '
                   'without interpreting anything')
    if n == 0:
        ctx.ob('C06.D3', q, 'first-byte-not-nul-closes', False,
               'no path rejects a missing initial NUL byte')
    # line length / unterminated buffer / disconnecting
    fi, paths = _server_paths(prog, {'_firstByte': C(False)})
    n_handle = n_long = n_tail = 0
    lenterm = lambda x: ('call', 'len', ('builtin', 'len'), (x,), (), None)
    from .codec_rules import strip_sites
    for p in paths:
        for ev in p.trace:
            if ev[0] != 'loop':
                continue
            for bp_ in ev[4]:
                calls = bp_.calls()
                handles = [c for c in calls if _is_handle(c)]
                too_long = None
                disc = None
                for c, pol in bp_.cond:
                    cs = strip_sites(c)
                    if kind(cs) == 'cmp' and kind(cs[2]) == 'call' and \
                            cs[2][1] == 'len' and cs[3] == C(
                                spec.MAX_AUTH_LINE) and cs[1] in ('>', '<='):
                        too_long = (cs[1] == '>') == pol
                    if kind(c) == 'attr' and c[2] == 'disconnecting':
                        disc = pol
                if handles:
                    n_handle += 1
                    ok = too_long is False and disc is False
                    ctx.ob('C06.D3', q, 'line-processed-only-if-short-and-'
                           'connected', ok, 'an authentication line is '
                           'handed to the authenticator without the length '
                           '(<= %d) and not-disconnecting tests on its path'
                           % spec.MAX_AUTH_LINE)
                    # a failing authenticator closes the connection
                if too_long:
                    n_long += 1
                    ok = any(_is_lose(c) for c in calls) and not handles
                    ctx.ob('C06.D3', q, 'long-line-closes', ok,
                           'a line longer than %d bytes must close the '
                           'connection unprocessed' % spec.MAX_AUTH_LINE)
                exc = [e for e in bp_.trace if e[0] == 'except' and
                       'DBusAuthenticationFailed' in e[1]]
                if exc:
                    ok = any(_is_lose(c) for c in calls)
                    ctx.ob('C06.D3', q, 'auth-failure-closes', ok,
                           'DBusAuthenticationFailed raised by the '
                           'authenticator must close the connection')
        # unterminated buffer
        for c, pol in p.cond:
            cs = strip_sites(c)
            if kind(cs) == 'cmp' and kind(cs[2]) == 'call' and \
                    cs[2][1] == 'len' and cs[3] == C(spec.MAX_AUTH_LINE) \
                    and cs[1] == '>' and pol and \
                    contains(cs[2], lambda x: x == (
                        'attr', ('param', 'self'), '_buffer') or
                        kind(x) == 'call'):
                n_tail += 1
                ok = any(_is_lose(c) for c in p.calls(deep=False))
                ctx.ob('C06.D3', q, 'long-unterminated-buffer-closes', ok,
                       'an unterminated line longer than %d bytes must close '
                       'the connection' % spec.MAX_AUTH_LINE)
    for name, cnt in (('line-processed-only-if-short-and-connected',
                       n_handle), ('long-line-closes', n_long),
                      ('long-unterminated-buffer-closes', n_tail)):
        if cnt == 0:
            ctx.ob('C06.D3', q, name, False, 'no path of dataReceived '
                   'implements this limit any more')


def _protocol_drops_authenticator(ctx):
    """After authenticationSucceeded() the protocol stops consulting the
    authenticator: it is dropped and binary mode is entered."""
    prog = ctx.prog
    fi, paths = _server_paths(prog, {'_firstByte': C(False)})
    q = fi.qualname
    n = 0
    for p in paths:
        for ev in p.trace:
            if ev[0] != 'loop':
                continue
            for bp_ in ev[4]:
                succ = None
                if any(e[0] == 'exc-edge' for e in bp_.trace):
                    continue
                for c, pol in bp_.cond:
                    if kind(c) == 'call' and kind(c[2]) == 'attr' and \
                            c[2][2] == 'authenticationSucceeded':
                        succ = pol
                if succ:
                    n += 1
                    ok = any(e[0] == 'call' and (e[1][1] or '').endswith(
                        'setAuthenticationSucceeded') for e in bp_.trace)
                    ctx.ob('C06.D1', q, 'success-switches-to-binary', ok,
                           'when the authenticator reports success the '
                           'protocol must switch to binary mode')
                elif succ is False:
                    ok = not any(e[0] == 'call' and (e[1][1] or '').endswith(
                        'setAuthenticationSucceeded') for e in bp_.trace)
                    ctx.ob('C06.D1', q, 'binary-only-after-success', ok,
                           'binary mode is entered on a path where the '
                           'authenticator did not report success')
    if n == 0:
        ctx.ob('C06.D1', q, 'success-switches-to-binary', False,
               'dataReceived never consults authenticationSucceeded()')


def _mechanism_acceptance(ctx, mechs):
    """D4: in every offered mechanism class, a path that returns status 'OK'
    carries the evidence the mechanism is about."""
    prog = ctx.prog
    if kind(mechs) != 'dict':
        raise AnalysisError('BusAuthenticator.authenticators is not a '
                            'literal table of mechanism classes')
    n_ok = 0
    for name_t, cls_t in mechs[1]:
        if kind(cls_t) != 'class':
            raise AnalysisError('mechanism %s does not resolve to a class'
                                % term_str(name_t))
        mname = name_t[1].decode() if isinstance(name_t[1], bytes) \
            else str(name_t[1])
        c = prog.cls(cls_t[1])
        selft = ('param', 'self')
        for meth in c.methods.values():
            it = Interp(prog, exc_edges=True, self_cls=c)
            try:
                paths = it.run(meth)
            except AnalysisError:
                raise
            for p in paths:
                if p.outcome != 'return' or kind(p.value) != 'tuple' or \
                        not p.value[1] or p.value[1][0] != C('OK'):
                    continue
                n_ok += 1
                swallowed = any(e[0] == 'except' for e in p.trace)
                if mname == 'DBUS_COOKIE_SHA1':
                    ev_ok = False
                    for cnd, pol in p.cond:
                        is_eq = kind(cnd) == 'cmp' and cnd[1] == '=='
                        # hmac.compare_digest(a, b): equality in constant time
                        is_cd = kind(cnd) == 'call' and str(
                            cnd[1] or '').endswith('compare_digest') and \
                            len(cnd[3]) == 2
                        if (is_eq or is_cd) and pol:
                            sides = (cnd[2], cnd[3]) if is_eq else \
                                tuple(cnd[3])
                            comp = [s_ for s_ in sides if contains(
                                s_, lambda x: kind(x) == 'call' and
                                (x[1] or '').startswith('hashlib.')) and
                                contains(s_, lambda x: x == (
                                    'attr', selft, 'cookie')) and
                                contains(s_, lambda x: x == (
                                    'attr', selft, 'challenge_str'))]
                            recv = [s_ for s_ in sides if contains(
                                s_, lambda x: kind(x) == 'param' and
                                x[1] != 'self') and not contains(
                                    s_, lambda x: kind(x) == 'call' and
                                    (x[1] or '').startswith('hashlib.'))]
                            if comp and recv:
                                ev_ok = True
                    ok = ev_ok and not swallowed
                    ctx.ob('C06.D4', meth.qualname, 'cookie-OK-only-on-hash-'
                           'match', ok, 'DBUS_COOKIE_SHA1 answers OK on a '
                           'path that does not compare the hash computed '
                           'from (challenge, client challenge, cookie) with '
                           'the received one%s: a wrong or malformed response '
                           'would be accepted' % (
                               ' (an exception was swallowed on the way)'
                               if swallowed else ''),
                           {'path': [(term_str(a)[:80], b)
                                     for a, b in p.cond[:6]]})
                elif mname == 'EXTERNAL':
                    ok = ('attr', selft, 'creds') in p.state.truthy and \
                        not swallowed
                    ctx.ob('C06.D4', meth.qualname, 'external-OK-needs-'
                           'credentials', ok, 'EXTERNAL answers OK on a path '
                           'without peer credentials')
                else:
                    ctx.ob('C06.D4', meth.qualname, 'accepts:%s' % mname,
                           True, '%s accepts unconditionally by definition'
                           % mname, nontrivial=False)
    if n_ok < 3:
        raise AnalysisError('only %d accepting path(s) found in the '
                            'mechanism classes' % n_ok)


def _acceptance_cannot_fail(ctx):
    """"A spec-conforming client presenting acceptable credentials is
    accepted": after BEGIN the protocol calls connectionAuthenticated() of
    the bus connection.  What it does there must not depend on the peer
    having an entry in the local user database - ANONYMOUS peers have none:
    a getpwnam/getpwuid lookup on that path raises KeyError out of
    dataReceived, the accepted client never gets its connection."""
    prog = ctx.prog
    hook = prog.func('bus.BusProtocol.connectionAuthenticated')
    seen, work, n = set(), [hook], 0
    while work:
        f = work.pop()
        if f.qualname in seen or len(seen) > 12:
            continue
        seen.add(f.qualname)
        trys = []

        def walk(node, guarded):
            if isinstance(node, ast.Try):
                names = set()
                for h in node.handlers:
                    if h.type is None:
                        names.add('*')
                    else:
                        for x in ast.walk(h.type):
                            if isinstance(x, ast.Name):
                                names.add(x.id)
                g2 = guarded or bool(names & {'*', 'KeyError', 'LookupError',
                                              'Exception', 'BaseException'})
                for st in node.body:
                    walk(st, g2)
                for part in (node.handlers, node.orelse, node.finalbody):
                    for st in part:
                        walk(st, guarded)
                return
            if isinstance(node, ast.Call):
                fn = node.func
                nm = fn.attr if isinstance(fn, ast.Attribute) else (
                    fn.id if isinstance(fn, ast.Name) else None)
                if nm in ('getpwnam', 'getpwuid', 'getgrnam', 'getgrgid'):
                    trys.append((node.lineno, nm, guarded))
                # callees inside the bus module
                t = None
                if isinstance(fn, ast.Name):
                    t = f.module.funcs.get(fn.id)
                elif isinstance(fn, ast.Attribute) and \
                        isinstance(fn.value, ast.Name) and \
                        fn.value.id == 'self' and f.cls is not None:
                    t = prog.lookup_method(f.cls, fn.attr)
                if t is not None and t.module.name == 'bus' and \
                        not guarded:
                    work.append(t)
            if isinstance(node, (ast.FunctionDef, ast.Lambda)) and \
                    node is not f.node:
                return
            for ch in ast.iter_child_nodes(node):
                walk(ch, guarded)
        walk(f.node, False)
        for line, nm, guarded in trys:
            n += 1
            ctx.ob('C06.D1', f.qualname, 'acceptance-cannot-fail:%s' % nm,
                   guarded, '%s() is called at line %d on the path that runs '
                   'when a client has been accepted, without a handler for '
                   'KeyError: a peer whose name is not in the user database '
                   '(ANONYMOUS) is accepted by the authenticator and then '
                   'dropped by the exception' % (nm, line))
    ctx.ob('C06.D1', hook.qualname, 'acceptance-hook-analysed', True,
           '%d function(s), %d user-database lookup(s)' % (len(seen), n),
           nontrivial=False)


def _cleanup_once(ctx, mechs):
    """The reject path calls current_mech.cancel().  A mechanism whose
    cancel() undoes something (the cookie mechanism deletes its cookie) under
    a guard `if self.G:` must clear G wherever that cleanup runs - it also
    runs from the mechanism's own steps - or the reject path repeats it:
    the second os.unlink of the keyring file raises out of dataReceived and
    the wrong response is never answered REJECTED."""
    prog = ctx.prog
    n = 0
    for name_t, cls_t in mechs[1]:
        c = prog.cls(cls_t[1])
        cancel = c.methods.get('cancel')
        if cancel is None:
            ctx.ob('C06.D2', c.qualname, 'cancel-exists', False,
                   'mechanism class without cancel(): reject() raises '
                   'AttributeError')
            continue
        selft = ('param', 'self')
        for p in Interp(prog, exc_edges=False, self_cls=c).run(cancel):
            for call in p.calls(deep=False):
                if kind(call[2]) != 'bound' and not (
                        kind(call[2]) == 'attr' and call[2][1] == selft):
                    continue
                tq = call[1] or ''
                target = prog.all_funcs.get(tq)
                if target is None or target.cls is None:
                    continue
                guards = [cnd[2] for cnd, pol in p.cond
                          if kind(cnd) == 'attr' and cnd[1] == selft and pol]
                guards += [cnd[2][2] for cnd, pol in p.cond
                           if kind(cnd) == 'cmp' and cnd[3] == NONE and
                           kind(cnd[2]) == 'attr' and cnd[2][1] == selft and
                           ((cnd[1] == 'is not') == pol)]
                n += 1
                if not guards:
                    ctx.ob('C06.D2', cancel.qualname, 'cleanup-guarded',
                           False, 'cancel() runs %s unconditionally: after '
                           'the mechanism\'s own step already ran it, the '
                           'reject path runs it again' % target.name)
                    continue
                g = guards[0]
                bad = []
                for tp in Interp(prog, exc_edges=False,
                                 self_cls=c).run(target):
                    if tp.outcome == 'raise':
                        continue
                    v = tp.state.heap.get((selft, g))
                    cleared = v is not None and is_const(v) and not v[1]
                    if not cleared:
                        bad.append(term_str(v)[:40] if v is not None
                                   else 'unchanged')
                ctx.ob('C06.D2', target.qualname, 'cleanup-runs-once:%s' % g,
                       not bad, '%s is run by cancel() while self.%s is set, '
                       'and by the mechanism\'s own steps, but does not clear '
                       'self.%s (%s): a rejected exchange runs it twice - '
                       'the second deletion of the last cookie raises '
                       'FileNotFoundError out of dataReceived instead of '
                       'answering REJECTED' % (target.name, g, g,
                                               bad[:1]))
    ctx.extra['mechanism_cleanups'] = n


def _text_bytes_agreement(ctx, mechs):
    """D6: on the data path of a successful handshake (stepAuth -> mechanism
    step -> challenge / hash comparison) no operation mixes str and bytes.
    A mix raises TypeError; inside the mechanisms it is swallowed and turns
    into "always REJECTED"."""
    from ..bytestr import Typer, mismatches, path_consistent
    prog = ctx.prog
    selft = ('param', 'self')
    cont_types = {}
    n = 0
    for name_t, cls_t in mechs[1]:
        c = prog.cls(cls_t[1])
        mname = name_t[1].decode() if isinstance(name_t[1], bytes) \
            else str(name_t[1])
        # field types from the stores in the class (argument of step: str)
        fields = {}
        for _ in range(2):
            for meth in c.methods.values():
                ps = meth.params()[1:]
                typer = Typer(params={p_: 'str' for p_ in ps[:1]},
                              fields=fields)
                try:
                    paths = Interp(prog, exc_edges=False,
                                   self_cls=c).run(meth)
                except AnalysisError:
                    continue
                for p in paths:
                    for ev in iter_events(p.trace):
                        if ev[0] == 'setattr' and ev[1] == selft:
                            tt = typer.t(ev[3])
                            if tt in ('str', 'bytes', 'int'):
                                fields.setdefault(ev[2], tt)
        for k_, v_ in c.attrs.items():
            tv = Interp(prog)
            tv._stack.append(next(iter(c.methods.values())))
            term = tv.class_attr_term(c, k_)
            if term is not None:
                tt = Typer().t(term)
                if tt in ('str', 'bytes'):
                    fields.setdefault(k_, tt)
        for meth in c.methods.values():
            if meth.name not in ('step',) and not meth.name.startswith(
                    '_step'):
                continue
            ps = meth.params()[1:]
            typer = Typer(params={p_: 'str' for p_ in ps[:1]}, fields=fields)
            for p in Interp(prog, exc_edges=False, self_cls=c).run(meth):
                if not path_consistent(typer, p.cond):
                    continue
                terms = [ev[1] for ev in iter_events(p.trace)
                         if ev[0] == 'call'] + [cnd for cnd, _ in p.cond]
                terms += [ev[3] for ev in iter_events(p.trace)
                          if ev[0] == 'setattr']
                if p.value is not None:
                    terms.append(p.value)
                bad = list(mismatches(typer, terms))
                n += 1
                ctx.ob('C06.D6', meth.qualname, 'no-text-bytes-mix',
                       not bad, 'the %s mechanism %s on the path of a '
                       'response that arrives as str (stepAuth hex-decodes '
                       'and .decode()s it): %s - a TypeError here is '
                       'swallowed and the peer is rejected although its '
                       'credentials are right' % (
                           mname, bad[0][0] if bad else '',
                           term_str(bad[0][1])[:100] if bad else ''))
                if p.outcome == 'return' and kind(p.value) == 'tuple' and \
                        len(p.value[1]) == 2 and \
                        p.value[1][0] == C('CONTINUE'):
                    cont_types.setdefault(mname, set()).add(
                        typer.t(p.value[1][1]))
    # stepAuth under every challenge type a mechanism can produce
    sa = prog.func(K + '.stepAuth')
    types = sorted({t for ts in cont_types.values() for t in ts
                    if t in ('str', 'bytes')})
    step_tgt = None
    for p in Interp(prog, exc_edges=False).run(sa):
        for cl in p.calls():
            if (cl[1] or '').endswith('.step'):
                step_tgt = cl[1]
            elif kind(cl[2]) == 'attr' and cl[2][2] == 'step':
                step_tgt = ('method', 'step')
    if step_tgt is None or not types:
        raise AnalysisError('stepAuth: cannot find the mechanism step call / '
                            'challenge types')
    for ct in types:
        typer = Typer(params={sa.params()[1]: 'bytes'},
                      fields={'server_guid': 'bytes', 'reject_msg': 'bytes'},
                      returns={step_tgt: ('str', ct)})
        bad_all = []
        for p in Interp(prog, exc_edges=False).run(sa):
            if not path_consistent(typer, p.cond):
                continue
            terms = [ev[1] for ev in iter_events(p.trace)
                     if ev[0] == 'call']
            bad_all.extend(mismatches(typer, terms))
        who = sorted(m_ for m_, ts in cont_types.items() if ct in ts)
        ctx.ob('C06.D6', sa.qualname, 'challenge-type:%s' % ct, not bad_all,
               'mechanism(s) %s hand stepAuth a challenge of type %s; '
               'stepAuth %s (%s): the DATA line cannot be built and the '
               'mechanism can never succeed' % (
                   who, ct, bad_all[0][0] if bad_all else '',
                   term_str(bad_all[0][1])[:80] if bad_all else ''))


def run_thorough(ctx):
    """Dump the whole deduplicated transition table into the evidence."""
    m, inits = build(ctx.prog)
    rows = []
    for (pre, cmd, outs, post), t in sorted(m.rows().items(),
                                            key=lambda kv: str(kv[0])):
        rows.append({'state': field(m, pre, 'state'),
                     'rejections': field(m, pre, 'reject_count'),
                     'mechanism': m.get(pre, 'current_mech')[0],
                     'command': cmd, 'outputs': list(outs),
                     'next': post if isinstance(post, str) else
                     field(m, post, 'state'),
                     'authenticated_after': (not isinstance(post, str)) and
                     m.get(post, 'authenticated') == ('c', True)})
    ctx.extra['transition_table'] = rows
