"""C07 - the client speaks D-Bus only after OK and never stalls: typestate
analysis of the machine extracted from ClientAuthenticator."""
import ast

from ..fsm import CLOSE, Machine, leading_token
from ..loader import AnalysisError
from ..sym import (C, NONE, Interp, State, contains, is_const, iter_events,
                   kind, term_str, walk_term)

K = 'authentication.ClientAuthenticator'

META = {
    'level': 'other',
    'rule_text': 'Instances: every deduplicated transition row of the '
                 'machine extracted from ClientAuthenticator (both transport '
                 'kinds), plus one per attribute read for the attribute '
                 'discipline. Non-trivial = a row that emits, closes or '
                 'authenticates.',
    'explanation': 'Typestate analysis of the client handshake: the machine '
                   'is extracted from ClientAuthenticator on every run '
                   '(tracked: authenticated, guid set/unset, unixFDSupport '
                   'both ways, authMech and authOrder by exact constant '
                   'propagation over lists of constants) and explored '
                   'exhaustively. Checked: BEGIN is emitted exactly when '
                   'authenticated becomes true, and only with a GUID from an '
                   'OK; on UNIX transports OK is followed by '
                   'NEGOTIATE_UNIX_FD and both AGREE_UNIX_FD and ERROR then '
                   'lead to BEGIN; mechanisms are offered in preference '
                   'order, each at most once, exhaustion and unknown lines '
                   'close; no (state, command) is silent; every attribute '
                   'read in the class is written somewhere. The cookie file '
                   'lookup itself is NOT decided.',
    'trusted_base': ['txsa.sym interpreter / txsa.fsm extractor',
                     'CPython ast'],
    'assumptions': ['DBusAuthenticationFailed closes the connection (checked '
                    'in C06-D3 on the shared dataReceived)'],
    'decided': ['D1 BEGIN only after OK with a GUID',
                'D2 descriptor negotiation concludes; the transport\'s descriptor support is not changed by any line before OK',
                'D3 mechanisms in order, at most once; exhaustion closes',
                'D4 no silent transition (incl. keyring failures are answered)',
                'D5 the text of a failure is a string; unknown line closes (the command word is taken exactly: no lossy decoding, no case or whitespace normalisation), and closing '
                'is final (no later line of the same read is processed)',
                'D6 attribute discipline',
                'D7 line framing independent of read splitting (shared with '
                'C04-D5/D6)'],
    'undecided': ['the cookie file lookup itself',
                  ],
}


def f(m, s, name):
    a = m.get(s, name)
    return a[1] if a[0] in ('c', 'l') else a[0]


def run(ctx):
    prog = ctx.prog
    m = Machine(prog, K)
    from .common import failure_text_is_text
    failure_text_is_text(ctx, 'C07.D5', 'the client never closes the connection although every mechanism was refused')
    frag = m.fragile_split()
    ctx.ob('C07.D5', m.dispatch.qualname, 'line-split-cannot-fail',
           not frag, 'the dispatcher unpacks a split of the line into a fixed '
           'number of names without the matching maxsplit (%s): %s' % (
               '; '.join('%s (line %d)' % (t, ln) for ln, t in frag),
               'a server line with more words than the dispatcher unpacks makes the client raise instead of moving on to the next mechanism / sending BEGIN'))
    lossy = m.lossy_dispatch_key()
    ctx.ob('C07.D5', m.dispatch.qualname, 'command-word-taken-exactly',
           not lossy, 'the handler is chosen from the command word after it '
           'was %s: a server line that is NOT a protocol command (stray or '
           'non-ASCII bytes, other case) runs the handler of one instead of '
           'closing the connection' % '; '.join(
               '%s (line %d)' % (t, ln) for ln, t in lossy))
    for need in ('authenticated', 'guid', 'unixFDSupport', 'authOrder',
                 'authMech'):
        if need not in m.fields:
            raise AnalysisError('anchor vanished: %s.%s' % (K, need))
    inits = m.initial(['beginAuthentication'],
                      overrides={'unixFDSupport': [True, False]})
    m.explore(inits, terminal=lambda mm, s:
              mm.get(s, 'authenticated') == ('c', True))
    rows = m.rows()
    ctx.extra.update(states=len(m.states), transitions=len(m.transitions),
                     rows=len(rows), commands=m.commands + ['<unknown>'],
                     tracked_fields=m.fields,
                     traces_validated_against_impl=0)
    cls = prog.cls(K)
    mx = Interp(prog)
    mx._stack.append(prog.lookup_method(cls, 'beginAuthentication'))
    pref = mx.class_attr_term(cls, 'preference')
    from ..sym import try_py
    ok, pref = try_py(pref)
    if not ok:
        raise AnalysisError('ClientAuthenticator.preference is not a '
                            'constant list')
    where = lambda t: K + '.' + (m.prefix + t.cmd if t.cmd != '<unknown>'
                                 else 'handleAuthMessage')

    def det(t):
        return {'from_initial': (m.shortest_to(inits, t.pre) or []) +
                [t.cmd], 'pre': {k: v for k, v in m.show(t.pre).items()
                                 if k in ('guid', 'unixFDSupport', 'authMech',
                                          'authOrder')},
                'choices': list(t.labels)[:5]}

    def guid_set(s):
        return m.get(s, 'guid') == ('obj',)

    # D1 -----------------------------------------------------------------------
    n_auth = 0
    for t in m.transitions:
        becomes = ('c', True) in t.stores.get('authenticated', [])
        begin = 'BEGIN' in t.outputs
        if becomes or begin:
            n_auth += 1
            ctx.ob('C07.D1', where(t), 'BEGIN<=>authenticated',
                   becomes == begin and not t.closed,
                   'BEGIN must be sent exactly when the client starts to '
                   'treat the connection as authenticated (BEGIN sent: %s, '
                   'authenticated set: %s)' % (begin, becomes), det(t))
            has_guid = guid_set(t.pre) or ('obj',) in t.stores.get('guid', [])
            ctx.ob('C07.D1', where(t), 'BEGIN-needs-OK-with-guid', has_guid,
                   'the client sends BEGIN and switches to binary messages '
                   'although no OK with a valid GUID was received in this '
                   'exchange', det(t))
    if n_auth == 0:
        ctx.ob('C07.D1', K, 'can-authenticate', False,
               'no transition ever authenticates')
    # the GUID is stored only by the OK handler, from unhexlify of the line
    for t in m.transitions:
        if 'guid' in t.stores and t.stores['guid'][-1] == ('obj',):
            ok = t.cmd == 'OK' and any(
                ev[0] == 'setattr' and ev[2] == 'guid' and
                kind(ev[3]) == 'call' and ev[3][1] == 'binascii.unhexlify'
                for ev in iter_events(t.path.trace))
            ctx.ob('C07.D1', where(t), 'guid-from-hex-of-OK', ok,
                   'the GUID must be the hex-decoded argument of OK',
                   nontrivial=False)
            # "valid hexadecimal GUID": the emptiness test must be made on
            # the very bytes that are decoded - unhexlify(b'') succeeds, so
            # `OK` followed by blanks only would otherwise authenticate
            decoded = [ev[3][3][0] for ev in iter_events(t.path.trace)
                       if ev[0] == 'setattr' and ev[2] == 'guid' and
                       kind(ev[3]) == 'call' and
                       ev[3][1] == 'binascii.unhexlify' and ev[3][3]]
            if decoded:
                from .codec_rules import strip_sites
                d0 = strip_sites(decoded[0])
                tested = any(pol and strip_sites(c) == d0
                             for c, pol in t.path.cond)
                ctx.ob('C07.D1', where(t), 'guid-nonempty-as-decoded', tested,
                       'the bytes handed to unhexlify (%s) are not the bytes '
                       'that were tested for emptiness: an OK whose argument '
                       'is white space only decodes to an empty GUID and the '
                       'client sends BEGIN' % term_str(decoded[0])[:60])
    # D2 -----------------------------------------------------------------------
    # whether the transport can pass descriptors is a fact about the
    # transport: until OK arrived (no GUID yet) no server line may change it
    # - an ERROR that refuses a MECHANISM is not an answer to the descriptor
    # negotiation, which has not been asked yet
    for t in m.transitions:
        if guid_set(t.pre) or 'unixFDSupport' not in t.stores:
            continue
        before = m.get(t.pre, 'unixFDSupport')
        changed = [v for v in t.stores['unixFDSupport'] if v != before]
        ctx.ob('C07.D2', where(t), 'descriptor-support-fixed-before-OK',
               not changed, 'before OK was received, %s changes '
               'unixFDSupport from %s to %s: on a UNIX transport the client '
               'then sends BEGIN right after OK, without the descriptor '
               'negotiation' % (t.cmd, before, changed[:1]), det(t))
    for (pre, cmd, outs, post), t in rows.items():
        unix = f(m, pre, 'unixFDSupport')
        if cmd == 'OK' and post not in (CLOSE, 'EXC') and not guid_set(pre):
            if unix is True:
                ok = outs == ('NEGOTIATE_UNIX_FD',) and \
                    m.get(post, 'authenticated') == ('c', False)
                ctx.ob('C07.D2', where(t), 'unix:OK->NEGOTIATE', ok,
                       'on a UNIX transport OK must be answered with '
                       'NEGOTIATE_UNIX_FD (not yet BEGIN); answers %s'
                       % list(outs), det(t))
            elif unix is False:
                ok = outs == ('BEGIN',) and \
                    m.get(post, 'authenticated') == ('c', True)
                ctx.ob('C07.D2', where(t), 'non-unix:OK->BEGIN', ok,
                       'on a non-UNIX transport OK must be answered with '
                       'BEGIN; answers %s' % list(outs), det(t))
        if unix is True and guid_set(pre) and cmd in ('AGREE_UNIX_FD',
                                                      'ERROR'):
            ok = post not in (CLOSE, 'EXC') and outs == ('BEGIN',) and \
                m.get(post, 'authenticated') == ('c', True)
            ctx.ob('C07.D2', where(t), 'negotiation:%s->BEGIN' % cmd, ok,
                   'after OK and NEGOTIATE_UNIX_FD the server\'s %s must be '
                   'followed by BEGIN; the client answers %s and %s' % (
                       cmd, list(outs) or 'nothing',
                       'closes' if post == CLOSE else 'stays unauthenticated'
                       if post != 'EXC' and m.get(post, 'authenticated') !=
                       ('c', True) else 'authenticates'), det(t))
    # D3 -----------------------------------------------------------------------
    # initial offer
    for a, outs in getattr(m, 'init_outputs', []):
        ctx.ob('C07.D3', K + '.beginAuthentication', 'first-offer',
               outs == ('AUTH',) and m.get(a, 'authMech') == ('c', pref[0]),
               'the handshake must start by offering the first preferred '
               'mechanism %r' % pref[0])
    for t in m.transitions:
        if 'AUTH' in t.outputs and not t.closed:
            order_pre = f(m, t.pre, 'authOrder')
            order_post = f(m, t.post, 'authOrder')
            mech_post = f(m, t.post, 'authMech')
            ok = isinstance(order_pre, tuple) and len(order_pre) >= 1 and \
                order_post == order_pre[:-1] and mech_post == order_pre[-1] \
                and t.outputs.count('AUTH') == 1
            ctx.ob('C07.D3', where(t), 'offer-consumes-mechanism', ok,
                   'each AUTH must take the next mechanism off the list '
                   '(each offered at most once per connection)', det(t))
            full = t.extra.get('full') or []
    # REJECTED-only path offers exactly `preference`, then closes
    seq = []
    cur = [s for s in inits][0]
    seq.append(f(m, cur, 'authMech'))
    steps = 0
    closed = False
    while steps < 10:
        steps += 1
        nxt = [t for t in m.transitions if t.pre == cur and
               t.cmd == 'REJECTED']
        if not nxt:
            break
        if all(t.closed for t in nxt):
            closed = True
            break
        t = [t for t in nxt if not t.closed][0]
        cur = t.post
        seq.append(f(m, cur, 'authMech'))
    ctx.ob('C07.D3', K + '._auth_REJECTED', 'preference-order',
           seq == list(pref) and closed,
           'answering every offer with REJECTED must walk exactly the '
           'preference list %s and then close; walked %s, closed=%s'
           % (list(pref), seq, closed))
    for (pre, cmd, outs, post), t in rows.items():
        if cmd in ('REJECTED', 'ERROR') and not guid_set(pre):
            order = f(m, pre, 'authOrder')
            if order == ():
                ctx.ob('C07.D3', where(t), 'exhausted:%s->close' % cmd,
                       post == CLOSE, 'with no mechanism left, %s must close '
                       'the connection' % cmd, det(t))
            else:
                ctx.ob('C07.D3', where(t), 'moves-on:%s' % cmd,
                       outs == ('AUTH',) and post != CLOSE,
                       '%s before OK must move on to the next mechanism'
                       % cmd, det(t))
    # a challenge is answered (response or ERROR), never by hanging up: the
    # server that sent it may accept this mechanism, or the next one after
    # its REJECTED - whatever was exchanged for the mechanisms tried before
    # (decided for the FIRST challenge after a mechanism was offered; what a
    # client does with a second one in the same mechanism is its own choice)
    n_chal = 0
    offered = set(inits) | {t.post for t in m.transitions
                            if 'AUTH' in t.outputs and not t.closed}
    for (pre, cmd, outs, post), t in rows.items():
        if cmd == 'DATA' and not guid_set(pre) and pre in offered:
            n_chal += 1
            ctx.ob('C07.D4', where(t), 'challenge-is-answered',
                   post not in (CLOSE, 'EXC') and bool(outs),
                   'the first DATA challenge after mechanism %r was offered '
                   'ends the connection (%s) instead of being answered: a server '
                   'that challenges and would then accept this mechanism '
                   'never gets to' % (f(m, pre, 'authMech'),
                                      'raises' if post == 'EXC' else
                                      'closes' if post == CLOSE else
                                      'silent'), det(t))
    if not n_chal:
        raise AnalysisError('C07: no DATA transition before OK was explored')
    # D4 / D5 ------------------------------------------------------------------
    for (pre, cmd, outs, post), t in rows.items():
        if post == 'EXC':
            continue
        progress = bool(outs) or post == CLOSE or \
            m.get(post, 'authenticated') == ('c', True)
        if cmd == '<unknown>':
            ctx.ob('C07.D5', where(t), 'unknown-line-closes', post == CLOSE,
                   'a line outside the protocol must close the connection',
                   det(t))
            continue
        ctx.ob('C07.D4', where(t), 'not-silent:%s' % cmd, progress,
               'the client neither answers nor closes nor authenticates on '
               '%s (mechanism %r): the handshake stalls' % (
                   cmd, f(m, pre, 'authMech')), det(t),
               nontrivial=bool(outs) or post == CLOSE)
    # D6 -----------------------------------------------------------------------
    written = set(dir(object()))      # what every instance has (__class__ ..)
    for k in prog.mro(cls):
        written |= set(k.attrs) | set(k.methods)
        for fn in k.methods.values():
            for n in ast.walk(fn.node):
                if isinstance(n, ast.Attribute) and \
                        isinstance(n.ctx, ast.Store) and \
                        isinstance(n.value, ast.Name) and \
                        n.value.id == 'self':
                    written.add(n.attr)
    for fn in cls.methods.values():
        for n in ast.walk(fn.node):
            if isinstance(n, ast.Attribute) and isinstance(n.ctx, ast.Load) \
                    and isinstance(n.value, ast.Name) and \
                    n.value.id == 'self':
                ctx.ob('C07.D6', fn.qualname, 'reads:%s' % n.attr,
                       n.attr in written,
                       'self.%s is read but never assigned in the class: the '
                       'read raises AttributeError (inside the cookie '
                       'mechanism this turns every DBUS_COOKIE_SHA1 attempt '
                       'into ERROR)' % n.attr, nontrivial=False)
    close_is_final(ctx)
    challenge_failures_answered(ctx)
    from .c04 import shared_line_framing
    shared_line_framing(ctx, 'C07.D7', 'C07.D7')
    from .c09 import per_instance_registries
    per_instance_registries(ctx, 'C07.D6', ('authentication', 'protocol'),
                            'client authenticators of different connections share state (mechanisms tried by one count for all)')
    ctx.floor('C07.D7', 3)
    ctx.floor('C07.D1', 4)
    ctx.floor('C07.D2', 6)
    ctx.floor('C07.D3', 8)
    ctx.floor('C07.D4', 20)
    ctx.floor('C07.D5', 4)
    ctx.floor('C07.D6', 10)


def _does_file_io(fn):
    return any(isinstance(n, ast.Call) and isinstance(n.func, ast.Name) and
               n.func.id == 'open' for n in ast.walk(fn)) or any(
        isinstance(n, ast.Call) and isinstance(n.func, ast.Attribute) and
        isinstance(n.func.value, ast.Name) and n.func.value.id == 'os' and
        n.func.attr in ('stat', 'lstat', 'listdir', 'open')
        for n in ast.walk(fn))


def challenge_failures_answered(ctx):
    """A mechanism that has to read files to answer a challenge (the cookie
    keyring) can fail in an open-ended number of ways - missing file, missing
    entry, bad permissions, malformed content.  Whatever happens the client
    must ANSWER (ERROR, so that the server rejects and the next mechanism is
    tried) or close: the lookup must sit under a catch-all handler that does
    one of the two.  A handler narrowed to some exception types lets the
    others escape from dataReceived: no ERROR, no next mechanism, no clean
    close, although the server would have accepted a later mechanism."""
    prog = ctx.prog
    cls = prog.cls(K)
    io_methods = {name for name, fi in cls.methods.items()
                  if _does_file_io(fi.node)}
    # a helper that calls one of them can fail in the same ways
    grew = True
    while grew:
        grew = False
        for name, fi in cls.methods.items():
            if name in io_methods or name.startswith('_auth_'):
                continue
            if any(isinstance(n, ast.Call) and
                   isinstance(n.func, ast.Attribute) and
                   isinstance(n.func.value, ast.Name) and
                   n.func.value.id == 'self' and n.func.attr in io_methods
                   for n in ast.walk(fi.node)):
                io_methods.add(name)
                grew = True
    n = 0
    for fi in cls.methods.values():
        if not fi.node.name.startswith('_auth_'):
            continue

        def walk(node, tries):
            nonlocal n
            if isinstance(node, ast.Try):
                for st in node.body:
                    walk(st, tries + [node])
                for h in node.handlers:
                    for st in h.body:
                        walk(st, tries)
                for st in node.orelse + node.finalbody:
                    walk(st, tries)
                return
            if isinstance(node, ast.Call) and \
                    isinstance(node.func, ast.Attribute) and \
                    isinstance(node.func.value, ast.Name) and \
                    node.func.value.id == 'self' and \
                    node.func.attr in io_methods:
                n += 1
                ok = False
                for t in tries:
                    for h in t.handlers:
                        catch_all = h.type is None or (
                            isinstance(h.type, ast.Name) and
                            h.type.id in ('Exception', 'BaseException'))
                        src = ast.unparse(ast.Module(body=h.body,
                                                     type_ignores=[]))
                        answers = ("sendAuthMessage(b'ERROR" in src or
                                   'DBusAuthenticationFailed' in src)
                        if catch_all and answers:
                            ok = True
                ctx.ob('C07.D4', fi.qualname,
                       'challenge-failure-answered:%s' % node.func.attr, ok,
                       'the keyring lookup %s() can fail in ways no finite '
                       'list of exception types covers; it is not under a '
                       'catch-all handler that answers ERROR (or closes), so '
                       'e.g. a missing cookie id raises out of dataReceived '
                       'and the client neither tries its next mechanism nor '
                       'closes in an orderly way' % node.func.attr)
            for ch in ast.iter_child_nodes(node):
                walk(ch, tries)
        walk(fi.node, [])
    if n == 0 and io_methods:
        ctx.ob('C07.D4', K, 'challenge-failure-answered', False,
               'no command handler calls the file-reading helper(s) %s any '
               'more' % sorted(io_methods))


def close_is_final(ctx):
    """The extracted machine treats CLOSE as absorbing.  That is true of the
    running client only if, once the authenticator asked the transport to
    close, the protocol hands it no further line of the same read: every
    line given to handleAuthMessage must have the not-disconnecting test of
    ITS OWN iteration on its path."""
    prog = ctx.prog
    cc = prog.cls('client.DBusClientConnection')
    fi = prog.lookup_method(cc, 'dataReceived')
    selft = ('param', 'self')
    heap = {(selft, '_authenticated'): C(False), (selft, '_client'): C(True),
            (selft, '_firstByte'): C(False)}
    it = Interp(prog, self_cls=cc, exc_edges=True,
                inline=lambda q, d: q.endswith('.authMessageLengthExceeded'))
    n = 0
    for p in it.run(fi, {}, state=State(heap=heap)):
        for ev in p.trace:
            if ev[0] != 'loop':
                continue
            for bp in ev[4]:
                if not any(kind(c[2]) == 'attr' and
                           c[2][2] == 'handleAuthMessage'
                           for c in bp.calls()):
                    continue
                n += 1
                guarded = any(kind(c) == 'attr' and c[2] == 'disconnecting'
                              and pol is False for c, pol in bp.cond)
                ctx.ob('C07.D5', fi.qualname, 'nothing-processed-after-close',
                       guarded,
                       'a server line is handed to the authenticator without '
                       'a transport.disconnecting test in the same iteration: '
                       'after the client decided to close (unknown command, '
                       'bad GUID, mechanisms exhausted) a following "OK ..." '
                       'in the same read still makes it send BEGIN and '
                       'switch to binary')
    if n == 0:
        ctx.ob('C07.D5', fi.qualname, 'nothing-processed-after-close', False,
               'no path of dataReceived hands a line to the authenticator')


def run_thorough(ctx):
    """Dump the table and run the extracted client against the
    specification's server answers: every run in which the server accepts a
    mechanism (OK) and answers the descriptor negotiation with AGREE_UNIX_FD
    or ERROR ends authenticated (D7 of the design)."""
    prog = ctx.prog
    m = Machine(prog, K)
    inits = m.initial(['beginAuthentication'],
                      overrides={'unixFDSupport': [True, False]})
    m.explore(inits, terminal=lambda mm, s:
              mm.get(s, 'authenticated') == ('c', True))
    rows = []
    for (pre, cmd, outs, post), t in sorted(m.rows().items(),
                                            key=lambda kv: str(kv[0])):
        rows.append({'unix': f(m, pre, 'unixFDSupport'),
                     'guid': m.get(pre, 'guid')[0] != 'c',
                     'mechanism': str(f(m, pre, 'authMech')),
                     'command': cmd, 'outputs': list(outs),
                     'next': post if isinstance(post, str) else
                     ('AUTHENTICATED' if m.get(post, 'authenticated') ==
                      ('c', True) else 'handshake')})
    ctx.extra['transition_table'] = rows
    # product with the server: after any REJECTED* prefix, server says OK
    succ = {}
    for t in m.transitions:
        if not t.closed and not t.exc:
            succ.setdefault((t.pre, t.cmd), set()).add(t.post)
    n = 0
    for init in inits:
        frontier = {init}
        for _ in range(6):
            nxt = set()
            for s in frontier:
                # server accepts now
                for s_ok in succ.get((s, 'OK'), ()):
                    ends = set()
                    if m.get(s_ok, 'authenticated') == ('c', True):
                        ends.add(True)
                    else:
                        for ans in ('AGREE_UNIX_FD', 'ERROR'):
                            posts = succ.get((s_ok, ans), set())
                            ends.add(bool(posts) and all(
                                m.get(x, 'authenticated') == ('c', True)
                                for x in posts))
                    n += 1
                    ctx.ob('C07.D2', K, 'accepted-run-completes',
                           ends == {True},
                           'a run in which the server accepts mechanism %r '
                           'must end authenticated whatever the server '
                           'answers to the descriptor negotiation'
                           % (f(m, s, 'authMech'),))
                nxt |= succ.get((s, 'REJECTED'), set())
            frontier = nxt
    ctx.extra['accepted_runs_checked'] = n
