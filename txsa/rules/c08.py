"""C08 - each remote call completes exactly once: handler-local obligations on
the pending-call table of DBusClientConnection.

Invariant I: serial in _pendingCalls <=> its Deferred is unfired and its
timer, if any, is active.  Every handler must preserve I (checked on every
path); the induction over histories of handler executions is on paper
(DESIGN 0.1: handlers are atomic on the reactor thread).
"""
import ast

from ..loader import AnalysisError
from ..sym import (C, NONE, Interp, contains, is_const, iter_events, kind,
                   subst_fold, term_str, truth, walk_term)
from .codec_rules import strip_sites

CLS = 'client.DBusClientConnection'
TABLE = '_pendingCalls'

META = {
    'level': 'other',
    'rule_text': 'Instances: every path of the six handlers that touch the '
                 'pending-call table (registration, method return, error '
                 'reply, deadline, connection loss, initialisation) x every '
                 'completion (callback/errback) on it; plus one per access '
                 'site for ownership and one per return path of the reply '
                 'conversion. Non-trivial = a path with a completion or a '
                 'registration.',
    'explanation': 'Handler-local invariant obligations extracted by path '
                   'enumeration: the table is touched only by its owner '
                   'class; a call is registered under its own serial, with '
                   'its timer, before it is sent; every completion of a '
                   'Deferred taken from the table removes that key (or '
                   'resets the table) and cancels the entry\'s timer on the '
                   'same path (the deadline handler is exempt from cancel); '
                   'reply handlers look up by the reply\'s reply_serial; '
                   'error types are TimeOut / RemoteError; the reply-value '
                   'convention is checked on the return paths whose tests '
                   'are recognised. Interleavings themselves are not '
                   'explored: exactly-once follows from the invariant by '
                   'induction over atomic handler executions.',
    'trusted_base': ['CPython ast', 'txsa.sym interpreter',
                     'Twisted runs protocol/timer callbacks to completion on '
                     'one thread'],
    'assumptions': ['re-entrancy through user callbacks is covered by '
                    'C09-D4, not here'],
    'decided': ['D1 ownership of the pending table',
                'D2 register-before-send with timer; a call issued on a lost connection fails at once and is not registered',
                'D3 the deadline handler removes its entry on every path; completion => removed (before the Deferred fires) and timer cancelled',
                'D4 correlation keys; a reply for a serial that is not pending is ignored (lookup default fits the unpacking)', 'D5 error discipline (incl. a declared return signature is compared for equality; no value '
                'delivered before the declared signature was compared)',
                'D7 reply-value convention on recognised paths'],
    'undecided': ['the actual interleavings of replies and deadlines',
                  'reply-value convention on paths whose tests the analyser '
                  'does not recognise'],
}


def is_table(t):
    return kind(t) == 'attr' and t[2] == TABLE


def entry_of(x):
    """If x is <entry>[0] (the Deferred of a table entry) return the entry
    term, its lookup key and how it was obtained."""
    if kind(x) == 'sub' and x[2] == C(0):
        e = x[1]
        return entry_info(e)
    return None


def entry_info(e):
    if kind(e) == 'call' and kind(e[2]) == 'attr' and \
            e[2][2] in ('get', 'pop') and is_table(e[2][1]) and e[3]:
        return {'entry': e, 'key': e[3][0], 'how': e[2][2]}
    if kind(e) == 'sub' and is_table(e[1]):
        return {'entry': e, 'key': e[2], 'how': 'index'}
    if kind(e) == 'elem':
        it = e[1]
        # for d, t in table.values() / list(table.values()) / items()
        for t in walk_term(it):
            if kind(t) == 'call' and kind(t[2]) == 'attr' and \
                    t[2][2] in ('values', 'items') and is_table(t[2][1]):
                return {'entry': e, 'key': None, 'how': 'iter:' + t[2][2]}
    if kind(e) == 'sub' and e[2] == C(1) and kind(e[1]) == 'elem':
        r = entry_info(e[1])
        if r and r['how'] == 'iter:items':
            return {'entry': e, 'key': ('sub', e[1], C(0)),
                    'how': 'iter:items'}
    return None


def fires(path_trace):
    """(call term, receiver, kind) for every .callback/.errback call."""
    out = []
    for ev in path_trace:
        if ev[0] == 'call':
            c = ev[1]
            if kind(c[2]) == 'attr' and c[2][2] in ('callback', 'errback'):
                out.append((c, c[2][1], c[2][2]))
    return out


def path_segments(p):
    """Yield (trace, cond, falsy, truthy, enclosing_trace) for the path
    itself and for each loop body path inside it."""
    yield p.trace, p.cond, p.state.falsy, p.state.truthy, ()
    for ev in p.trace:
        if ev[0] == 'loop':
            for bp in ev[4]:
                yield bp.trace, bp.cond, bp.state.falsy, bp.state.truthy, \
                    p.trace


def removed(trace, outer, key):
    for ev in list(trace) + list(outer):
        if ev[0] == 'delsub' and is_table(ev[1]) and (
                key is None or strip_sites(ev[2]) == strip_sites(key)):
            return True
        if ev[0] == 'setattr' and ev[2] == TABLE and \
                kind(ev[3]) == 'dict' and not ev[3][1]:
            return True
        if ev[0] == 'call':
            c = ev[1]
            if kind(c[2]) == 'attr' and is_table(c[2][1]):
                if c[2][2] == 'pop' and c[3] and (
                        key is None or
                        strip_sites(c[3][0]) == strip_sites(key)):
                    return True
                if c[2][2] == 'clear':
                    return True
    return False


def cancelled(trace, timer, falsy, cond):
    if timer in falsy or any(c == timer and not pol for c, pol in cond):
        return True, 'no timer on this path'
    for c, pol in cond:
        if kind(c) == 'cmp' and c[2] == timer and c[3] == NONE and \
                ((c[1] == 'is') == pol):
            return True, 'no timer on this path'
        # IDelayedCall.active() false: it already ran or was cancelled
        if kind(c) == 'call' and kind(c[2]) == 'attr' and \
                c[2][2] == 'active' and c[2][1] == timer and not c[3] \
                and not pol:
            return True, 'the timer is no longer active on this path'
    for ev in trace:
        if ev[0] == 'call':
            c = ev[1]
            if kind(c[2]) == 'attr' and c[2][2] == 'cancel' and \
                    c[2][1] == timer:
                return True, 'cancel() called'
    return False, ''


def run(ctx):
    prog = ctx.prog
    cls = prog.cls(CLS)
    # D1 ownership ---------------------------------------------------------
    owners = set()
    n_sites = 0
    for fi in prog.all_funcs.values():
        for node in prog._iter_scope(fi.node):
            if isinstance(node, ast.Attribute) and node.attr == TABLE:
                n_sites += 1
                owner_ok = fi.cls is cls
                owners.add(fi.qualname)
                ctx.ob('C08.D1', fi.qualname, 'touches-pending-table',
                       owner_ok, 'only methods of %s may touch %s' %
                       (CLS, TABLE), nontrivial=False)
    if n_sites == 0:
        raise AnalysisError('anchor vanished: no access to %s' % TABLE)
    # positive control for the expected-zero "foreign writer" rule
    _positive_control(ctx)
    # a method the rules do not know by name (a helper extracted by a
    # refactoring) is transparent: it is analysed inlined into the methods
    # that call it, which then count as handlers
    known = prog.known_funcs() or set(prog.all_funcs)
    helpers = {q for q in owners if q not in known}
    grew = True
    while grew:
        grew = False
        for fi in cls.methods.values():
            if fi.qualname in owners:
                continue
            for node in prog._iter_scope(fi.node):
                if isinstance(node, ast.Attribute) and \
                        isinstance(node.value, ast.Name) and \
                        node.value.id == 'self' and \
                        CLS + '.' + node.attr in helpers:
                    owners.add(fi.qualname)
                    if fi.qualname not in known:
                        helpers.add(fi.qualname)
                    grew = True
                    break
    handlers = sorted(q for q in owners if q.startswith(CLS + '.') and
                      q not in helpers)
    ctx.extra['handlers'] = handlers

    def paths_of(q, **kw):
        it = Interp(prog, exc_edges=False, **kw)
        return it.run(prog.func(q))

    # D2 registration --------------------------------------------------------
    reg = prog.func(CLS + '.callRemoteMessage')
    mcall = ('param', reg.params()[1])
    timer_cb = None
    n_reg = n_lost = 0
    # the loss marker: connectionLost stores its reason on the connection
    lost_markers = set()
    clost = prog.func(CLS + '.connectionLost')
    for node in prog._iter_scope(clost.node):
        if isinstance(node, ast.Assign) and \
                isinstance(node.value, ast.Name) and \
                node.value.id == clost.params()[1]:
            for t in node.targets:
                if isinstance(t, ast.Attribute) and \
                        isinstance(t.value, ast.Name) and \
                        t.value.id == 'self':
                    lost_markers.add(t.attr)
    ctx.ob('C08.D2', clost.qualname, 'loss-is-recorded', bool(lost_markers),
           'connectionLost must record the loss on the connection so that a '
           'later call can be failed instead of registered')
    for p in paths_of(reg.qualname):
        sets = [ev for ev in p.trace if ev[0] == 'setsub' and is_table(ev[1])]
        sends = [i for i, ev in enumerate(p.trace) if ev[0] == 'call' and
                 ev[1][1] and ev[1][1].endswith('.sendMessage')]
        expect = None
        for c, pol in p.cond:
            if c == ('attr', mcall, 'expectReply'):
                expect = pol
        if expect is None:
            ctx.ob('C08.D2', reg.qualname, 'branches-on-expectReply', False,
                   'registration must depend on the call expecting a reply')
            continue
        laters = [ev[1] for ev in p.trace if ev[0] == 'call' and
                  (ev[1][1] or '').endswith('callLater')]
        lost = None
        for c, pol in p.cond:
            if kind(c) == 'cmp' and kind(c[2]) == 'attr' and \
                    c[2][2] in lost_markers and c[3] == NONE and \
                    c[1] in ('is', 'is not', '==', '!='):
                lost = (c[1] in ('is not', '!=')) == pol
                marker = c[2]
            elif kind(c) == 'attr' and c[2] in lost_markers:
                lost = pol
                marker = c
        if expect and lost:
            # issued on a lost connection: no reply can arrive
            n_lost += 1
            ok = not sets and not laters and not sends and \
                p.outcome == 'return' and kind(p.value) == 'call' and \
                (p.value[1] or '').endswith('defer.fail') and \
                p.value[3] == (marker,)
            ctx.ob('C08.D2', reg.qualname, 'lost=>failed-at-once', ok,
                   'a call issued on a lost connection must fail at once '
                   'with the loss reason, without an entry, a timer or a '
                   'message')
            continue
        if expect and lost_markers and lost is None:
            ctx.ob('C08.D2', reg.qualname, 'registers-only-if-not-lost',
                   False, 'a call is registered without testing that the '
                   'connection is not lost: after the loss it stays pending '
                   'for ever (and its timer fires TimeOut)')
            continue
        if expect:
            n_reg += 1
            ok = len(sets) == 1 and len(sends) == 1 and \
                p.trace.index(sets[0]) < sends[0]
            ctx.ob('C08.D2', reg.qualname, 'register-before-send', ok,
                   'a call expecting a reply must be entered into the '
                   'pending table exactly once, before it is sent')
            if len(sets) != 1:
                continue
            key, val = sets[0][2], sets[0][3]
            ctx.ob('C08.D4', reg.qualname, 'registration-key',
                   key == ('attr', mcall, 'serial'),
                   'the entry must be keyed by the call\'s own serial; keyed '
                   'by %s' % term_str(key))
            dterm = val[1][0] if kind(val) == 'tuple' and len(val[1]) == 2 \
                else None
            tterm = val[1][1] if dterm is not None else None
            ok = dterm is not None and kind(dterm) == 'call' and \
                dterm[1] == 'twisted.internet.defer.Deferred' and \
                p.outcome == 'return' and p.value == dterm
            ctx.ob('C08.D2', reg.qualname, 'entry-holds-returned-deferred',
                   ok, 'the stored entry must be (the Deferred that is '
                   'returned, timer)')
            tparam = ('param', reg.params()[2]) if len(reg.params()) > 2 \
                else None
            if laters:
                lc = laters[0]
                ok = tterm == lc and len(lc[3]) >= 4 and \
                    kind(lc[3][1]) == 'bound' and \
                    lc[3][2] == key and lc[3][3] == dterm
                if kind(lc[3][1]) == 'bound':
                    timer_cb = lc[3][1][2]
                ctx.ob('C08.D2', reg.qualname, 'timer-in-entry', ok,
                       'the DelayedCall returned by callLater must be stored '
                       'in the entry, and the deadline handler must receive '
                       'the same serial and Deferred')
            else:
                # the timer slot is the (falsy) deadline argument itself, or
                # a falsy constant
                ok = (tparam is not None and (tparam in p.state.falsy) and
                      tterm == tparam) or (
                          kind(tterm) == 'const' and not tterm[1])
                ctx.ob('C08.D2', reg.qualname, 'no-timer-without-deadline',
                       ok, 'without a deadline the entry must hold no timer '
                       'and no timer may be started')
        else:
            ok = not sets and not laters and len(sends) == 1
            ctx.ob('C08.D2', reg.qualname, 'no-entry-for-no-reply', ok,
                   'a call that expects no reply must be sent without an '
                   'entry or a timer')
    if n_reg == 0:
        raise AnalysisError('callRemoteMessage: no expect-reply path found')
    ctx.ob('C08.D2', reg.qualname, 'lost-path-exists', n_lost > 0,
           'no path of callRemoteMessage handles the lost connection')
    if timer_cb is None:
        ctx.ob('C08.D2', reg.qualname, 'deadline-handler-registered', False,
               'no deadline handler is registered with callLater')
    # D3 / D4 / D5 on the completing handlers -----------------------------------
    n_fire = 0
    timer_cb_fired = [False]
    if timer_cb and timer_cb not in handlers:
        handlers = handlers + [timer_cb]
    for q in handlers:
        fi = prog.func(q)
        is_timer = (q == timer_cb)
        for p in paths_of(q):
            for trace, cond, falsy, truthy, outer in path_segments(p):
                for c, recv, how in fires(trace):
                    info = entry_of(recv)
                    if info is None and is_timer and \
                            kind(recv) == 'param':
                        # deadline handler: (serial, d) bound at registration
                        ps = fi.params()
                        info = {'entry': None,
                                'key': ('param', ps[1]) if len(ps) > 1
                                else None, 'how': 'timer-args'}
                    if info is None:
                        continue
                    if info['how'] in ('get', 'pop', 'index') and contains(
                            info['key'], lambda x: kind(x) in (
                                'elem', 'loopvar') and contains(
                                    x, lambda y: kind(y) == 'attr' and
                                    y[2] == TABLE)):
                        # the key is an element of the table itself (a walk
                        # over a snapshot of its keys): every entry is
                        # completed, none is matched against a reply
                        info = dict(info, how='iter-' + info['how'])
                    if is_timer:
                        timer_cb_fired[0] = True
                    n_fire += 1
                    slot = '%s@%s' % (how, info['how'])
                    ok = removed(trace, outer if info['how'].startswith(
                        'iter') else (), info['key'])
                    if ok:
                        # ... and BEFORE the Deferred fires: firing runs the
                        # caller's code, which may re-enter (a second loss
                        # notification, a new call) and must not find the
                        # completed call still pending
                        fire_ix = [i for i, ev in enumerate(trace)
                                   if ev[0] == 'call' and ev[1] is c][0]
                        if info['how'].startswith('iter'):
                            loop_ix = [i for i, ev in enumerate(outer)
                                       if ev[0] == 'loop' and
                                       any(bp.trace is trace for bp in ev[4])]
                            before = removed(
                                trace[:fire_ix],
                                outer[:loop_ix[0]] if loop_ix else outer,
                                info['key'])
                        else:
                            before = removed(trace[:fire_ix], (),
                                             info['key']) or \
                                info['how'] == 'pop'
                        ctx.ob('C08.D3', q, 'removed-before-fire:' + slot,
                               before, 'the entry is removed only AFTER its '
                               'Deferred fired (%s): code run by the Deferred '
                               'still finds the completed call pending, and a '
                               're-entrant completion fires it a second time'
                               % how)
                    ctx.ob('C08.D3', q, 'fire=>removed:' + slot, ok,
                           'a pending call is completed (%s) but its entry '
                           'is not removed from the table on this path'
                           % how, {'path': [(term_str(a)[:70], b)
                                            for a, b in cond[:5]]})
                    if not is_timer and info['entry'] is not None:
                        timer = ('sub', info['entry'], C(1))
                        okc, why = cancelled(trace, timer, falsy, cond)
                        ctx.ob('C08.D3', q, 'fire=>timer-cancelled:' + slot,
                               okc, 'a pending call is completed (%s) on a '
                               'path where its timer may still be active '
                               'and is not cancelled' % how,
                               {'path': [(term_str(a)[:70], b)
                                         for a, b in cond[:5]]})
                    # D4: lookup keyed by the reply's reply_serial
                    if info['how'] in ('get', 'pop', 'index') and \
                            not is_timer:
                        k = info['key']
                        ok = kind(k) == 'attr' and k[2] == 'reply_serial' \
                            and kind(k[1]) == 'param'
                        ctx.ob('C08.D4', q, 'lookup-key', ok,
                               'replies must be matched by their '
                               'reply_serial; matched by %s' % term_str(k))
                    # D5 error discipline
                    if how == 'errback' and c[3]:
                        a = c[3][0]
                        if is_timer:
                            ok = kind(a) == 'call' and a[1] == 'error.TimeOut'
                            ctx.ob('C08.D5', q, 'deadline-error', ok,
                                   'an expired deadline must fail the call '
                                   'with error.TimeOut; fails it with %s'
                                   % term_str(a)[:100])
                        elif info['how'] in ('get', 'pop', 'index'):
                            ok = kind(a) == 'call' and \
                                a[1] == 'error.RemoteError' and a[3] and \
                                kind(a[3][0]) == 'attr' and \
                                a[3][0][2] == 'error_name'
                            ctx.ob('C08.D5', q, 'error-reply-error', ok,
                                   'an error reply must fail the call with '
                                   'RemoteError(error_name); fails it with '
                                   '%s' % term_str(a)[:100])
                            msg = p.state.heap.get((a, 'message'))
                            vals = p.state.heap.get((a, 'values'))
                            body = None
                            for t in walk_term(a):
                                if kind(t) == 'param':
                                    body = ('attr', t, 'body')
                            has_body = body is not None and body in truthy
                            if has_body:
                                ok = vals == body
                                ctx.ob('C08.D5', q, 'error-values', ok,
                                       'RemoteError.values must be the body '
                                       'of the error reply', nontrivial=False)
                                # the message is the FIRST argument when that
                                # is a string - whatever follows it
                                first = ('sub', body, C(0))
                                is_str = None
                                for c_, pol_ in cond:
                                    if kind(c_) == 'call' and \
                                            c_[1] == 'isinstance' and \
                                            c_[3][:1] == (first,):
                                        is_str = pol_
                                okm = (msg == first) if is_str else (
                                    is_str is False)
                                ctx.ob('C08.D5', q, 'error-message', okm,
                                       'RemoteError.message must be the '
                                       'first argument of the error reply '
                                       'whenever that is a string, and only '
                                       'the test of that argument decides; '
                                       'on this path it is %s [%s]' % (
                                           term_str(msg)[:40], '; '.join(
                                               '%s is %s' % (
                                                   term_str(a)[:50], b)
                                               for a, b in cond[-3:])))
                        elif info['how'].startswith('iter'):
                            ok = kind(a) == 'param'
                            ctx.ob('C08.D5', q, 'loss-reason', ok,
                                   'calls pending at connection loss must '
                                   'fail with the loss reason; fail with %s'
                                   % term_str(a)[:100])
                    if how == 'callback' and c[3] and \
                            info['how'] in ('get', 'pop', 'index'):
                        ok = kind(c[3][0]) == 'param'
                        ctx.ob('C08.D4', q, 'delivers-matching-reply', ok,
                               'the call must complete with the reply '
                               'message that carried the matching serial')
    # a reply is matched by its serial ALONE: every path of the two reply
    # handlers consults the table under reply_serial - a path that returns
    # before (because some other field of the reply did not please) leaves
    # the call pending for ever
    for hname in ('methodReturnReceived', 'errorReceived'):
        q = CLS + '.' + hname
        fi = prog.func(q)
        msg = ('param', fi.params()[1])
        key = ('attr', msg, 'reply_serial')
        n_paths = 0
        for p in paths_of(q):
            if p.outcome == 'raise':
                continue
            n_paths += 1
            looked = any(
                contains(t, lambda x: (
                    kind(x) == 'call' and kind(x[2]) == 'attr' and
                    is_table(x[2][1]) and x[2][2] in ('get', 'pop') and
                    x[3] and x[3][0] == key) or (
                    kind(x) == 'sub' and is_table(x[1]) and x[2] == key) or (
                    kind(x) == 'cmp' and x[1] in ('in', 'not in') and
                    x[2] == key and is_table(x[3])))
                for t in [c for c, _ in p.cond] + [
                    ev[1] for ev in iter_events(p.trace) if ev[0] == 'call'])
            ctx.ob('C08.D4', q, 'every-reply-is-looked-up', looked,
                   'a reply is discarded on a path that never looks its '
                   'reply_serial up in the pending table [%s]: the call it '
                   'answers stays pending (or times out) although its reply '
                   'arrived' % '; '.join(
                       '%s is %s' % (term_str(c)[:60], pol)
                       for c, pol in p.cond[:3]))
        if n_paths == 0:
            raise AnalysisError('%s: no path' % q)
    # the deadline handler runs because the timer FIRED: whatever it decides,
    # the entry (which holds that dead timer) must leave the table - a later
    # connectionLost cancels every timer it finds there, and cancelling a
    # fired DelayedCall raises AlreadyCalled out of the loss handling
    if timer_cb:
        tfi = prog.func(timer_cb)
        tps = tfi.params()
        tkey = ('param', tps[1]) if len(tps) > 1 else None
        for p in paths_of(timer_cb):
            if p.outcome == 'raise':
                continue
            ctx.ob('C08.D3', timer_cb, 'fired-timer-leaves-the-table',
                   removed(p.trace, (), tkey),
                   'a path of the deadline handler returns without removing '
                   'the entry (condition: %s): the table then holds a timer '
                   'that has already fired, and connectionLost raises '
                   'AlreadyCalled when it cancels it - the remaining calls '
                   'are never failed' % [
                       (term_str(c)[:40], pol) for c, pol in p.cond[:3]])
    # a reply for a serial that is no longer pending (late, duplicate, never
    # asked for) is ignored: the lookup default must fit the unpacking
    for q in handlers:
        hfi = prog.func(q)
        for node in prog._iter_scope(hfi.node):
            if isinstance(node, ast.Assign) and len(node.targets) == 1 and \
                    isinstance(node.targets[0], (ast.Tuple, ast.List)) and \
                    isinstance(node.value, ast.Call) and \
                    isinstance(node.value.func, ast.Attribute) and \
                    node.value.func.attr in ('get', 'pop') and \
                    isinstance(node.value.func.value, ast.Attribute) and \
                    node.value.func.value.attr == TABLE:
                want = len(node.targets[0].elts)
                dflt = node.value.args[1] if len(node.value.args) > 1 \
                    else None
                okd = isinstance(dflt, (ast.Tuple, ast.List)) and \
                    len(dflt.elts) == want
                ctx.ob('C08.D4', q, 'unknown-serial-is-ignored', okd,
                       'the entry is unpacked into %d names but the lookup '
                       'default for a serial that is not pending is %s: a '
                       'late or unsolicited reply raises TypeError out of '
                       'dataReceived and the connection is dropped' % (
                           want, ast.unparse(dflt) if dflt is not None
                           else ('None' if node.value.func.attr == 'get'
                                 else 'missing (KeyError)')))
    ctx.extra['completions_analysed'] = n_fire
    ctx.ob('C08.D3', timer_cb or reg.qualname, 'deadline-handler-completes',
           timer_cb_fired[0] if timer_cb else False,
           'the deadline handler must fail the call it was started for')
    if n_fire < 4:
        raise AnalysisError('only %d completion site(s) found on the pending '
                            'table' % n_fire)
    # handlers that remove without firing lose a call silently
    for q in handlers:
        fi = prog.func(q)
        if q in (reg.qualname, CLS + '.connectionAuthenticated'):
            continue
        for p in paths_of(q):
            for trace, cond, falsy, truthy, outer in path_segments(p):
                dels = [ev for ev in trace if ev[0] == 'delsub' and
                        is_table(ev[1])]
                pops = [ev for ev in trace if ev[0] == 'call' and
                        kind(ev[1][2]) == 'attr' and ev[1][2][2] == 'pop'
                        and is_table(ev[1][2][1])]
                if dels and not fires(trace):
                    ctx.ob('C08.D3', q, 'removed=>fired', False,
                           'an entry is removed from the pending table on a '
                           'path that does not complete its Deferred')
    # D5: conversion raises only RemoteError -----------------------------------
    cv = prog.func(CLS + '._cbCvtReply')
    convention(ctx, cv)
    # the conversion is attached to every call
    cr = prog.func(CLS + '.callRemote')
    okc = False
    for p in paths_of(cr.qualname):
        for ev in p.trace:
            if ev[0] == 'call' and kind(ev[1][2]) == 'attr' and \
                    ev[1][2][2] == 'addCallback' and ev[1][3] and \
                    kind(ev[1][3][0]) == 'bound' and \
                    ev[1][3][0][2] == cv.qualname:
                okc = True
    ctx.ob('C08.D5', cr.qualname, 'conversion-attached', okc,
           'callRemote must attach the reply conversion to the Deferred of '
           'callRemoteMessage')
    ctx.floor('C08.D1', 4)
    ctx.floor('C08.D2', 4)
    ctx.floor('C08.D3', 5)
    # the correlation key is the serial: two outstanding calls must never
    # share one - the serial clauses of C03-D5 (one process-wide counter,
    # started positive, only ever incremented, a fresh value per message)
    # are premises of "a completion is never delivered to a different call"
    from . import c03 as _c03

    class _Serials:
        prog = ctx.prog
        tier = ctx.tier
        extra = {}

        def ob(self, rule, where, slot, ok, msg, detail=None,
               nontrivial=True, loc=None):
            if rule == 'C03.D5':
                ctx.ob('C08.D4', where, 'serial:' + slot, ok,
                       '[serials are the correlation keys of pending calls] '
                       + msg, detail, nontrivial, loc)
            return ok

        def floor(self, *a):
            pass

        def advisory(self, *a):
            pass
    sub = _Serials()
    _c03.serial_rules(sub)
    mfi = ctx.prog.func('message.DBusMessage._marshal')
    for c in _c03.message_classes(ctx.prog):
        if c.name != 'MethodCallMessage':
            continue
        paths = Interp(ctx.prog, exc_edges=False, self_cls=c).run(mfi)
        _c03.marshal_rules(sub, c, mfi, paths, ('param', 'self'),
                           skip_typing=True)
    ctx.floor('C08.D4', 4)
    ctx.floor('C08.D5', 4)


def convention(ctx, cv):
    prog = ctx.prog
    it = Interp(prog, exc_edges=False)
    msg = ('param', cv.params()[1])
    body = ('attr', msg, 'body')
    sig = ('attr', msg, 'signature')
    lenb = None
    n = 0
    for p in it.run(cv):
        if p.outcome == 'raise':
            ok = kind(p.value) == 'call' and p.value[1] == 'error.RemoteError'
            ctx.ob('C08.D5', cv.qualname, 'raises-only-RemoteError', ok,
                   'a reply that does not match the declared return '
                   'signature must yield RemoteError; raises %s'
                   % term_str(p.value)[:80])
            continue
        if p.outcome != 'return':
            continue
        # recognised atoms
        known = {}

        def is_len_body(t):
            return strip_sites(t) == strip_sites(
                ('call', 'len', ('builtin', 'len'), (body,), (), None))
        unknown = False
        for c, pol in p.cond:
            if c == msg or (kind(c) == 'cmp' and c[2] == msg and
                            c[3] == NONE):
                if kind(c) == 'cmp':
                    known['msg_none'] = (c[1] == 'is') == pol
                continue
            if kind(c) == 'cmp' and c[2] == body and c[3] == NONE and \
                    c[1] in ('is', 'is not'):
                known['body_none'] = (c[1] == 'is') == pol
            elif c == body:
                known['body_truthy'] = pol
            elif kind(c) == 'cmp' and is_len_body(c[2]) and is_const(c[3]) \
                    and c[1] in ('==', '!='):
                known['len==%d' % c[3][1]] = (c[1] == '==') == pol
            elif kind(c) == 'cmp' and c[2] == ('sub', sig, C(0)) and \
                    c[3] == C('(') and c[1] in ('==', '!='):
                known['struct'] = (c[1] == '==') == pol
            elif contains(c, lambda x: x == ('param', cv.params()[2])) or \
                    contains(c, lambda x: x == sig):
                continue      # return-signature check, not the convention
            else:
                unknown = True
        if known.get('msg_none'):
            continue
        # a value (None included) may be delivered only on a path that has
        # compared the reply's signature with the declared one
        rs = ('param', cv.params()[2])
        checked = any(contains(c, lambda x: x == rs) for c, pol in p.cond)
        ctx.ob('C08.D5', cv.qualname, 'signature-checked-before-delivery',
               checked,
               'a value is delivered on a path that never looked at the '
               'declared return signature: a reply that does not match it '
               '(e.g. an empty reply to a call declared to return a string) '
               'is delivered as a value instead of failing with RemoteError',
               {'value': term_str(p.value)[:60],
                'path': [(term_str(c)[:50], pol) for c, pol in p.cond[:6]]})
        # ... by VALUE: with a declared signature 's', no delivering path is
        # feasible for a reply whose signature is absent, empty or different
        # (every test of the path that mentions the two is evaluated)
        for got_ in (None, '', 'i', 'ss'):
            env = {sig: C(got_), rs: C('s')}
            feas = True
            for c, pol in p.cond:
                if not (contains(c, lambda x: x == sig) or
                        contains(c, lambda x: x == rs)):
                    continue
                tv = truth(subst_fold(c, env))
                if tv is not None and tv != pol:
                    feas = False
                    break
            ctx.ob('C08.D5', cv.qualname, 'declared-s-refuses-reply:%r'
                   % (got_,), not feas,
                   'a call declared to return "s" is completed with a value '
                   'on a path that a reply with signature %r takes [%s]: a '
                   'reply that does not match the declared signature must '
                   'fail the call with RemoteError' % (got_, '; '.join(
                       '%s is %s' % (term_str(c)[:50], pol)
                       for c, pol in p.cond[:4])), nontrivial=feas)
        # ... and compared for EQUALITY when a non-empty signature was
        # declared (`in` between two strings is a substring test: declared
        # 'ii', reply 'i' would pass)
        declared = rs in p.state.truthy or any(
            c == rs and pol for c, pol in p.cond)
        # the "do not check" sentinel is not a declaration
        nocheck = any(kind(c) == 'cmp' and c[1] in ('==', '!=') and
                      c[2] == rs and is_const(c[3]) and
                      ((c[1] == '==') == pol) for c, pol in p.cond)
        if declared and not nocheck:
            eq = any(kind(c) == 'cmp' and c[1] in ('==', '!=') and
                     {strip_sites(c[2]), strip_sites(c[3])} ==
                     {strip_sites(sig), rs} and ((c[1] == '==') == pol)
                     for c, pol in p.cond)
            ctx.ob('C08.D5', cv.qualname, 'declared-signature-equal', eq,
                   'with a declared return signature a value is delivered on '
                   'a path that has not established reply signature == '
                   'declared signature (tests on the path: %s)' % [
                       term_str(c)[:50] for c, pol in p.cond
                       if contains(c, lambda x: x == rs)][:3])
        v = p.value
        n += 1
        if v == NONE:
            implied = known.get('body_none') or known.get('len==0') or \
                known.get('body_truthy') is False
            if unknown and not implied:
                continue
            ctx.ob('C08.D7', cv.qualname, 'none-only-when-no-value',
                   bool(implied),
                   'None may be delivered only when the reply carries no '
                   'value', {'known': known})
        elif v == ('sub', body, C(0)):
            if unknown and not (known.get('len==1') and
                                known.get('struct') is False):
                if 'len==1' not in known and 'struct' not in known:
                    continue
            ok = known.get('len==1') is True and \
                known.get('struct') is False
            ctx.ob('C08.D7', cv.qualname, 'single-value-unwrapped', ok,
                   'the bare value may be delivered only for exactly one '
                   'non-struct value', {'known': known})
        elif v == body:
            ok = not (known.get('len==1') is True and
                      known.get('struct') is False) and \
                not known.get('body_none') and not known.get('len==0')
            nonempty = known.get('len==0') is False or \
                known.get('body_truthy') is True or \
                known.get('len==1') is True
            if not unknown:
                ctx.ob('C08.D7', cv.qualname, 'list-only-when-non-empty',
                       nonempty, 'a reply without values must be delivered '
                       'as None, but this path can deliver the (empty) list',
                       {'known': known})
            ctx.ob('C08.D7', cv.qualname, 'list-otherwise', ok,
                   'the list of values must be delivered unless there is '
                   'exactly one non-struct value', {'known': known})
        else:
            ctx.ob('C08.D7', cv.qualname, 'delivers-body-derived-value',
                   False, 'the delivered value %s is neither None, the '
                   'single value nor the list of values'
                   % term_str(v)[:100])
    if n == 0:
        raise AnalysisError('_cbCvtReply: no value-returning path')


def _positive_control(ctx):
    """The ownership rule expects zero foreign accesses; prove on every run
    that it can see one (fixture kept in /verif/fixtures)."""
    import os
    fx = os.path.join(os.path.dirname(os.path.dirname(os.path.dirname(
        os.path.abspath(__file__)))), 'fixtures', 'c08_foreign_writer.py')
    try:
        with open(fx) as f:
            tree = ast.parse(f.read())
    except OSError:
        raise AnalysisError('positive-control fixture missing: %s' % fx)
    hits = [n for n in ast.walk(tree)
            if isinstance(n, ast.Attribute) and n.attr == TABLE]
    if not hits:
        raise AnalysisError('positive control failed: the ownership rule '
                            'does not match its fixture')
    ctx.extra['positive_control'] = 'c08_foreign_writer.py: %d foreign ' \
        'access(es) recognised' % len(hits)
