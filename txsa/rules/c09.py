"""C09 - connecting always concludes; a lost connection fails all pending work
once: Deferred obligations, endpoint walk, loss sequence, iterate-while-
calling-out, proxy registry."""
import ast
import os

from ..loader import AnalysisError
from ..sym import (C, NONE, Interp, State, contains, is_const, iter_events,
                   kind, term_str, walk_term)

CC = 'client.DBusClientConnection'
META = {
    'level': 'other',
    'rule_text': 'Instances: every path of DBusClientConnection.'
                 'connectionLost split by lifecycle stage (authenticating / '
                 'waiting for Hello / established); the two paths of connect '
                 'and of try_next_ep; every loop in the package that '
                 'iterates an instance container and calls out; every '
                 'construction of a RemoteDBusObject.',
    'explanation': 'Liveness and cleanup obligations that are visible in the '
                   'shape of the code: connectionLost (the terminal '
                   'lifecycle event of every connection) reaches a resolver '
                   'of the connect Deferred on every not-yet-established '
                   'path - directly, or by failing the pending Hello call '
                   'whose errback is the resolver - and the resolvers are '
                   'idempotent; connect/try_next_ep either start an attempt '
                   'whose failure re-enters try_next_ep or fire the '
                   'Deferred, consuming the endpoint list in listed order; '
                   'on the established path every disconnect callback is '
                   'invoked, every pending call is cancelled+failed with the '
                   'reason, the table is reset and the object handler is '
                   'told; no loop iterates a live instance container while '
                   'calling out to user code; every proxy constructed is '
                   'registered with the registry that connectionLost walks. '
                   'Reachability of addresses and timing are NOT decided.',
    'trusted_base': ['Twisted delivers connectionLost exactly once per '
                     'connection', 'txsa.sym interpreter', 'CPython ast'],
    'assumptions': ['handlers are atomic (reactor)'],
    'decided': ['D1 connect Deferred obligation', 'D2 endpoint walk '
                '(incl. no state carried from one address entry to the next '
                'while the list is parsed)',
                'D3 loss sequence (the loss is recorded before any callback or errback runs; a call issued afterwards fails at once)', 'D4 no iteration of live containers '
                'while calling out', 'D5 proxy registry (members compare by '
                'identity)',
                'D6 callback / pending registries are per instance (no '
                'class-level mutable container mutated through self)'],
    'undecided': ['reachability of addresses, address-list parsing details',
                  'real timing'],
}

# D4 exemptions: one named site each, with the reason
D4_ADVISORY = {
    ('router.MessageRouter.routeMessage', '_rules'):
        'mutation of the rule table is reachable only in a later reactor '
        'turn (client add/delMatch wait for the daemon\'s reply; the bus '
        'callback is a transport write)',
}
SNAPSHOT_CALLS = {'list', 'tuple', 'sorted', 'set', 'frozenset'}


def run(ctx):
    prog = ctx.prog
    deferred_obligation(ctx)
    endpoint_walk(ctx)
    entry_state_is_per_entry(ctx)
    registry_identity(ctx)
    loss_sequence(ctx)
    unregistering_during_notification(ctx)
    callout_loops(ctx)
    proxy_registry(ctx)
    per_instance_registries(ctx)
    calls_after_loss(ctx)
    ctx.floor('C09.D6', 2)
    ctx.floor('C09.D1', 4)
    ctx.floor('C09.D2', 4)
    ctx.floor('C09.D3', 4)
    ctx.floor('C09.D4', 1)
    ctx.floor('C09.D5', 2)


LOST_SLOTS = ('lost=>failed-at-once', 'registers-only-if-not-lost',
              'loss-is-recorded', 'lost-path-exists')
# premises of the loss sequence kept by the other handlers of the table
TABLE_SLOTS = ('fired-timer-leaves-the-table',)


def calls_after_loss(ctx):
    """The registration side of "nothing fires afterwards": the clauses of
    C08.D2 about a call issued on a lost connection, re-reported here."""
    from . import c08

    class _Sub:
        prog = ctx.prog
        tier = ctx.tier
        extra = {}

        def ob(self, rule, where, slot, ok, msg, detail=None,
               nontrivial=True, loc=None):
            if rule == 'C08.D2' and slot in LOST_SLOTS:
                ctx.ob('C09.D3', where, slot, ok, msg, detail, nontrivial,
                       loc)
            if rule == 'C08.D3' and where.endswith('.connectionLost') and \
                    slot.startswith('fire=>timer-cancelled'):
                ctx.ob('C09.D3', where, slot, ok, '[a lost connection fails '
                       'every outstanding call and cancels its timer] ' + msg,
                       detail, nontrivial, loc)
            if rule == 'C08.D3' and slot in TABLE_SLOTS:
                ctx.ob('C09.D3', where, slot, ok, '[connectionLost cancels '
                       'every timer it finds in the table] ' + msg, detail,
                       nontrivial, loc)
            return ok

        def floor(self, *a):
            pass

        def advisory(self, *a):
            pass
    c08.run(_Sub())


def _is_resolver_call(c):
    return kind(c[2]) == 'attr' and c[2][2] in ('_failed', '_ok') and \
        kind(c[2][1]) == 'attr' and c[2][1][2] == 'factory'


def deferred_obligation(ctx):
    prog = ctx.prog
    selft = ('param', 'self')
    fac = prog.cls('client.DBusClientFactory')
    # resolvers: methods of the factory that fire self.d; must be idempotent
    resolvers = []
    for name, fi in fac.methods.items():
        for p in Interp(prog, exc_edges=False).run(fi):
            for c in p.calls():
                if kind(c[2]) == 'attr' and c[2][2] in ('callback',
                                                        'errback') and \
                        c[2][1] == ('attr', selft, 'd'):
                    if name not in resolvers:
                        resolvers.append(name)
                    guarded = any(
                        (c2 == ('attr', ('attr', selft, 'd'), 'called')
                         and not pol) for c2, pol in p.cond)
                    ctx.ob('C09.D1', fi.qualname, 'resolver-fires-once',
                           guarded, 'the connect Deferred can be resolved '
                           'from two places (Hello error, then transport '
                           'loss): the resolver must not fire an already '
                           'fired Deferred')
    ctx.ob('C09.D1', fac.qualname, 'has-resolvers',
           {'_ok', '_failed'} <= set(resolvers),
           'the factory must have a success and a failure resolver for its '
           'Deferred; found %s' % resolvers)
    # Hello: errback of the Hello call is the failure resolver, callback sets
    # busName and calls the success resolver
    ca = prog.func(CC + '.connectionAuthenticated')
    ok_hello = False
    for p in Interp(prog, exc_edges=False).run(ca):
        for c in p.calls():
            if kind(c[2]) == 'attr' and c[2][2] == 'addCallbacks' and \
                    len(c[3]) == 2:
                cbk, ebk = c[3]
                okc = kind(cbk) == 'bound' and cbk[2].endswith('_cbGotHello')
                oke = False
                if kind(ebk) == 'lambda':
                    import ast as _a
                    for n in _a.walk(ca.node):
                        if isinstance(n, _a.Lambda) and \
                                n.lineno == ebk[2]:
                            oke = '_failed' in _a.unparse(n)
                if kind(ebk) in ('bound', 'funcref', 'func'):
                    # a method / function of its own: every path of it hands
                    # the failure it received to the failure resolver
                    efi = prog.all_funcs.get(ebk[2] if kind(ebk) == 'bound'
                                             else ebk[1])
                    if efi is not None:
                        eps = [q for q in Interp(prog, exc_edges=False).run(
                            efi) if q.outcome != 'raise']
                        prm = [a for a in efi.params() if a != 'self'][:1]
                        oke = bool(eps) and bool(prm) and all(any(
                            kind(c2[2]) == 'attr' and c2[2][2] == '_failed'
                            and c2[3] == (('param', prm[0]),)
                            for c2 in q.calls()) for q in eps)
                ok_hello = okc and oke and contains(
                    c[2][1], lambda x: x == C('Hello'))
    ctx.ob('C09.D1', ca.qualname, 'hello-resolves-connect', ok_hello,
           'the Hello call must resolve the connect Deferred: its callback '
           'through _cbGotHello, its errback through factory._failed')
    gh = prog.func(CC + '._cbGotHello')
    okg = False
    for p in Interp(prog, exc_edges=False).run(gh):
        sets = [i for i, e in enumerate(p.trace) if e[0] == 'setattr' and
                e[2] == 'busName']
        oks = [i for i, e in enumerate(p.trace) if e[0] == 'call' and
               kind(e[1][2]) == 'attr' and e[1][2][2] == '_ok']
        okg = bool(sets) and bool(oks) and sets[0] < oks[0]
    ctx.ob('C09.D1', gh.qualname, 'established-means-busName', okg,
           'busName must be set exactly where the success resolver is '
           'called (it is the "established" flag connectionLost relies on)')
    # connectionLost: every not-established path reaches a resolver
    cl = prog.func(CC + '.connectionLost')
    stages = {
        'authenticating': {(selft, '_authenticated'): C(False),
                           (selft, 'busName'): NONE},
        'waiting-for-hello': {(selft, '_authenticated'): C(True),
                              (selft, 'busName'): NONE},
    }
    for stage, heap in stages.items():
        paths = Interp(prog, exc_edges=False).run(
            cl, {}, state=State(heap=dict(heap)))
        for p in paths:
            direct = any(_is_resolver_call(c) and c[2][2] == '_failed'
                         for c in p.calls())
            fails_pending = False
            for ev in p.trace:
                if ev[0] == 'loop' and contains(
                        ev[3], lambda x: kind(x) == 'attr' and
                        x[2] == '_pendingCalls'):
                    for bp in ev[4]:
                        if any(kind(c[2]) == 'attr' and c[2][2] == 'errback'
                               for c in bp.calls()):
                            fails_pending = True
            ok = direct or (stage == 'waiting-for-hello' and fails_pending)
            ctx.ob('C09.D1', cl.qualname, 'loss-while-%s' % stage, ok,
                   'when the transport closes while %s, connectionLost must '
                   'resolve the connect Deferred (%s); this path does '
                   'neither' % (
                       stage.replace('-', ' '),
                       'by calling factory._failed' if stage ==
                       'authenticating' else 'by calling factory._failed or '
                       'by failing the pending Hello call, whose errback is '
                       'the resolver'),
                   {'path': [(term_str(a)[:60], b) for a, b in p.cond[:5]]})


def endpoint_walk(ctx):
    prog = ctx.prog
    cn = prog.func('client.connect')
    from ..loader import nested_by_role
    tn = nested_by_role(cn, 'try_next_ep', ('passed_to', 'addErrback', 0))
    if tn is None:
        raise AnalysisError('anchor vanished: client.connect.try_next_ep')
    # connect
    src = ast.unparse(cn.node)
    for p in Interp(prog, exc_edges=False).run(cn):
        if p.outcome == 'raise':
            continue
        starts = any(c[2] == ('funcref', tn.qualname, c[2][2] if
                              kind(c[2]) == 'funcref' else None) or
                     (kind(c[2]) == 'funcref' and c[2][1] == tn.qualname)
                     for c in p.calls())
        fires = any(kind(c[2]) == 'attr' and c[2][2] == 'errback' and
                    c[3] and kind(c[3][0]) == 'call' and
                    (c[3][0][1] or '').endswith('ConnectError')
                    for c in p.calls())
        ctx.ob('C09.D2', cn.qualname, 'starts-or-fails', starts != fires,
               'connect must either start the walk over the endpoints or '
               'fail the Deferred with ConnectError (started: %s, failed: '
               '%s)' % (starts, fires))
        ctx.ob('C09.D2', cn.qualname, 'returns-the-factory-deferred',
               p.outcome == 'return' and kind(p.value) == 'call' and
               ((kind(p.value[2]) == 'attr' and
                 p.value[2][2] == 'getConnection') or
                (p.value[1] or '').endswith('.getConnection')),
               'connect must return the factory\'s Deferred',
               nontrivial=False)
    # the names connect() gives to the endpoint list and to the Deferred
    def assigned_from(pred):
        for n_ in ast.walk(cn.node):
            if isinstance(n_, ast.Assign) and len(n_.targets) == 1 and \
                    isinstance(n_.targets[0], ast.Name) and \
                    isinstance(n_.value, ast.Call) and pred(n_.value):
                return n_.targets[0].id
        return None
    ep_name = assigned_from(lambda c: isinstance(c.func, ast.Attribute) and
                            c.func.attr == 'getDBusEndpoints') or 'eplist'
    d_name = assigned_from(lambda c: isinstance(c.func, ast.Attribute) and
                           c.func.attr == 'getConnection') or 'd'
    # the step is the errback of an endpoint's own Deferred, which nobody
    # else looks at: if it raises - explicitly, or by re-raising the failure
    # it was handed (Failure.trap / raiseException) - the walk stops and the
    # Deferred connect() returned never fires
    reraise = [n for n in prog._iter_scope(tn.node) if isinstance(
        n, ast.Raise) or (
        isinstance(n, ast.Call) and isinstance(n.func, ast.Attribute) and
        n.func.attr in ('trap', 'raiseException',
                        'throwExceptionIntoGenerator') and
        isinstance(n.func.value, ast.Name) and
        n.func.value.id in tn.params())]
    ctx.ob('C09.D2', tn.qualname, 'step-never-reraises', not reraise,
           'the step that moves on to the next address can raise (%s): an '
           'attempt that fails that way - an unresolvable host name is an '
           'OSError, not a ConnectError - ends the walk, the remaining '
           'addresses are never tried and connect() never concludes'
           % (ast.unparse(reraise[0])[:60] if reraise else ''))
    # try_next_ep
    for p in Interp(prog, exc_edges=False).run(tn):
        if p.outcome == 'raise':
            continue
        pops = [c for c in p.calls() if kind(c[2]) == 'attr' and
                c[2][2] == 'pop' and c[2][1] == ('free', ep_name)]
        # ... or next(<iterator over the list made in connect>, default)
        nexts = [c for c in p.calls() if c[2] == ('builtin', 'next') and
                 c[3] and kind(c[3][0]) == 'free']
        chained = False
        for c in p.calls():
            if kind(c[2]) == 'attr' and c[2][2] == 'addErrback' and \
                    c[3] and kind(c[3][0]) == 'funcref' and \
                    c[3][0][1] == tn.qualname:
                inner = c[2][1]
                if kind(inner) == 'call' and kind(inner[2]) == 'attr' and \
                        inner[2][2] == 'connect' and (
                            (pops and inner[2][1] == pops[0]) or
                            (nexts and inner[2][1] == nexts[0])):
                    chained = True
        fires = any(kind(c[2]) == 'attr' and c[2][2] == 'errback' and
                    c[2][1] == ('free', d_name) for c in p.calls())
        ctx.ob('C09.D2', tn.qualname, 'attempt-or-fail', chained != fires,
               'each step must either try the next endpoint with its '
               'failure chained back to try_next_ep, or fail the Deferred '
               '(chained: %s, failed: %s)' % (chained, fires))
        for c in pops:
            idx = c[3][0] if c[3] else None
            rev = '.reverse()' in src
            ok = (idx is None and rev) or (idx == C(0) and not rev) or \
                (idx == C(-1) and rev)
            ctx.ob('C09.D2', tn.qualname, 'listed-order', ok,
                   'endpoints must be tried in listed order: reverse() + '
                   'pop(), or pop(0) (found pop(%s), reverse(): %s)'
                   % (term_str(idx) if idx is not None else '', rev))


        for c in nexts:
            name = c[3][0][1]
            made = [n.value for n in ast.walk(cn.node)
                    if isinstance(n, ast.Assign) and len(n.targets) == 1 and
                    isinstance(n.targets[0], ast.Name) and
                    n.targets[0].id == name]
            ok = len(made) == 1 and isinstance(made[0], ast.Call) and \
                isinstance(made[0].func, ast.Name) and \
                made[0].func.id == 'iter' and len(made[0].args) == 1 and \
                isinstance(made[0].args[0], ast.Name) and \
                '.reverse()' not in src and 'reversed(' not in src
            ctx.ob('C09.D2', tn.qualname, 'listed-order', ok,
                   'endpoints must be tried in listed order: %s must be one '
                   'iter() over the endpoint list, not reversed' % name)


_MUT = {'append', 'extend', 'insert', 'pop', 'remove', 'clear', 'update',
        'add', 'discard', 'setdefault', 'popitem', 'sort', 'reverse'}


class _Fresh:
    """Definite-assignment walk over one loop body: which names are read
    or mutated on some path of an iteration before that iteration assigned
    them (so their value comes from an earlier iteration)?"""

    def __init__(self, body, allowed):
        self.body_assigned = set()
        for st in body:
            for n in ast.walk(st):
                if isinstance(n, ast.Name) and isinstance(n.ctx, ast.Store):
                    self.body_assigned.add(n.id)
        self.allowed = allowed
        self.carried = {}        # name -> (line, how)
        self.block(body, frozenset())

    # returns the set definitely assigned after the block, or None when the
    # end of the block is unreachable
    def block(self, stmts, have):
        for st in stmts:
            have = self.stmt(st, have)
            if have is None:
                return None
        return have

    def use(self, node, have):
        for n in ast.walk(node):
            if isinstance(n, ast.Name) and isinstance(n.ctx, ast.Load) and \
                    n.id in self.body_assigned and n.id not in have and \
                    n.id not in self.allowed:
                self.carried.setdefault(n.id, (n.lineno, 'read'))
            # mutation of a container that this iteration did not create
            tgt = None
            if isinstance(n, ast.Subscript) and \
                    isinstance(n.ctx, (ast.Store, ast.Del)):
                tgt = n.value
            if isinstance(n, ast.Call) and \
                    isinstance(n.func, ast.Attribute) and \
                    n.func.attr in _MUT:
                tgt = n.func.value
            if isinstance(tgt, ast.Name) and tgt.id not in have and \
                    tgt.id not in self.allowed:
                self.carried.setdefault(tgt.id, (tgt.lineno, 'mutated'))

    def targets(self, t, have):
        out = set()
        for n in ast.walk(t):
            if isinstance(n, ast.Name) and isinstance(n.ctx, ast.Store):
                out.add(n.id)
        return have | out

    def stmt(self, st, have):
        if isinstance(st, ast.Assign):
            self.use(st.value, have)
            for t in st.targets:
                self.use(t, have)
                have = self.targets(t, have)
            return have
        if isinstance(st, ast.AugAssign):
            self.use(st.value, have)
            self.use(_load(st.target), have)
            return have
        if isinstance(st, ast.If):
            self.use(st.test, have)
            a = self.block(st.body, have)
            b = self.block(st.orelse, have)
            if a is None:
                return b
            if b is None:
                return a
            return a & b
        if isinstance(st, (ast.For, ast.While)):
            self.use(st.iter if isinstance(st, ast.For) else st.test, have)
            inner = self.targets(st.target, have) \
                if isinstance(st, ast.For) else have
            self.block(st.body, inner)
            self.block(st.orelse, have)
            return have
        if isinstance(st, ast.Try):
            a = self.block(st.body, have)
            outs = [a]
            for h in st.handlers:
                outs.append(self.block(h.body, have))
            outs = [o for o in outs if o is not None]
            res = frozenset.intersection(*map(frozenset, outs)) \
                if outs else None
            if res is not None and st.finalbody:
                res = self.block(st.finalbody, res)
            return res
        if isinstance(st, (ast.Continue, ast.Break, ast.Return, ast.Raise)):
            self.use(st, have)
            return None
        if isinstance(st, ast.With):
            for it in st.items:
                self.use(it.context_expr, have)
                if it.optional_vars is not None:
                    have = self.targets(it.optional_vars, have)
            return self.block(st.body, have)
        self.use(st, have)
        return have


def _load(t):
    if isinstance(t, ast.Name):
        return ast.Name(id=t.id, ctx=ast.Load(), lineno=t.lineno,
                        col_offset=t.col_offset)
    return t


def entry_state_is_per_entry(ctx):
    """getDBusEndpoints turns 'a;b;c' into endpoints, one per entry.  The
    walk of client.connect tries the LISTED addresses only if nothing parsed
    from one entry survives into the next: inside the loop over the entries
    every name the body assigns must be assigned in the same iteration before
    it is read or mutated; only the result list accumulates."""
    prog = ctx.prog
    fi = prog.func('endpoints.getDBusEndpoints')
    is_entry_loop = lambda n: isinstance(n, ast.For) and \
        isinstance(n.iter, ast.Call) and \
        isinstance(n.iter.func, ast.Attribute) and \
        n.iter.func.attr == 'split' and n.iter.args and \
        isinstance(n.iter.args[0], ast.Constant) and \
        n.iter.args[0].value == ';'
    if not any(is_entry_loop(n) for n in ast.walk(fi.node)):
        # split into a wrapper and a core: the loop lives in a helper
        from .common import helpers_of
        for g in helpers_of(prog, fi):
            if any(is_entry_loop(n) for n in ast.walk(g.node)):
                fi = g
                break
    returned = {n.value.id for n in ast.walk(fi.node)
                if isinstance(n, ast.Return) and
                isinstance(n.value, ast.Name)}
    loops = [n for n in ast.walk(fi.node) if isinstance(n, ast.For) and
             isinstance(n.iter, ast.Call) and
             isinstance(n.iter.func, ast.Attribute) and
             n.iter.func.attr == 'split' and n.iter.args and
             isinstance(n.iter.args[0], ast.Constant) and
             n.iter.args[0].value == ';']
    if len(loops) != 1:
        raise AnalysisError('endpoints.getDBusEndpoints: the loop over the '
                            "';'-separated address entries was not found")
    loop = loops[0]
    fr = _Fresh(loop.body, allowed=returned)
    names = sorted(fr.body_assigned | set(fr.carried))
    for name in names:
        bad = fr.carried.get(name)
        ctx.ob('C09.D2', fi.qualname, 'per-entry:%s' % name, bad is None,
               'while the address list is parsed, %r is %s (line %s) on a '
               'path of the per-entry loop where this iteration has not '
               'assigned it: it still holds what an EARLIER entry left '
               'there, so a later entry is connected to an earlier entry\'s '
               'address (tried twice) and the listed one never is'
               % (name, bad[1] if bad else '', bad[0] if bad else ''),
               loc='%s:%d' % (fi.module.relpath, bad[0]) if bad else None)
    # the accumulator itself must be created before the loop, not inside
    ctx.ob('C09.D2', fi.qualname, 'result-accumulates',
           bool(returned) and not (returned & fr.body_assigned),
           'the list of endpoints that is returned must be created once, '
           'before the loop over the entries')


def _tolerant_removals(fn, attr):
    """(n_removals, n_tolerant): self.<attr>.remove(x) calls in fn and how
    many of them cannot raise for an absent x (guarded by `x in self.<attr>`
    or inside a try that catches ValueError / Exception)."""
    n = tol = 0

    def walk(node, guards, in_try):
        nonlocal n, tol
        if isinstance(node, ast.If):
            g = set(guards)
            for c in ast.walk(node.test):
                if isinstance(c, ast.Compare) and len(c.ops) == 1 and \
                        isinstance(c.ops[0], ast.In) and \
                        isinstance(c.comparators[0], ast.Attribute) and \
                        c.comparators[0].attr == attr:
                    g.add(ast.dump(c.left))
            for st in node.body:
                walk(st, g, in_try)
            for st in node.orelse:
                walk(st, guards, in_try)
            return
        if isinstance(node, ast.Try):
            catches = any(
                h.type is None or any(
                    isinstance(t, ast.Name) and t.id in (
                        'ValueError', 'Exception', 'BaseException')
                    for t in ast.walk(h.type)) for h in node.handlers)
            for st in node.body:
                walk(st, guards, in_try or catches)
            for st in node.orelse + node.finalbody:
                walk(st, guards, in_try)
            for h in node.handlers:
                for st in h.body:
                    walk(st, guards, in_try)
            return
        if isinstance(node, ast.Call) and \
                isinstance(node.func, ast.Attribute) and \
                node.func.attr == 'remove' and \
                isinstance(node.func.value, ast.Attribute) and \
                node.func.value.attr == attr and len(node.args) == 1:
            n += 1
            if in_try or ast.dump(node.args[0]) in guards:
                tol += 1
        for ch in ast.iter_child_nodes(node):
            walk(ch, guards, in_try)
    walk(fn, frozenset(), False)
    return n, tol


def unregistering_during_notification(ctx):
    """A disconnect callback may cancel itself (or another callback) while
    it is being notified.  That works when the registry is still populated
    during the notification (a snapshot is iterated), or when cancelling an
    absent callback is harmless.  A loss handler that EMPTIES the registry
    before it calls out, paired with a cancel method whose `.remove()` is
    unguarded, makes such a callback raise ValueError out of connectionLost:
    the remaining callbacks are skipped and the pending calls never fail."""
    prog = ctx.prog
    selft = ('param', 'self')
    for qcls, attr in ((CC, '_dcCallbacks'),
                       ('objects.RemoteDBusObject', '_disconnectCBs')):
        cls = prog.cls(qcls)
        lost = prog.lookup_method(cls, 'connectionLost')
        cancel = prog.lookup_method(cls, 'cancelNotifyOnDisconnect')
        if lost is None or cancel is None:
            raise AnalysisError('anchor vanished: %s.connectionLost / '
                                'cancelNotifyOnDisconnect' % qcls)
        detached = False
        for p in Interp(prog, exc_edges=False).run(lost):
            seen_reset = False
            for ev in p.trace:
                if ev[0] == 'setattr' and ev[1] == selft and ev[2] == attr:
                    seen_reset = True
                if ev[0] == 'call' and kind(ev[1][2]) == 'attr' and \
                        ev[1][2][1] == ('attr', selft, attr) and \
                        ev[1][2][2] == 'clear':
                    seen_reset = True
                if ev[0] == 'loop' and seen_reset and any(
                        kind(c[2]) in ('elem', 'loopvar')
                        for bp in ev[4] for c in bp.calls()):
                    detached = True
        n, tol = _tolerant_removals(cancel.node, attr)
        ctx.ob('C09.D3', lost.qualname, 'unregister-while-notified:%s' % attr,
               (not detached) or n == tol,
               'connectionLost empties self.%s before it calls the '
               'callbacks, and %s removes from it without a guard: a '
               'callback that cancels itself while being notified raises '
               'ValueError out of connectionLost - the callbacks after it do '
               'not run, the pending calls are not failed and their timers '
               'later fire TimeOut' % (attr, cancel.qualname))


def _from_pending(t):
    """t is (a component of) what a pop/get on the pending table gave"""
    return contains(t, lambda x: kind(x) == 'call' and
                    kind(x[2]) == 'attr' and x[2][2] in ('pop', 'get') and
                    kind(x[2][1]) == 'attr' and x[2][1][2] == '_pendingCalls')


def loss_sequence(ctx):
    prog = ctx.prog
    selft = ('param', 'self')
    cl = prog.func(CC + '.connectionLost')
    reason = ('param', cl.params()[1])
    heap = {(selft, '_authenticated'): C(True),
            (selft, 'busName'): ('inst', '<busName>', None)}
    paths = Interp(prog, exc_edges=False).run(cl, {},
                                              state=State(heap=heap))
    if not paths:
        raise AnalysisError('connectionLost: no established path')
    for p in paths:
        if p.outcome == 'raise':
            ctx.ob('C09.D3', cl.qualname, 'no-raise', False,
                   'connectionLost raises on the established path')
            continue
        cb_loop = pend_loop = popped_all = False
        for ev in p.trace:
            if ev[0] != 'loop':
                continue
            if contains(ev[3], lambda x: kind(x) == 'attr' and
                        x[2] == '_dcCallbacks'):
                for bp in ev[4]:
                    for c in bp.calls():
                        if kind(c[2]) == 'elem' and c[3] == (selft, reason):
                            cb_loop = True
            if contains(ev[3], lambda x: kind(x) == 'attr' and
                        x[2] == '_pendingCalls'):
                oks = []
                pops = []
                for bp in ev[4]:
                    calls = bp.calls()
                    eb = [c for c in calls if kind(c[2]) == 'attr' and
                          c[2][2] == 'errback']
                    # a turn that found the entry already gone (the value
                    # popped / looked up for this key is None or falsy) has
                    # nobody to fail
                    absent = not eb and any(
                        ((kind(c) == 'cmp' and c[1] in ('is', 'is not') and
                          c[3] == NONE and (c[1] == 'is') == pol and
                          _from_pending(c[2])) or
                         (not pol and _from_pending(c)))
                        for c, pol in bp.cond)
                    oks.append(absent or (len(eb) == 1 and
                                          eb[0][3] == (reason,)))
                    pops.append(any(
                        kind(c[2]) == 'attr' and c[2][2] == 'pop' and
                        c[2][1] == ('attr', selft, '_pendingCalls') and
                        c[3] and contains(c[3][0], lambda x: kind(x) in (
                            'elem', 'loopvar')) for c in calls))
                pend_loop = bool(oks) and all(oks) and not all(
                    not any(kind(c[2]) == 'attr' and c[2][2] == 'errback'
                            for c in bp.calls()) for bp in ev[4])
                # every turn of a walk over a SNAPSHOT of the table's keys
                # pops its key: the table is empty afterwards
                if pops and all(pops) and kind(ev[3]) == 'call' and \
                        ev[3][1] in ('list', 'tuple', 'sorted'):
                    popped_all = True
        # the loss is recorded before any user code runs: a call issued by
        # a disconnect callback or an errback must be failed, not registered
        # in the fresh table where nothing ever fails it
        mark = [i for i, e in enumerate(p.trace)
                if e[0] == 'setattr' and e[3] == reason]
        outs = [i for i, e in enumerate(p.trace) if e[0] == 'loop' or (
            e[0] == 'call' and str(e[1][1] or '').endswith('connectionLost'))]
        ctx.ob('C09.D3', cl.qualname, 'loss-recorded-before-callouts',
               bool(mark) and (not outs or mark[0] < outs[0]),
               'connectionLost must record the loss reason on the connection '
               'before it runs disconnect callbacks or errbacks: a call they '
               'issue is otherwise registered as pending and never failed')
        ctx.ob('C09.D3', cl.qualname, 'disconnect-callbacks-run', cb_loop,
               'every registered disconnect callback must be invoked with '
               '(connection, reason)')
        ctx.ob('C09.D3', cl.qualname, 'pending-calls-failed', pend_loop,
               'every pending call must be failed with the loss reason')
        reset = any(e[0] == 'setattr' and e[2] == '_pendingCalls' and
                    kind(e[3]) == 'dict' and not e[3][1] for e in p.trace)
        ctx.ob('C09.D3', cl.qualname, 'pending-table-reset',
               reset or popped_all,
               'the pending table must be emptied')
        oh = any(kind(c[2]) in ('attr', 'bound') and
                 str(c[2][2]).endswith('connectionLost') and
                 c[3] == (reason,) and contains(
                     c[2], lambda x: kind(x) == 'attr' and
                     x[2] == 'objHandler') for c in p.calls(deep=False))
        ctx.ob('C09.D3', cl.qualname, 'object-handler-told', oh,
               'the object handler (remote-object proxies) must be told '
               'about the loss')


def callout_loops(ctx):
    """No loop iterates a live instance container while calling out."""
    prog = ctx.prog
    n = 0
    for fi in prog.all_funcs.values():
        if fi.cls is None:
            continue
        for node in prog._iter_scope(fi.node):
            if not isinstance(node, ast.For):
                continue
            it = node.iter
            attr = _live_container(it)
            if attr is None:
                continue
            # a class-level TUPLE is not a live container: nobody can change
            # it while it is iterated
            decl = None
            for k in prog.mro(fi.cls):
                if attr in k.attrs:
                    decl = k.attrs[attr]
                    break
            if isinstance(decl, ast.Tuple) and not any(
                    isinstance(x, ast.Attribute) and x.attr == attr and
                    isinstance(x.ctx, ast.Store)
                    for f2 in prog.all_funcs.values()
                    for x in ast.walk(f2.node)):
                continue
            targets = {t.id for t in ast.walk(node.target)
                       if isinstance(t, ast.Name)}
            callout = None
            for sub in ast.walk(ast.Module(body=node.body,
                                           type_ignores=[])):
                if isinstance(sub, ast.Call):
                    f = sub.func
                    if isinstance(f, ast.Name) and f.id in targets:
                        callout = ast.unparse(sub)[:50]
                    if isinstance(f, ast.Attribute) and \
                            f.attr in ('callback', 'errback', 'match',
                                       'connectionLost') and \
                            isinstance(f.value, ast.Name) and \
                            f.value.id in targets:
                        callout = ast.unparse(sub)[:50]
            if callout is None:
                continue
            # was the container detached (reassigned) before the loop?
            detached = _detached_before(fi, node, attr)
            key = (fi.qualname, attr)
            n += 1
            if key in D4_ADVISORY:
                ctx.advisory('%s iterates self.%s while calling out (%s); '
                             'not a violation because %s'
                             % (fi.qualname, attr, callout,
                                D4_ADVISORY[key]))
                ctx.ob('C09.D4', fi.qualname, 'snapshot:%s' % attr, True,
                       'advisory site', nontrivial=False)
                continue
            ctx.ob('C09.D4', fi.qualname, 'snapshot:%s' % attr, detached,
                   'the loop iterates the live container self.%s while '
                   'calling out to user code (%s); the callee can change '
                   'the container (unregister itself, issue a new call): '
                   'entries are skipped or "changed size during iteration" '
                   'is raised. Iterate a snapshot.' % (attr, callout))
    # positive control
    import os
    fx = os.path.join(os.path.dirname(os.path.dirname(os.path.dirname(
        os.path.abspath(__file__)))), 'fixtures', 'c09_live_iteration.py')
    try:
        tree = ast.parse(open(fx).read())
    except OSError:
        raise AnalysisError('positive-control fixture missing: %s' % fx)
    hits = [nd for nd in ast.walk(tree) if isinstance(nd, ast.For) and
            _live_container(nd.iter)]
    if not hits:
        raise AnalysisError('positive control failed: the live-iteration '
                            'rule does not match its fixture')
    ctx.extra['positive_control'] = 'c09_live_iteration.py: %d live ' \
        'iteration(s) recognised' % len(hits)
    ctx.extra['callout_loops'] = n
    # (the expected count of LIVE call-out loops is zero plus the advisory
    # site; the fixture above is the positive control, so a tree without any
    # such loop is a pass, not a lost anchor)
    ctx.ob('C09.D4', 'package', 'callout-loops-scanned', True,
           '%d loop(s) over a live instance container that call out' % n,
           nontrivial=False)


def _live_container(it):
    """self.X / self.X.values() / .items() / .keys() -> 'X'; a snapshot
    (list(...), X[:], .copy(), valuerefs()) -> None"""
    if isinstance(it, ast.Attribute) and isinstance(it.value, ast.Name) \
            and it.value.id == 'self':
        return it.attr
    if isinstance(it, ast.Call) and isinstance(it.func, ast.Attribute) and \
            it.func.attr in ('values', 'items', 'keys') and not it.args:
        return _live_container(it.func.value)
    return None


def _detached_before(fi, loop, attr):
    """A statement before the loop (same function) rebinds self.<attr> and
    the loop iterates a local name: handled by _live_container returning
    None.  Here: the iterated expression is self.<attr> itself, so it is
    live."""
    return False


def proxy_registry(ctx):
    prog = ctx.prog
    selft = ('param', 'self')
    h = prog.cls('objects.DBusObjectHandler')
    # which registry does connectionLost walk?
    cl = prog.lookup_method(h, 'connectionLost')
    reg = None
    for node in prog._iter_scope(cl.node):
        if isinstance(node, ast.For):
            for sub in ast.walk(node.iter):
                if isinstance(sub, ast.Attribute) and \
                        isinstance(sub.value, ast.Name) and \
                        sub.value.id == 'self':
                    reg = sub.attr
    if reg is None:
        raise AnalysisError('DBusObjectHandler.connectionLost walks no '
                            'registry')
    gr = prog.lookup_method(h, 'getRemoteObject')
    funcs = [gr] + list(gr.nested.values())
    n = 0
    for fi in funcs:
        for p in Interp(prog, exc_edges=False).run(fi):
            made = [c for c in p.calls() if c[1] ==
                    'objects.RemoteDBusObject']
            # constructions nested inside other calls' arguments
            for c in list(p.calls()):
                for t in walk_term(c):
                    if kind(t) == 'call' and \
                            t[1] == 'objects.RemoteDBusObject' and \
                            t not in made:
                        made.append(t)
            for m in made:
                n += 1
                registered = False
                for ev in iter_events(p.trace):
                    if ev[0] == 'call' and kind(ev[1][2]) == 'attr' and \
                            ev[1][2][2] in ('add', 'append') and \
                            kind(ev[1][2][1]) == 'attr' and \
                            ev[1][2][1][2] == reg and ev[1][3] == (m,):
                        registered = True
                    if ev[0] == 'setsub' and kind(ev[1]) == 'attr' and \
                            ev[1][2] == reg and ev[3] == m:
                        registered = True
                ctx.ob('C09.D5', fi.qualname, 'proxy-registered', registered,
                       'a RemoteDBusObject is handed out on a path that does '
                       'not enter it into self.%s, the registry '
                       'connectionLost walks: its disconnect callbacks never '
                       'run' % reg, {'path': [(term_str(a)[:60], b)
                                              for a, b in p.cond[:5]]})
    if n == 0:
        raise AnalysisError('getRemoteObject constructs no proxy')


# class-level containers that are shared on purpose (one named symbol each)
SHARED_ON_PURPOSE = {
    ('interface.DBusInterface', 'knownInterfaces'):
        'documented process-wide cache of interfaces by name (C15 anchors)',
}
_MUT = {'append', 'extend', 'insert', 'remove', 'pop', 'clear', 'update',
        'add', 'discard', 'setdefault', 'popitem', 'sort', 'reverse'}


def _container_use(name, funcs):
    """(methods that mutate self.<name> in place, is self.<name> ever
    bound) over the given (qualname, FunctionDef) pairs."""
    mutated = []
    rebound = False
    for qn, fnode in funcs:
        for node in ast.walk(fnode):
            if isinstance(node, ast.Call) and \
                    isinstance(node.func, ast.Attribute) and \
                    node.func.attr in _MUT and \
                    isinstance(node.func.value, ast.Attribute) \
                    and node.func.value.attr == name and \
                    isinstance(node.func.value.value, ast.Name) \
                    and node.func.value.value.id == 'self':
                mutated.append(qn)
            if isinstance(node, ast.Subscript) and \
                    isinstance(node.ctx, (ast.Store, ast.Del)) \
                    and isinstance(node.value, ast.Attribute) \
                    and node.value.attr == name and \
                    isinstance(node.value.value, ast.Name) and \
                    node.value.value.id == 'self':
                mutated.append(qn)
            if isinstance(node, ast.AugAssign) and _is_self_attr(
                    node.target, name):
                # `self.x += [...]` extends the shared object in place
                mutated.append(qn)
            if isinstance(node, ast.Assign):
                for t in node.targets:
                    for tt, vv in _pairs(t, node.value):
                        if _is_self_attr(tt, name) and not any(
                                _is_self_attr(x, name)
                                for x in ast.walk(vv)):
                            # bound to something that is not derived from
                            # the shared object itself
                            rebound = True
    return mutated, rebound


def _is_self_attr(node, name):
    return isinstance(node, ast.Attribute) and node.attr == name and \
        isinstance(node.value, ast.Name) and node.value.id == 'self'


def _pairs(target, value):
    if isinstance(target, (ast.Tuple, ast.List)) and \
            isinstance(value, (ast.Tuple, ast.List)) and \
            len(target.elts) == len(value.elts):
        out = []
        for a, b in zip(target.elts, value.elts):
            out.extend(_pairs(a, b))
        return out
    return [(target, value)]


def _container_use_foreign(name, prog):
    """Mutations / bindings of <expr>.<name> through a receiver other than
    `self`, anywhere in the package (bus.py works on its connections through
    `caller.busNames[...]`, `proto.matchRules...`)."""
    mutated = []
    rebound = False
    for fi in prog.all_funcs.values():
        for node in ast.walk(fi.node):
            recv = None
            if isinstance(node, ast.Call) and \
                    isinstance(node.func, ast.Attribute) and \
                    node.func.attr in _MUT and \
                    isinstance(node.func.value, ast.Attribute) and \
                    node.func.value.attr == name:
                recv = node.func.value.value
                kind_ = 'mut'
            elif isinstance(node, ast.Subscript) and \
                    isinstance(node.ctx, (ast.Store, ast.Del)) and \
                    isinstance(node.value, ast.Attribute) and \
                    node.value.attr == name:
                recv = node.value.value
                kind_ = 'mut'
            elif isinstance(node, ast.Attribute) and node.attr == name and \
                    isinstance(node.ctx, ast.Store):
                recv = node.value
                kind_ = 'bind'
            if recv is None or (isinstance(recv, ast.Name) and
                                recv.id == 'self'):
                continue
            if kind_ == 'mut':
                mutated.append(fi.qualname)
            else:
                rebound = True
    return mutated, rebound


def _container_control():
    """the expected count on /repo is zero: prove on every run that the
    rule can see a shared container (and is silent on a rebound one)"""
    fx = os.path.join(os.path.dirname(os.path.dirname(os.path.dirname(
        os.path.abspath(__file__)))), 'fixtures', 'class_level_container.py')
    if not os.path.exists(fx):
        raise AnalysisError('positive-control fixture missing: %s' % fx)
    tree = ast.parse(open(fx).read())
    got = {}
    for c in tree.body:
        if isinstance(c, ast.ClassDef):
            funcs = [(f.name, f) for f in c.body
                     if isinstance(f, ast.FunctionDef)]
            got[c.name] = _container_use('items', funcs)
    if not (got.get('Shared') and got['Shared'][0] and not got['Shared'][1]
            and got.get('Own') and got['Own'][1]):
        raise AnalysisError('per-instance rule does not match its fixture')


C09_MODULES = ('client', 'objects', 'router', 'protocol', 'endpoints')


def registry_identity(ctx):
    """Live proxies are remembered in a WeakSet so that connection loss can
    reach their disconnect callbacks.  A set holds ONE of several equal
    members: the class of the members (and its bases in the package) must
    compare and hash by identity, i.e. define neither __eq__ nor __hash__."""
    prog = ctx.prog
    cls = prog.cls('objects.RemoteDBusObject')
    n = 0
    for c in prog.mro(cls):
        for special in ('__eq__', '__hash__'):
            n += 1
            ctx.ob('C09.D5', c.qualname, 'identity:%s' % special,
                   special not in c.methods and special not in c.attrs,
                   '%s defines %s: two live proxies for the same remote '
                   'object then count as one member of the proxy registry '
                   '(a WeakSet), the second is not tracked and its '
                   'disconnect callbacks never run when the connection is '
                   'lost' % (c.qualname, special), nontrivial=False)
    return n


def per_instance_registries(ctx, rule_id='C09.D6', modules=C09_MODULES,
                            consequence='a callback registered on one '
                            'object runs for every object'):
    """A class attribute initialised to a mutable container and mutated in
    place through an instance is shared by ALL instances (every proxy would
    see every other proxy's disconnect callbacks).  Such a registry must be
    (re)bound on the instance before it is mutated."""
    prog = ctx.prog
    _container_control()
    n = 0
    for c in prog.all_classes.values():
        if c.module.name not in modules:
            continue
        cont = {}
        for name, v in c.attrs.items():
            if isinstance(v, (ast.List, ast.Dict, ast.Set)) or (
                    isinstance(v, ast.Call) and isinstance(v.func, ast.Name)
                    and v.func.id in ('list', 'dict', 'set')):
                cont[name] = v
        # registries this property cares about, wherever they are declared
        for name in ('_dcCallbacks', '_disconnectCBs', '_pendingCalls',
                     '_weakProxies', '_signalRules'):
            if name in c.attrs and name not in cont:
                n += 1
                ctx.ob(rule_id, c.qualname, 'per-instance:%s' % name, True,
                       'class-level placeholder is not a container',
                       nontrivial=False)
        for name in cont:
            mutated, rebound = _container_use(
                name, [(fi.qualname, fi.node) for k in prog.subclasses(c)
                       for fi in k.methods.values()])
            m2, r2 = _container_use_foreign(name, prog)
            mutated = mutated + m2
            rebound = rebound or r2
            if not mutated:
                continue
            n += 1
            key = (c.qualname, name)
            if key in SHARED_ON_PURPOSE:
                ctx.ob(rule_id, c.qualname, 'per-instance:%s' % name, True,
                       'shared on purpose: %s' % SHARED_ON_PURPOSE[key],
                       nontrivial=False)
                continue
            ctx.ob(rule_id, c.qualname, 'per-instance:%s' % name, rebound,
                   'class attribute %s is a mutable container that %s '
                   'mutate(s) in place through self and that is never bound '
                   'on the instance: all instances share ONE container (%s)'
                   % (name, sorted(set(mutated))[:2], consequence),
                   {'mutators': sorted(set(mutated))})
    # the same sharing arises from a MUTABLE DEFAULT ARGUMENT that is kept
    # (self.x = param) or mutated in place: one object for every call
    for c in prog.all_classes.values():
        if c.module.name not in modules:
            continue
        for fi in c.methods.values():
            a = fi.node.args
            pos = a.posonlyargs + a.args
            pairs = list(zip(pos[len(pos) - len(a.defaults):], a.defaults)) \
                + [(p_, d_) for p_, d_ in zip(a.kwonlyargs, a.kw_defaults)
                   if d_ is not None]
            for prm, d in pairs:
                mutable = isinstance(d, (ast.List, ast.Dict, ast.Set)) or (
                    isinstance(d, ast.Call) and isinstance(d.func, ast.Name)
                    and d.func.id in ('list', 'dict', 'set') and not d.args)
                if not mutable:
                    continue
                kept = mutated = False
                for node in ast.walk(fi.node):
                    if isinstance(node, ast.Assign) and \
                            isinstance(node.value, ast.Name) and \
                            node.value.id == prm.arg and any(
                                isinstance(t, ast.Attribute)
                                for t in node.targets):
                        kept = True
                    if isinstance(node, ast.Call) and \
                            isinstance(node.func, ast.Attribute) and \
                            node.func.attr in _MUT and \
                            isinstance(node.func.value, ast.Name) and \
                            node.func.value.id == prm.arg:
                        mutated = True
                    if isinstance(node, ast.Subscript) and \
                            isinstance(node.ctx, (ast.Store, ast.Del)) and \
                            isinstance(node.value, ast.Name) and \
                            node.value.id == prm.arg:
                        mutated = True
                n += 1
                ctx.ob(rule_id, fi.qualname, 'mutable-default:%s' % prm.arg,
                       not (kept or mutated),
                       'parameter %s defaults to a mutable object that is '
                       '%s: every call that omits it works on the SAME '
                       'object (%s)' % (
                           prm.arg, 'stored on the instance' if kept
                           else 'mutated in place', consequence))
    n += _alias_mutations(ctx, rule_id, modules, consequence)
    ctx.extra['class_level_containers_checked:%s' % rule_id] = n
    return n


def _alias_mutations(ctx, rule_id, modules, consequence):
    """`t = self.TABLE` ... `t += [...]` / `t.append(...)` / `t[k] = v`:
    a class-level container mutated in place through a LOCAL ALIAS (the
    alias must be rebound to a copy first: `t = list(self.TABLE)`)."""
    prog = ctx.prog
    shared = set()
    for c in prog.all_classes.values():
        for name, v in c.attrs.items():
            if isinstance(v, (ast.List, ast.Dict, ast.Set)) or (
                    isinstance(v, ast.Call) and isinstance(v.func, ast.Name)
                    and v.func.id in ('list', 'dict', 'set')):
                shared.add(name)
    n = 0

    def is_shared_read(v):
        return isinstance(v, ast.Attribute) and v.attr in shared and (
            (isinstance(v.value, ast.Name) and
             v.value.id in ('self', 'cls')) or
            (isinstance(v.value, ast.Call) and
             isinstance(v.value.func, ast.Name) and
             v.value.func.id == 'type') or
            (isinstance(v.value, ast.Name) and
             v.value.id[:1].isupper()))

    for fi in prog.all_funcs.values():
        if fi.module.name not in modules or fi.parent is not None:
            continue
        bad = []

        def block(stmts, al):
            for st in stmts:
                al = stmt(st, al)
            return al

        def stmt(st, al):
            if isinstance(st, ast.Assign) and len(st.targets) == 1 and \
                    isinstance(st.targets[0], ast.Name):
                al = dict(al)
                if is_shared_read(st.value):
                    al[st.targets[0].id] = st.value.attr
                else:
                    al.pop(st.targets[0].id, None)
                return al
            if isinstance(st, ast.AugAssign) and \
                    isinstance(st.target, ast.Name) and \
                    st.target.id in al and isinstance(st.op, ast.Add):
                bad.append((st.lineno, al[st.target.id], '+='))
            for node in ast.walk(st) if not isinstance(
                    st, (ast.If, ast.For, ast.While, ast.Try, ast.With)) \
                    else []:
                if isinstance(node, ast.Call) and \
                        isinstance(node.func, ast.Attribute) and \
                        node.func.attr in _MUT and \
                        isinstance(node.func.value, ast.Name) and \
                        node.func.value.id in al:
                    bad.append((node.lineno, al[node.func.value.id],
                                '.' + node.func.attr))
                if isinstance(node, ast.Subscript) and \
                        isinstance(node.ctx, (ast.Store, ast.Del)) and \
                        isinstance(node.value, ast.Name) and \
                        node.value.id in al:
                    bad.append((node.lineno, al[node.value.id], '[...]='))
            if isinstance(st, ast.If):
                a = block(st.body, al)
                b = block(st.orelse, al)
                return {**a, **b}
            if isinstance(st, (ast.For, ast.While)):
                a = block(st.body, al)
                return {**al, **block(st.orelse, a)}
            if isinstance(st, ast.With):
                return block(st.body, al)
            if isinstance(st, ast.Try):
                a = block(st.body, al)
                for h in st.handlers:
                    a = {**a, **block(h.body, al)}
                return block(st.finalbody, block(st.orelse, a))
            return al
        block(fi.node.body, {})
        for line, attr, how in bad:
            n += 1
            ctx.ob(rule_id, fi.qualname, 'alias-mutation:%s' % attr, False,
                   'line %d: a local bound to the class-level container %s '
                   'is mutated in place (%s) - the change is seen by every '
                   'instance and every later call (%s)'
                   % (line, attr, how, consequence),
                   loc='%s:%d' % (fi.module.relpath, line))
    return n
