"""C10 - exactly one correctly addressed reply per call: path obligations on
DBusObjectHandler.handleMethodCallMessage (all paths of the dispatcher)."""
import ast

from .. import spec
from ..loader import AnalysisError
from ..sym import (C, NONE, Interp, State, contains, is_const, iter_events,
                   kind, term_str, walk_term)
from .codec_rules import strip_sites

H = 'objects.DBusObjectHandler'
Q = H + '.handleMethodCallMessage'

META = {
    'level': 'proof',
    'rule_text': 'Obligations: one per path of handleMethodCallMessage '
                 '(helper _send_err inlined) for the reply count; one per '
                 'reply construction for addressing; one per dispatch path '
                 'for the guards; one per path of the nested reply '
                 'callbacks. All paths of the function are enumerated '
                 '(loops summarised).',
    'explanation': 'Proof over all control-flow paths of the dispatcher, '
                   'extracted by the term interpreter: every early exit '
                   'sends exactly one reply; the dispatch exit sends none '
                   'itself and - iff the call expects a reply - registers a '
                   'callback and then an errback whose bodies each send '
                   'exactly one reply on every normal path; every reply is '
                   'constructed with reply_serial = the call\'s serial and '
                   'destination = the call\'s sender; user code '
                   '(executeMethod) is referenced only on the path where the '
                   'object was found, the member exists on the selected '
                   'interface and the signatures are equal, and is run '
                   'through maybeDeferred; error names are the '
                   'specification\'s; the no-reply flag is really read from '
                   'the wire. Method binding inside executeMethod and value '
                   'encoding are NOT decided.',
    'trusted_base': ['CPython ast', 'txsa.sym interpreter',
                     'twisted.internet.defer.maybeDeferred turns a raised '
                     'exception into a failed Deferred; callbacks added '
                     'later see failures of earlier ones'],
    'assumptions': ['conn.sendMessage sends one message'],
    'decided': ['D1 reply count on all paths', 'D2 addressing',
                'D3 guards dominate the dispatch; errback after callback',
                'D4 error names', 'D5 the no-reply flag is real',
                'D6 binding: the cache lookup searches every class of the '
                'MRO; executeMethod invokes the bound implementation exactly '
                'once with the decoded arguments (and the caller iff asked); the per-class tables are read through the class\'s own __dict__',
                'D7 reply packaging: the body holds exactly the declared '
                'number of return values'],
    'undecided': ['which Python callable a name resolves to at run time '
                  '(class layout of user objects)', 'value encoding under '
                  'the declared return signature'],
}

REPLY_CLASSES = ('message.MethodReturnMessage', 'message.ErrorMessage')


def reply_sends(trace):
    """[(send call, reply construction term)] for conn.sendMessage(<reply>)"""
    out = []
    for ev in iter_events(trace, deep=True):
        if ev[0] != 'call':
            continue
        c = ev[1]
        if kind(c[2]) == 'attr' and c[2][2] == 'sendMessage' and c[3]:
            r = c[3][0]
            if kind(r) == 'call' and r[1] in REPLY_CLASSES:
                out.append((c, r))
            elif kind(r) == 'inst' and r[1] in REPLY_CLASSES:
                out.append((c, r))
    return out


def bound_args(prog, call):
    cls = prog.cls(call[1])
    init = prog.lookup_method(cls, '__init__')
    ps = init.params()[1:]
    b = dict(zip(ps, call[3]))
    b.update(dict(call[4]))
    return b


def check_addressing(ctx, where, r, msgterm, slot):
    b = bound_args(ctx.prog, r)
    ok = b.get('reply_serial') == ('attr', msgterm, 'serial')
    ctx.ob('C10.D2', where, 'reply_serial:' + slot, ok,
           'a reply must carry the serial of the call it answers; '
           'reply_serial is %s' % term_str(b.get('reply_serial')
                                           or NONE)[:80])
    ok = b.get('destination') == ('attr', msgterm, 'sender')
    ctx.ob('C10.D2', where, 'destination:' + slot, ok,
           'a reply must be addressed to the caller (the call\'s sender); '
           'destination is %s' % (term_str(b['destination'])[:80]
                                  if 'destination' in b else 'not given'))
    return b


def first_declaration_wins(ctx, fi):
    """getInterfaces() lists the interfaces most-derived class first; a
    subclass may declare an interface under the name a base class already
    uses (to add members, to change a signature).  The dispatcher therefore
    takes the FIRST interface that matches.  Collecting the interfaces into
    a mapping keyed by name ({x.name: x for x in o.getInterfaces()},
    dict(...) of pairs) keeps the LAST one: members the subclass added are
    answered UnknownMethod, changed signatures are checked against the
    base's."""
    prog = ctx.prog
    bad = []
    for node in prog._iter_scope(fi.node):
        comp = None
        if isinstance(node, ast.DictComp):
            comp = node
            key = node.key
        elif isinstance(node, ast.Call) and isinstance(node.func, ast.Name) \
                and node.func.id == 'dict' and len(node.args) == 1 and \
                isinstance(node.args[0], (ast.GeneratorExp, ast.ListComp)) \
                and isinstance(node.args[0].elt, ast.Tuple) and \
                len(node.args[0].elt.elts) == 2:
            comp = node.args[0]
            key = node.args[0].elt.elts[0]
        if comp is None:
            continue
        over_ifaces = any(
            isinstance(x, ast.Attribute) and x.attr == 'getInterfaces'
            for g in comp.generators for x in ast.walk(g.iter))
        by_name = isinstance(key, ast.Attribute) and key.attr == 'name'
        if over_ifaces and by_name:
            bad.append(node.lineno)
    ctx.ob('C10.D6', fi.qualname, 'first-declaration-wins', not bad,
           'the interfaces of the object are collected into a mapping keyed '
           'by name (line %s): of two declarations under one name the LAST '
           '(the base class\'s) is used, the dispatcher must use the first'
           % bad, nontrivial=bool(bad))


def decoration_forms(prog):
    """How @dbusMethod records the interface on the function it decorates:
    a list of (attribute, index-or-None) read from the decorator itself -
    `method.<attribute> = interfaceName` gives (attribute, None),
    `method.<attribute> = (interfaceName, ...)` gives (attribute, 0)."""
    fi = prog.func('objects.dbusMethod')
    ps = fi.params()
    if not ps:
        raise AnalysisError('objects.dbusMethod takes no interface name')
    iface = ps[0]
    forms = []
    for n in ast.walk(fi.node):
        tgt = val = None
        if isinstance(n, ast.Assign) and len(n.targets) == 1 and \
                isinstance(n.targets[0], ast.Attribute) and \
                isinstance(n.targets[0].value, ast.Name):
            tgt, val = n.targets[0].attr, n.value
        elif isinstance(n, ast.Call) and isinstance(n.func, ast.Name) and \
                n.func.id == 'setattr' and len(n.args) == 3 and \
                isinstance(n.args[1], ast.Constant):
            tgt, val = n.args[1].value, n.args[2]
        if tgt is None:
            continue
        if isinstance(val, ast.Name) and val.id == iface:
            forms.append((tgt, None))
        elif isinstance(val, (ast.Tuple, ast.List)):
            for i, e in enumerate(val.elts):
                if isinstance(e, ast.Name) and e.id == iface:
                    forms.append((tgt, i))
    if not forms:
        raise AnalysisError('objects.dbusMethod: the attribute that records '
                            'the interface was not found (anchor changed)')
    return forms


def by_name_method_for_its_interface(ctx, rule):
    """executeMethod finds `dbus_<member>` by name first.  When that function
    was decorated for an interface (the attribute @dbusMethod stores, read
    from the decorator), it answers calls of THAT interface only: every path
    that runs it either knows it is not decorated or has compared the
    recorded interface equal to the interface called."""
    prog = ctx.prog
    fi = prog.func('objects.DBusObject.executeMethod')
    forms = decoration_forms(prog)
    attrs = {a for a, _ in forms}
    n = 0
    for p in Interp(prog, exc_edges=False).run(fi):
        if p.outcome != 'return' or kind(p.value) != 'call':
            continue
        g = p.value[2]
        if not (kind(g) == 'call' and g[1] == 'getattr'):
            continue            # the decorated lookup was used
        n += 1

        def recorded(t):
            """Is t the interface recorded on g (or, through a default, the
            interface called when g is not decorated)?"""
            for a, i in forms:
                base = [('attr', g, a)]
                base += [x for x in _subterms(t) if kind(x) == 'call' and
                         x[1] == 'getattr' and len(x[3]) == 3 and
                         x[3][0] == g and x[3][1] == C(a)]
                for b_ in base:
                    if i is None and t == b_:
                        return True
                    if i is not None and t == ('sub', b_, C(i)):
                        return True
            return False
        undecorated = any(
            kind(c) == 'call' and c[1] == 'hasattr' and not pol and
            len(c[3]) == 2 and c[3][0] == g and is_const(c[3][1]) and
            c[3][1][1] in attrs for c, pol in p.cond)
        same = any(kind(c) == 'cmp' and
                   (recorded(c[2]) or recorded(c[3])) and
                   ((c[1] == '!=' and not pol) or (c[1] == '==' and pol))
                   for c, pol in p.cond)
        ctx.ob(rule, fi.qualname, 'by-name-method-for-its-interface',
               undecorated or same,
               'a method found as dbus_<member> is run although it may be '
               'decorated for another interface: its recorded interface '
               '(%s, as @dbusMethod stores it) was not found equal to the '
               'one called [%s]: a member of the same name on another '
               'interface runs the wrong implementation' % (
                   ' / '.join('.%s%s' % (a, '' if i is None else '[%d]' % i)
                              for a, i in forms),
                   '; '.join('%s is %s' % (term_str(c)[-60:], pol)
                             for c, pol in p.cond[:3])))
    if n == 0:
        raise AnalysisError('executeMethod: no path runs a method found by '
                            'name (anchor changed)')


def _subterms(t):
    out, todo = [], [t]
    while todo:
        x = todo.pop()
        if isinstance(x, tuple):
            out.append(x)
            todo.extend(y for y in x if isinstance(y, tuple))
    return out


def _silent_passthrough(prog, fi, name):
    """Is the nested function `name` of fi a callback that sends nothing,
    calls nothing that could (only attribute arithmetic and logging), and
    returns the value it was given on every path?"""
    nf = fi.nested.get(name) if hasattr(fi, 'nested') else None
    if nf is None:
        return False
    node = nf.node
    if not node.args.args:
        return False
    p0 = node.args.args[0].arg
    for n in ast.walk(node):
        if isinstance(n, ast.Call):
            f = n.func
            nm = f.attr if isinstance(f, ast.Attribute) else (
                f.id if isinstance(f, ast.Name) else '')
            if nm not in ('msg', 'err', 'debug', 'info', 'warning', 'len',
                          'repr', 'str'):
                return False
        if isinstance(n, (ast.Raise, ast.Yield, ast.YieldFrom, ast.Await)):
            return False
    rets = [n for n in ast.walk(node) if isinstance(n, ast.Return)]
    if not rets or not isinstance(node.body[-1], ast.Return):
        return False
    return all(isinstance(r.value, ast.Name) and r.value.id == p0
               for r in rets) and not any(
        isinstance(n, ast.Name) and n.id == p0 and
        isinstance(n.ctx, ast.Store) for n in ast.walk(node))


def received_call_is_dispatched(ctx, rule):
    """Every method call the connection receives is handed to the object
    handler: a path of methodCallReceived that returns without doing so
    answers nothing - the caller waits for ever."""
    prog = ctx.prog
    fi = prog.func('client.DBusClientConnection.methodCallReceived')
    m = ('param', fi.params()[1])
    n = 0
    for p in Interp(prog, exc_edges=False).run(fi):
        if p.outcome == 'raise':
            continue
        n += 1
        ok = any(str(c[1] or '').endswith('handleMethodCallMessage') or (
            kind(c[2]) in ('attr', 'bound') and
            str(c[2][2]).endswith('handleMethodCallMessage'))
            and c[3][:1] == (m,) for c in p.calls())
        ctx.ob(rule, fi.qualname, 'received-call-is-dispatched', ok,
               'a received method call is dropped without being handed to '
               'the dispatcher [%s]: no reply of any kind is sent and the '
               'implementation does not run' % '; '.join(
                   '%s is %s' % (term_str(c)[:60], pol)
                   for c, pol in p.cond[:3]))
    if n == 0:
        raise AnalysisError('methodCallReceived: no path')


def counts_from_their_signatures(ctx, rule):
    """The reply is packaged by `nret` (one value or several) and calls are
    checked against `nargs`: each count is computed from ITS signature -
    nargs from sigIn (sig for a signal), nret from sigOut."""
    prog = ctx.prog
    n = 0
    for meth, pairs in (('addMethod', {'nargs': 'sigIn', 'nret': 'sigOut'}),
                        ('addSignal', {'nargs': 'sig'})):
        fi = prog.func('interface.DBusInterface.' + meth)
        m = ('param', fi.params()[1])
        for p in Interp(prog, exc_edges=False).run(fi):
            for ev in iter_events(p.trace):
                if ev[0] != 'setattr' or ev[1] != m or ev[2] not in pairs:
                    continue
                n += 1
                want = ('attr', m, pairs[ev[2]])
                others = [('attr', m, a) for a in ('sigIn', 'sigOut', 'sig')
                          if a != pairs[ev[2]]]
                ok = contains(ev[3], lambda x: x == want) and not any(
                    contains(ev[3], lambda x, o=o: x == o) for o in others)
                ctx.ob(rule, fi.qualname, 'count-from-its-signature:%s'
                       % ev[2], ok,
                       '%s.%s is computed from %s; it counts the complete '
                       'types of %s: the dispatcher wraps a returned list or '
                       'tuple (or not) by the wrong number' % (
                           meth, ev[2], term_str(ev[3])[:70], pairs[ev[2]]))
    if n < 3:
        raise AnalysisError('DBusInterface.addMethod/addSignal: the member '
                            'counts are not computed there (anchor changed)')


def run(ctx):
    received_call_is_dispatched(ctx, 'C10.D1')
    counts_from_their_signatures(ctx, 'C10.D7')
    prog = ctx.prog
    fi = prog.func(Q)
    msg = ('param', fi.params()[1])
    it = Interp(prog, exc_edges=False,
                inline=lambda q, d: q == H + '._send_err', max_paths=40000)
    paths = it.run(fi)
    ctx.extra['paths'] = len(paths)
    from ..loader import nested_by_role
    send_reply = nested_by_role(fi, 'send_reply',
                                ('passed_to', 'addCallback', 0))
    send_error = nested_by_role(fi, 'send_error',
                                ('passed_to', 'addErrback', 0))
    # the callbacks may also be METHODS that get the call as extra arguments:
    # d.addCallback(self._sendReturn, msg, m)
    cb_args = {}

    def method_callback(meth_name):
        for n in prog._iter_scope(fi.node):
            if isinstance(n, ast.Call) and \
                    isinstance(n.func, ast.Attribute) and \
                    n.func.attr == meth_name and n.args and \
                    isinstance(n.args[0], ast.Attribute) and \
                    isinstance(n.args[0].value, ast.Name) and \
                    n.args[0].value.id == 'self' and fi.cls is not None:
                t = prog.lookup_method(fi.cls, n.args[0].attr)
                if t is None or not all(isinstance(a, ast.Name)
                                        for a in n.args[1:]):
                    continue
                ps = t.params()
                if len(ps) < 2 + len(n.args) - 1:
                    continue
                # the extra arguments are the dispatcher's own variables:
                # the names the closure form reads as free variables
                cb_args[t.qualname] = {
                    ps[2 + i]: ('free', a.id)
                    for i, a in enumerate(n.args[1:])}
                return t
        return None
    if send_reply is None:
        send_reply = method_callback('addCallback')
    if send_error is None:
        send_error = method_callback('addErrback')
    n_dispatch = n_early = 0
    exp = ('attr', msg, 'expectReply')
    o_term = None
    for p in paths:
        if p.outcome == 'raise':
            ctx.ob('C10.D1', Q, 'no-raise', False,
                   'the dispatcher raises %s instead of replying'
                   % term_str(p.value)[:80])
            continue
        sends = reply_sends(p.trace)
        disp = [c for c in p.calls() if (c[1] or '').endswith(
            'maybeDeferred')]
        direct = [c for c in p.calls() if (
            kind(c[2]) in ('attr', 'bound') and
            str(c[2][2]).endswith('executeMethod'))]
        if direct and not disp:
            ctx.ob('C10.D3', Q, 'implementation-through-maybeDeferred',
                   False, 'user code is called directly: an exception it '
                   'raises escapes the dispatcher and no error reply is '
                   'sent (it must be run through defer.maybeDeferred)')
            n_dispatch += 1
            continue
        regs = [c for c in p.calls() if kind(c[2]) == 'attr' and
                c[2][2] in ('addCallback', 'addErrback', 'addCallbacks',
                            'addBoth')]
        tag = _path_tag(p, msg)
        if disp:
            n_dispatch += 1
            ctx.ob('C10.D1', Q, 'dispatch-sends-nothing-itself',
                   len(sends) == 0 and len(disp) == 1,
                   'the dispatch path must hand the call to the '
                   'implementation exactly once and leave the reply to the '
                   'callbacks (direct sends: %d, dispatches: %d)'
                   % (len(sends), len(disp)))
            d = disp[0]
            # D3: guards
            first = d[3][0] if d[3] else None
            okf = kind(first) in ('attr', 'bound') and \
                (first[2] == 'executeMethod' or
                 str(first[2]).endswith('.executeMethod'))
            ctx.ob('C10.D3', Q, 'implementation-through-maybeDeferred', okf,
                   'user code must be run through defer.maybeDeferred('
                   'o.executeMethod, ...) so that a raised exception '
                   'becomes a failure; first argument is %s'
                   % term_str(first)[:80])
            o = first[1] if okf else None
            o_term = o
            g_obj = any(kind(c) == 'cmp' and c[2] == o and c[3] == NONE and
                        ((c[1] == 'is') != pol) for c, pol in p.cond)
            ok_o = kind(o) == 'call' and kind(o[2]) == 'attr' and \
                o[2][2] == 'get' and o[3] and \
                o[3][0] == ('attr', msg, 'path') and \
                kind(o[2][1]) == 'attr' and o[2][1][2] == 'exports'
            ctx.ob('C10.D3', Q, 'guard:object-exported', g_obj and ok_o,
                   'the implementation may run only when the addressed path '
                   'is exported (exports.get(msg.path) is not None on this '
                   'path)')
            # member found: some m with (m is None) False where m derives
            # from .methods.get(msg.member)
            g_m = False
            mterm = None
            for c, pol in p.cond:
                if kind(c) == 'cmp' and c[3] == NONE and \
                        ((c[1] == 'is') != pol) and contains(
                            c[2], lambda x: kind(x) == 'call' and
                            kind(x[2]) == 'attr' and x[2][2] == 'get' and
                            x[3] and x[3][0] == ('attr', msg, 'member')):
                    g_m = True
                    mterm = c[2]
            ctx.ob('C10.D3', Q, 'guard:member-exists', g_m,
                   'the implementation may run only when the member exists '
                   'on the selected interface')
            g_s = _sig_guard(p, msg)
            ctx.ob('C10.D3', Q, 'guard:signature-matches', g_s,
                   'the implementation may run only when the call\'s '
                   'signature equals the declared input signature')
            # arguments
            okargs = len(d[3]) == 5 and d[3][2] == ('attr', msg, 'member') \
                and d[3][3] == ('attr', msg, 'body') and \
                d[3][4] == ('attr', msg, 'sender')
            ctx.ob('C10.D3', Q, 'dispatch-arguments', okargs,
                   'executeMethod must receive (interface, msg.member, '
                   'msg.body, msg.sender)', nontrivial=False)
            # registration iff expectReply
            e = True if exp in p.state.truthy else (
                False if exp in p.state.falsy else None)
            if e is None:
                ctx.ob('C10.D1', Q, 'branches-on-expectReply', False,
                       'the dispatch path does not depend on whether the '
                       'call expects a reply')
            elif e:
                names = []
                for r in regs:
                    for a in r[3]:
                        if kind(a) == 'funcref':
                            names.append((r[2][2], a[1].split('.')[-1]))
                        elif kind(a) == 'bound' and a[2] in cb_args:
                            names.append((r[2][2], a[2].split('.')[-1]))
                # callbacks that neither send anything nor change what
                # they are given (bookkeeping, logging) do not take part
                core = [x for x in names if not _silent_passthrough(
                    prog, fi, x[1])]
                ok = send_reply is not None and send_error is not None \
                    and core == [('addCallback', send_reply.node.name),
                                 ('addErrback', send_error.node.name)]
                ctx.ob('C10.D3', Q, 'callback-then-errback', ok,
                       'a call expecting a reply must register send_reply '
                       'as callback and then send_error as errback (so that '
                       'a failure inside send_reply still yields an error '
                       'reply); registered: %s' % names)
                okd = all(r[2][1] == d for r in regs) and len(regs) >= 2
                ctx.ob('C10.D1', Q, 'registered-on-dispatch-result', okd,
                       'the reply callbacks must be attached to the '
                       'Deferred of this dispatch', nontrivial=False)
            else:
                loud = [r for r in regs if not all(
                    kind(a) == 'funcref' and _silent_passthrough(
                        prog, fi, a[1].split('.')[-1]) for a in r[3])]
                ctx.ob('C10.D1', Q, 'no-reply-registers-nothing',
                       not loud, 'a call flagged as expecting no reply must '
                       'not be answered: nothing that sends may be '
                       'registered')
        else:
            n_early += 1
            ctx.ob('C10.D1', Q, 'early-exit-one-reply:' + tag,
                   len(sends) == 1 and not regs,
                   'this exit of the dispatcher sends %d replies (exactly '
                   'one is required)' % len(sends),
                   {'path': [(term_str(c)[:70], pol)
                             for c, pol in p.cond[:8]]})
            for c, r in sends:
                if kind(r) != 'call':
                    continue
                b = check_addressing(ctx, Q, r, msg, tag)
                # D4 error names
                if r[1] == 'message.ErrorMessage':
                    en = b.get('error_name')
                    want = _expected_error(p, msg)
                    if want:
                        ctx.ob('C10.D4', Q, 'error-name:' + tag,
                               en == C(want), 'this exit must answer %s; '
                               'answers %s' % (want, term_str(en)[:80]))
                    else:
                        # "... if and only if that path is exported, the
                        # member exists on that interface and the argument
                        # signature matches; otherwise the reply is
                        # UnknownObject, UnknownMethod or InvalidArgs"
                        three = (spec.ERR_UNKNOWN_OBJECT,
                                 spec.ERR_UNKNOWN_METHOD,
                                 spec.ERR_INVALID_ARGS)
                        ctx.ob('C10.D4', Q, 'refusal-has-one-of-three-reasons'
                               ':' + tag, not is_const(en) or en[1] in three,
                               'the dispatcher itself refuses a call with %s '
                               '- none of the three reasons the property '
                               'admits (object not exported, no such member, '
                               'wrong signature) [%s]: a valid call does not '
                               'run'
                               % (term_str(en)[:70], '; '.join(
                                   '%s is %s' % (term_str(c)[:50], pol)
                                   for c, pol in p.cond[-3:])))
    if n_dispatch == 0:
        raise AnalysisError('no dispatch path found in %s' % Q)
    if n_early < 4:
        raise AnalysisError('only %d early-exit path(s) found' % n_early)
    # nested reply callbacks -------------------------------------------------------
    fmsg = ('free', fi.params()[1])
    for nf, kind_ in ((send_reply, 'return'), (send_error, 'error')):
        if nf is None:
            ctx.ob('C10.D1', Q, 'callback-exists:' + kind_, False,
                   'the %s callback is missing' % kind_)
            continue
        it2 = Interp(prog, exc_edges=True,
                     inline=lambda q, d: q == H + '._send_err')
        for p in it2.run(nf, dict(cb_args.get(nf.qualname, {}))):
            if p.outcome == 'raise':
                if any(e[0] == 'exc-edge' for e in p.trace):
                    continue       # an exception escaping goes to errback
                ctx.ob('C10.D1', nf.qualname, 'no-raise', False,
                       'the %s callback raises' % kind_)
                continue
            if any(e[0] == 'exc-edge' for e in p.trace) and \
                    not any(e[0] == 'except' for e in p.trace):
                continue
            sends = reply_sends(p.trace)
            ctx.ob('C10.D1', nf.qualname, 'one-reply', len(sends) == 1,
                   'the %s callback must send exactly one reply on every '
                   'normal path; sends %d' % (kind_, len(sends)))
            for c, r in sends:
                if kind(r) != 'call':
                    continue
                want_cls = 'message.MethodReturnMessage' if kind_ == \
                    'return' else 'message.ErrorMessage'
                ctx.ob('C10.D1', nf.qualname, 'reply-kind', r[1] == want_cls,
                       'the %s callback must answer with %s' % (
                           kind_, want_cls.split('.')[-1]), nontrivial=False)
                b = check_addressing(ctx, nf.qualname, r, fmsg, kind_)
                if kind_ == 'return':
                    rv = ('param', nf.params()[
                        1 if nf.qualname in cb_args else 0])
                    seq = nret1 = None
                    extra = []
                    for cn, pol in p.cond:
                        if kind(cn) == 'call' and cn[1] == 'isinstance' and \
                                cn[3][0] == rv:
                            seq = pol
                        elif kind(cn) == 'cmp' and cn[1] in ('==', '!=') \
                                and kind(cn[2]) == 'attr' and \
                                cn[2][2] == 'nret' and cn[3] == C(1):
                            nret1 = (cn[1] == '==') == pol
                        else:
                            extra.append(term_str(cn)[:50])
                    body = b.get('body')
                    wrapped = kind(body) == 'list' and \
                        body[1] == (('item', rv),)
                    as_is = body == rv
                    if seq is False:
                        okp = wrapped
                    elif seq is True and nret1 is True:
                        okp = wrapped
                    elif seq is True and nret1 is False:
                        okp = as_is
                    else:
                        okp = False
                    ctx.ob('C10.D7', nf.qualname, 'packaging:seq=%s,nret1=%s'
                           % (seq, nret1), okp and not extra,
                           'the reply body must hold exactly the declared '
                           'number of values: a non-sequence result, or any '
                           'result of a method with ONE declared return '
                           'value, is wrapped as [result]; a sequence result '
                           'of a method with several return values is the '
                           'list of values. This path (result is a sequence: '
                           '%s, one declared value: %s%s) sends %s' % (
                               seq, nret1, ', extra condition %s' % extra
                               if extra else '', term_str(body)[:50]))
                    ok = kind(b.get('signature')) == 'attr' and \
                        b['signature'][2] == 'sigOut'
                    ctx.ob('C10.D2', nf.qualname, 'return-signature', ok,
                           'the return value must be encoded under the '
                           'declared return signature (sigOut)')
                else:
                    en = b.get('error_name')
                    swallowed = any(e[0] == 'except' and
                                    'MarshallingError' in e[1]
                                    for e in p.trace)
                    validated = any(
                        cl[1] == 'marshal.validateErrorName'
                        for cl in p.calls()) or any(
                        e[0] == 'exc-edge' and
                        e[1] == 'marshal.validateErrorName'
                        for e in p.trace)
                    ctx.ob('C10.D4', nf.qualname, 'error-name-validated',
                           validated, 'the error name must pass '
                           'validateErrorName before it is used')
                    if swallowed:
                        ctx.ob('C10.D4', nf.qualname, 'invalid-name-'
                               'fallback', en == C(spec.ERR_INVALID_NAME),
                               'an invalid error name must be replaced by '
                               '%s; is %s' % (spec.ERR_INVALID_NAME,
                                              term_str(en)[:80]))
                    else:
                        okn = (kind(en) == 'binop' and en[1] == '+' and
                               en[2] == C(spec.ERR_PY_PREFIX)) or \
                            (kind(en) == 'fstr' and len(en[1]) == 2 and
                             en[1][0] == C(spec.ERR_PY_PREFIX)) or \
                            (kind(en) == 'attr' and
                             en[2] == 'dbusErrorName')
                        ctx.ob('C10.D4', nf.qualname, 'error-name-source',
                               okn, 'the error name must be the '
                               'exception\'s dbusErrorName or %s<Class>; '
                               'is %s' % (spec.ERR_PY_PREFIX,
                                          term_str(en)[:80]))
    binding_rules(ctx)
    # D5 ------------------------------------------------------------------------
    from . import c03
    sub = _Sub(ctx, 'C10.D5')
    c03.reader_rules(sub, None)
    first_declaration_wins(ctx, fi)
    by_name_method_for_its_interface(ctx, 'C10.D6')
    from .common import class_memo_not_inherited
    class_memo_not_inherited(
        ctx, 'C10.D6', ('objects',),
        'calls to the members the subclass binds are answered with '
        'NotImplementedError or run the base class\'s implementation')
    ctx.floor('C10.D1', 12)
    ctx.floor('C10.D2', 10)
    ctx.floor('C10.D3', 6)
    ctx.floor('C10.D4', 4)
    ctx.floor('C10.D5', 1)
    ctx.floor('C10.D6', 6)
    ctx.floor('C10.D7', 3)


class _Sub:
    """Re-report the expectReply obligation of C03.D3 under C10.D5."""

    def __init__(self, ctx, rule):
        self.ctx = ctx
        self.rule = rule
        self.prog = ctx.prog

    def ob(self, rule, where, slot, ok, msg, detail=None, nontrivial=True,
           loc=None):
        if slot == 'restores-flag:expectReply':
            self.ctx.ob(self.rule, where, 'expectReply-read-from-wire', ok,
                        'the dispatcher decides on msg.expectReply, which '
                        'parseMessage must restore from the flags byte: '
                        + msg, detail)
        return ok


def _sig_guard(p, msg):
    """The path has established msg.signature (None -> '') == sigIn (None
    -> '')."""
    msig = ('attr', msg, 'signature')

    def none_fact(pred):
        for c, pol in p.cond:
            if kind(c) == 'cmp' and c[3] == NONE and c[1] in ('is',
                                                               'is not') \
                    and pred(c[2]):
                return (c[1] == 'is') == pol
        return None
    is_sigin = lambda x: kind(x) == 'attr' and x[2] == 'sigIn'
    a_none = none_fact(lambda x: x == msig)
    b_none = none_fact(is_sigin)
    if a_none and b_none:
        return True
    for c, pol in p.cond:
        if kind(c) == 'cmp' and c[1] in ('!=', '==') and \
                ((c[1] == '==') == pol):
            sides = [c[2], c[3]]
            has_sigin = lambda x: contains(x, is_sigin)
            has_msig = lambda x: contains(x, lambda y: y == msig)
            has_a = any((has_msig(x) and not has_sigin(x)) or
                        (x == C('') and a_none) for x in sides)
            has_b = any((has_sigin(x) and not has_msig(x)) or
                        (x == C('') and b_none) for x in sides)
            if has_a and has_b:
                return True
    return False


def _path_tag(p, msg):
    """Semantic name of an exit, from the tests taken."""
    iface = ('attr', msg, 'interface')
    member = ('attr', msg, 'member')
    known = {}
    for c, pol in p.cond:
        if kind(c) == 'cmp' and c[1] == '==' and is_const(c[3]) and pol:
            if c[2] == iface:
                known['iface'] = c[3][1].split('.')[-1]
            if c[2] == member:
                known['member'] = c[3][1]
    for c, pol in p.cond:
        if kind(c) == 'cmp' and c[3] == NONE and c[1] == 'is' and pol:
            if kind(c[2]) == 'call' and kind(c[2][2]) == 'attr' and \
                    c[2][2][2] == 'get' and kind(c[2][2][1]) == 'attr' and \
                    c[2][2][1][2] == 'exports':
                return 'unknown-object'
            if contains(c[2], lambda x: x == ('attr', msg, 'member')):
                return 'unknown-method'
    for c, pol in p.cond:
        if kind(c) == 'cmp' and c[1] in ('!=', '==') and \
                ((c[1] == '!=') == pol) and contains(
                    c, lambda x: kind(x) == 'attr' and x[2] == 'sigIn'):
            return 'invalid-args'
    if known.get('iface') and known.get('member'):
        return '%s.%s' % (known['iface'], known['member'])
    return 'other'


def _expected_error(p, msg):
    tag = _path_tag(p, msg)
    return {'unknown-object': spec.ERR_UNKNOWN_OBJECT,
            'unknown-method': spec.ERR_UNKNOWN_METHOD,
            'invalid-args': spec.ERR_INVALID_ARGS}.get(tag)


def lookup_continues(ctx, rule, qn, key_param_index):
    """A lookup over the per-class caches must keep searching later classes
    when the key is missing: every return from inside the loop returns a
    value whose presence was established (key in d) on that path."""
    prog = ctx.prog
    fi = prog.func(qn)
    key = ('param', fi.params()[key_param_index])
    it = Interp(prog, exc_edges=False)
    n = 0
    for p in it.run(fi):
        for ev in p.trace:
            if ev[0] != 'loop':
                continue
            for bp, lev in _all_body_paths(ev):
                if bp.outcome != 'return':
                    continue
                n += 1
                v = bp.value
                found = False
                for c, pol in bp.cond:
                    if kind(c) == 'cmp' and c[1] == 'in' and pol and \
                            c[2] == key and kind(v) == 'sub' and \
                            v[1] == c[3] and v[2] == key:
                        found = True
                    if kind(c) == 'cmp' and c[3] == NONE and c[2] == v and \
                            ((c[1] == 'is') != pol):
                        found = True
                if v in bp.state.truthy:
                    found = True
                ctx.ob(rule, qn, 'return-only-when-found', found,
                       'the search over the per-class caches returns %s from '
                       'inside the loop without having established that the '
                       'key is present: a definition on a later (base) class '
                       'is never reached' % term_str(v)[:80])
    if n == 0:
        ctx.ob(rule, qn, 'return-only-when-found', False,
               'no lookup loop with a return found in %s' % qn)
    # a lookup that NAMES an interface never answers from another one
    iface = ('param', fi.params()[1])

    def nested(ev, outer):
        for bp in ev[4]:
            full = outer + tuple(bp.cond)
            yield bp, full
            for e2 in bp.trace:
                if e2[0] == 'loop':
                    for x in nested(e2, full):
                        yield x
    m = 0
    for p in it.run(fi):
        for ev in p.trace:
            if ev[0] != 'loop':
                continue
            for bp, full in nested(ev, tuple(p.cond)):
                if bp.outcome != 'return' or (iface, True) not in full or \
                        (iface, False) in full:
                    continue        # (the latter: a combination of the
                    #                 function path with a body path of
                    #                 another iteration shape - infeasible)
                m += 1
                v = bp.value
                from_named = contains(
                    v, lambda x: (kind(x) == 'sub' and x[2] == iface) or
                    (kind(x) == 'call' and kind(x[2]) == 'attr' and
                     x[2][2] == 'get' and x[3] and x[3][0] == iface))
                ctx.ob(rule, qn, 'named-interface-only', from_named,
                       'the lookup was given an interface name but on this '
                       'path answers with %s, an entry that is not the one '
                       'of that interface: a member of the same name on '
                       'ANOTHER interface is bound and run instead'
                       % term_str(v)[:70])
    if m == 0:
        ctx.ob(rule, qn, 'named-interface-only', False,
               'no path of %s looks the member up under the given '
               'interface name' % qn)


def _all_body_paths(ev):
    for bp in ev[4]:
        yield bp, ev
        for e2 in bp.trace:
            if e2[0] == 'loop':
                for x in _all_body_paths(e2):
                    yield x


def binding_rules(ctx):
    prog = ctx.prog
    lookup_continues(ctx, 'C10.D6', 'objects.DBusObject._searchCache', 3)
    fi = prog.func('objects.DBusObject.executeMethod')
    ps = fi.params()
    mname, margs, sender = ('param', ps[2]), ('param', ps[3]), \
        ('param', ps[4])
    it = Interp(prog, exc_edges=False)
    n = 0
    for p in it.run(fi):
        if p.outcome == 'raise':
            ok = kind(p.value) in ('builtin', 'call') and \
                'NotImplementedError' in term_str(p.value)
            ctx.ob('C10.D6', fi.qualname, 'unbound-raises-NotImplemented',
                   ok, 'an unbound member must raise NotImplementedError '
                   '(turned into an error reply by the dispatcher)',
                   nontrivial=False)
            continue
        if p.outcome != 'return':
            ctx.ob('C10.D6', fi.qualname, 'returns-result', False,
                   'executeMethod must return the implementation\'s result')
            continue
        v = p.value
        n += 1
        inv = [c for c in p.calls() if kind(v) == 'call' and c[2] == v[2]]
        okc = kind(v) == 'call' and len(inv) == 1
        # implementation term: getattr(self, 'dbus_' + name) or decorated
        m = v[2] if kind(v) == 'call' else None
        src_ok = m is not None and (
            (kind(m) == 'call' and m[1] == 'getattr' and len(m[3]) >= 2 and
             m[3][1] == ('binop', '+', C('dbus_'), mname)) or
            (kind(m) == 'call' and (m[1] or '').endswith(
                '._getDecoratedMethod') and len(m[3]) == 2 and
             m[3][1] == mname and kind(m[3][0]) == 'attr' and
             m[3][0][2] == 'name'))
        ctx.ob('C10.D6', fi.qualname, 'invokes-bound-implementation',
               okc and src_ok, 'the value returned must be one invocation '
               'of dbus_<member> or of the decorated method bound to '
               '(interface, member); returns %s' % term_str(v)[:100])
        if not (okc and src_ok):
            continue
        args, kw = v[3], {}
        for k_, v_ in v[4]:
            # **{...} with constant keys is the same as the keywords
            if k_ == '**' and kind(v_) == 'dict' and \
                    all(is_const(a) for a, _ in v_[1]):
                kw.update({a[1]: b for a, b in v_[1]})
            else:
                kw[k_] = v_
        empty = (('tuple', ()), ('list', ()))
        ok = args == (('splice', margs),) or (
            args == () and margs in p.state.falsy) or (
                # *() on the path where there are no arguments
                len(args) == 1 and kind(args[0]) == 'splice' and
                args[0][1] in empty and margs in p.state.falsy) or (
                # *(args or ()): nothing when there are no arguments
                len(args) == 1 and kind(args[0]) == 'splice' and
                kind(args[0][1]) == 'boolop' and args[0][1][1] == 'or' and
                args[0][1][2][0] == margs and
                args[0][1][2][1:] in ((empty[0],), (empty[1],)))
        ctx.ob('C10.D6', fi.qualname, 'passes-decoded-arguments', ok,
               'the implementation must receive exactly the decoded '
               'arguments; receives %s' % [term_str(a)[:40] for a in args])
        wants = ('attr', m, '_dbusCaller')
        w = True if wants in p.state.truthy else (
            False if wants in p.state.falsy else None)
        ok = (w is True and kw == {'dbusCaller': sender}) or \
            (w is False and kw == {})
        ctx.ob('C10.D6', fi.qualname, 'caller-iff-asked', ok,
               'dbusCaller=<sender> must be passed exactly when the '
               'implementation asks for it (_dbusCaller); keywords %s on a '
               'path where _dbusCaller is %s' % (sorted(kw), w))
    if n < 4:
        raise AnalysisError('executeMethod: only %d invoking path(s)' % n)
