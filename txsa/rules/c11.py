"""C11 - a call through a proxy reaches the remote method (NARROW): call
conformance on every resolved call edge of the package (in particular the
anchored client -> bus -> client chain), proxy binding roles, both proxy
acquisition paths."""
import ast

from .. import callgraph as CG
from ..loader import AnalysisError
from ..sym import (C, NONE, Interp, State, contains, is_const, iter_events,
                   kind, term_str, walk_term)

META = {
    'level': 'other',
    'rule_text': 'Instances: every resolved call edge of the package (direct, '
                 'dotted, self-, constructor, nested-function and typed-'
                 'receiver calls) for arity/keyword conformance; the binding '
                 'roles of the one proxy call site; the proxy constructions '
                 'of getRemoteObject.',
    'explanation': 'End-to-end equality of a proxy call across processes is a '
                   'composition of C01-C04, C08, C10, C14 and C15 and is NOT '
                   'decided. Decided here are three obligations specific to '
                   'this property\'s anchors: every resolved call in the '
                   'package supplies its callee\'s required parameters and no '
                   'unknown keyword (this is what makes the forwarding chain '
                   'rawDBusMessageReceived -> parseMessage -> '
                   'Bus.messageReceived -> sendMessage executable at all); '
                   'the proxy passes the found method\'s input signature as '
                   'call signature, its output signature as expected return '
                   'signature, the owning interface\'s name, the proxy\'s bus '
                   'name and path, after the argument-count test; both ways '
                   'of obtaining a proxy hand it DBusInterface objects.',
    'trusted_base': ['CPython ast', 'txsa.callgraph resolution (names, '
                     'dotted module attributes, self-calls through the MRO, '
                     'constructors, receivers typed by self.X = Cls(...) and '
                     'constructor-argument typing)'],
    'assumptions': ['unresolved calls (framework objects) are not checked'],
    'decided': ['D1 call conformance on all resolved edges (arity, keywords, and name/role agreement of positional arguments)',
                'D2 proxy binding roles', 'D3 both acquisition paths; introspection parse state is per '
                'parse; an explicitly supplied interface instance is used as '
                'given',
                'D4 the links of the call chain: the clauses of C08 '
                '(pending-call bookkeeping, reply-value convention), C10 '
                '(one addressed reply, binding, reply packaging) and C14 '
                '(true sender, unicast delivery) that a proxy call passes '
                'through, re-reported here'],
    'undecided': ['end-to-end equality of arguments and results across '
                  'processes and delivery orders (composition of other '
                  'properties)'],
}

CHAIN = [
    ('objects.RemoteDBusObject.callRemote',
     'client.DBusClientConnection.callRemote'),
    ('client.DBusClientConnection.callRemote',
     'message.MethodCallMessage.__init__'),
    ('client.DBusClientConnection.callRemote',
     'client.DBusClientConnection.callRemoteMessage'),
    ('client.DBusClientConnection.callRemoteMessage',
     'protocol.BasicDBusProtocol.sendMessage'),
    ('bus.BusProtocol.rawDBusMessageReceived', 'message.parseMessage'),
    ('bus.BusProtocol.rawDBusMessageReceived', 'bus.Bus.messageReceived'),
    ('bus.Bus.messageReceived', 'bus.Bus.sendMessage'),
    ('protocol.BasicDBusProtocol.rawDBusMessageReceived',
     'message.parseMessage'),
]


def conformance_rules(ctx, rule, only_modules=None, chain=CHAIN):
    prog = ctx.prog
    tenv = CG.TypeEnv(prog)
    seen_edges = set()
    n = 0
    for fi in prog.all_funcs.values():
        if only_modules and fi.module.name not in only_modules:
            continue
        subs = prog.subclasses(fi.cls) if fi.cls else None
        sites = CG.edges_from(prog, fi, self_classes=subs) + \
            CG.typed_edges(prog, tenv, fi)
        for cs in sites:
            if cs.how.startswith('table'):
                continue
            for t in cs.targets:
                n += 1
                seen_edges.add((fi.qualname, t.qualname))
                msg = CG.conformance(t, cs.node, cs.how)
                ctx.ob(rule, fi.qualname, 'call:%s' % t.qualname.split(
                    '.', 1)[1], msg is None,
                    'the call %s at %s does not fit %s(%s): %s - it raises '
                    'TypeError whenever it is reached' % (
                        ast.unparse(cs.node)[:60], cs.where(), t.qualname,
                        ', '.join(t.params()), msg),
                    nontrivial=(fi.qualname, t.qualname) in chain,
                    loc=cs.where())
                # name/role agreement: a positional argument that is a plain
                # variable named like one of the callee's parameters must be
                # bound to THAT parameter (a parameter inserted before it,
                # or two swapped arguments, binds it to another role)
                pos = CG.positional_params(t, cs.how)
                for i, a in enumerate(cs.node.args):
                    if isinstance(a, ast.Starred):
                        break
                    if isinstance(a, ast.Name) and a.id in pos and \
                            i < len(pos):
                        ctx.ob(rule, fi.qualname, 'role:%s(%s)' % (
                            t.qualname.split('.', 1)[1], a.id),
                            pos[i] == a.id,
                            'the call %s at %s passes the variable %r '
                            'positionally into the parameter %r of %s(%s), '
                            'which also has a parameter named %r: the value '
                            'reaches the wrong role' % (
                                ast.unparse(cs.node)[:60], cs.where(), a.id,
                                pos[i], t.qualname, ', '.join(pos), a.id),
                            nontrivial=(fi.qualname, t.qualname) in chain,
                            loc=cs.where())
    # a helper the rules do not know by name (extracted by a refactoring)
    # is transparent: an edge into it continues with its own edges
    known = prog.known_funcs()
    if known is not None:
        grew = True
        while grew:
            grew = False
            for (a, h) in list(seen_edges):
                if h in known:
                    continue
                for (h2, b) in list(seen_edges):
                    if h2 == h and (a, b) not in seen_edges:
                        seen_edges.add((a, b))
                        grew = True
    for a, b in chain:
        ctx.ob(rule, a, 'chain-edge:%s' % b.split('.', 1)[1],
               (a, b) in seen_edges,
               'the forwarding chain needs a resolved call from %s to %s; '
               'none was found' % (a, b))
    return n


def run(ctx):
    prog = ctx.prog
    n = conformance_rules(ctx, 'C11.D1')
    ctx.extra['resolved_call_edges'] = n
    # D2 proxy binding roles -------------------------------------------------------
    fi = prog.func('objects.RemoteDBusObject.callRemote')
    selft = ('param', 'self')
    mname = ('param', fi.params()[1])
    args = ('param', '*' + fi.node.args.vararg.arg) if fi.node.args.vararg \
        else None
    n_call = 0
    for p in Interp(prog, exc_edges=False).run(fi):
        if p.outcome != 'return':
            continue
        v = p.value
        if not (kind(v) == 'call' and (
                (kind(v[2]) == 'attr' and v[2][2] == 'callRemote') or
                (v[1] or '').endswith('.callRemote'))):
            ctx.ob('C11.D2', fi.qualname, 'returns-connection-call', False,
                   'a proxy call must return conn.callRemote(...)')
            continue
        n_call += 1
        kw = dict(v[4])
        pos = v[3]
        # the found method m and its interface i
        m = None
        for c, pol in p.cond:
            if kind(c) == 'cmp' and c[3] == NONE and c[1] == 'is' and \
                    not pol and contains(c[2], lambda x: kind(x) == 'call'
                                         and kind(x[2]) == 'attr' and
                                         x[2][2] == 'get' and x[3] and
                                         x[3][0] == mname):
                m = c[2]
        if m is None:
            for c, pol in p.cond:
                if pol and kind(c) == 'call' and kind(c[2]) == 'attr' and \
                        c[2][2] == 'get' and c[3] and c[3][0] == mname:
                    m = c
        if m is None and any(
                kind(c) == 'cmp' and kind(c[2]) == 'loopout'
                for c, pol in p.cond):
            # the lookup loop ran to its end without `break`: the method
            # variable then holds the last (falsy) lookup result; the
            # analyser cannot see that, the path is infeasible
            continue
        if m is None:
            ctx.ob('C11.D2', fi.qualname, 'method-found', False,
                   'the call is issued on a path that did not establish that '
                   'the method exists on an interface of the proxy')
            continue
        iface = m[2][1][1] if kind(m[2][1]) == 'attr' else None  # i.methods
        roles = {
            'signature': kw.get('signature') == ('attr', m, 'sigIn'),
            'returnSignature': kw.get('returnSignature') == (
                'attr', m, 'sigOut'),
            'interface': iface is not None and kw.get('interface') == (
                'attr', iface, 'name'),
            'destination': kw.get('destination') == ('attr', selft,
                                                     'busName'),
            'path': len(pos) >= 1 and pos[0] == ('attr', selft,
                                                 'objectPath'),
            'member': len(pos) >= 2 and pos[1] == mname,
            'body': kw.get('body') == args,
        }
        for role, ok in roles.items():
            ctx.ob('C11.D2', fi.qualname, 'role:%s' % role, ok,
                   'the proxy must pass %s' % {
                       'signature': 'the method\'s input signature (sigIn) '
                       'as call signature',
                       'returnSignature': 'the method\'s output signature '
                       '(sigOut) as expected return signature',
                       'interface': 'the name of the interface that owns '
                       'the method',
                       'destination': 'its own bus name as destination',
                       'path': 'its own object path',
                       'member': 'the requested method name',
                       'body': 'the positional arguments as body'}[role])
        okn = any(kind(c) == 'cmp' and c[1] in ('!=', '==') and
                  ((c[1] == '==') == pol) and
                  contains(c, lambda x: kind(x) == 'attr' and
                           x[2] == 'nargs') for c, pol in p.cond)
        ctx.ob('C11.D2', fi.qualname, 'argument-count-checked', okn,
               'the number of arguments must have been compared with the '
               'method\'s nargs before the call is sent')
    if n_call == 0:
        raise AnalysisError('RemoteDBusObject.callRemote issues no call')
    # D3 acquisition paths ----------------------------------------------------------
    gr = prog.func('objects.DBusObjectHandler.getRemoteObject')
    n_px = 0
    for f2 in [gr] + list(gr.nested.values()):
        for p in Interp(prog, exc_edges=False).run(f2):
            for c in p.calls():
                cands = [c] + [t for t in walk_term(c) if kind(t) == 'call']
                for t in cands:
                    if t[1] != 'objects.RemoteDBusObject' or len(t[3]) < 4:
                        continue
                    n_px += 1
                    il = t[3][3]
                    if kind(il) == 'param' or kind(il) == 'free':
                        # list handed over by introspection
                        ok = f2 is not gr
                        how = 'introspected list'
                    else:
                        ok = _list_of_interfaces(il) and \
                            _appends_are_interfaces(p)
                        how = term_str(il)[:60]
                    ctx.ob('C11.D3', f2.qualname, 'proxy-gets-interfaces',
                           ok, 'the proxy must be built with a list of '
                           'DBusInterface objects; gets %s' % how)
    if n_px < 2:
        raise AnalysisError('getRemoteObject: expected two proxy '
                            'constructions, found %d' % n_px)
    gx = prog.func('introspection.getInterfacesFromXML')
    okr = False
    for p in Interp(prog, exc_edges=False).run(gx):
        if p.outcome == 'return' and kind(p.value) == 'attr' and \
                p.value[2] == 'interfaces':
            okr = True
    ctx.ob('C11.D3', gx.qualname, 'returns-interface-list', okr,
           'getInterfacesFromXML must return the handler\'s interface list')
    composition(ctx)
    explicit_interfaces_as_given(ctx)
    from .c09 import per_instance_registries
    per_instance_registries(
        ctx, 'C11.D3', ('introspection', 'interface', 'objects'),
        'every introspected proxy is built from the interfaces of ALL '
        'objects introspected so far, so a method name resolves to another '
        'object\'s interface')
    ctx.floor('C11.D4', 60)
    ctx.floor('C11.D1', 150)
    ctx.floor('C11.D2', 7)
    ctx.floor('C11.D3', 3)


def _list_of_interfaces(il):
    """ifl: appended DBusInterface instances or knownInterfaces[name]."""
    if kind(il) != 'list':
        return False
    for x in il[1]:
        if kind(x) == 'starseq':
            for seq in x[2]:
                for y in seq:
                    v = y[1] if kind(y) == 'item' else None
                    if v is None:
                        return False
                    ok = kind(v) == 'elem' or (
                        kind(v) == 'sub' and contains(
                            v[1], lambda z: kind(z) == 'attr' and
                            z[2] == 'knownInterfaces')) or _known_get(v)
                    if not ok:
                        return False
        elif kind(x) not in ('item',):
            return False
    return True


def _known_get(v):
    return kind(v) == 'call' and kind(v[2]) == 'attr' and \
        v[2][2] == 'get' and v[3] and contains(
            v[2][1], lambda z: kind(z) == 'attr' and
            z[2] == 'knownInterfaces')


def _appends_are_interfaces(p):
    """Every append in the loops of this path adds a DBusInterface: the
    element itself under isinstance(elem, DBusInterface), or the known
    interface looked up by name."""
    for ev in p.trace:
        if ev[0] != 'loop':
            continue
        for bp in ev[4]:
            for e in bp.trace:
                if e[0] != 'mutate' or e[2] != 'append':
                    continue
                v = e[3][0]
                if kind(v) == 'elem':
                    ok = any(kind(c) == 'call' and c[1] == 'isinstance' and
                             pol and c[3][0] == v and
                             kind(c[3][1]) == 'class' and
                             c[3][1][1].endswith('DBusInterface')
                             for c, pol in bp.cond)
                elif kind(v) == 'sub':
                    ok = contains(v[1], lambda z: kind(z) == 'attr' and
                                  z[2] == 'knownInterfaces')
                elif _known_get(v):
                    # knownInterfaces.get(name, default), appended on the
                    # branch where the result is not the default
                    dflt = v[3][1] if len(v[3]) > 1 else NONE
                    ok = any(kind(c) == 'cmp' and c[2] == v and
                             c[3] == dflt and c[1] in ('is', 'is not') and
                             ((c[1] == 'is not') == pol)
                             for c, pol in bp.cond) or (
                        dflt == NONE and any(c == v and pol
                                             for c, pol in bp.cond))
                else:
                    ok = False
                if not ok:
                    return False
    return True


COMPOSE = {
    'c08': ('C08.D2', 'C08.D3', 'C08.D4', 'C08.D5', 'C08.D7'),
    'c10': ('C10.D1', 'C10.D2', 'C10.D3', 'C10.D6', 'C10.D7'),
    'c14': ('C14.D3', 'C14.D4'),
}


def explicit_interfaces_as_given(ctx):
    """A proxy built from an explicitly supplied DBusInterface INSTANCE
    must use that instance: its declarations are what the caller checked
    its calls against.  Looking the name up in the process-wide cache
    instead hands the proxy whatever definition was registered last under
    that name."""
    prog = ctx.prog
    fi = prog.func('objects.DBusObjectHandler.getRemoteObject')
    n = 0
    seen = set()
    for p in Interp(prog, exc_edges=False).run(fi):
        for ev in p.trace:
            if ev[0] != 'loop' or ev[1] in seen:
                continue
            seen.add(ev[1])
            for bp in ev[4]:
                inst = [c[3][0] for c, pol in bp.cond
                        if kind(c) == 'call' and c[1] == 'isinstance' and pol
                        and len(c[3]) == 2 and
                        c[3][1] == ('class', 'interface.DBusInterface')]
                if not inst:
                    continue
                elem = inst[0]
                apps = [e for e in bp.trace if e[0] == 'mutate' and
                        e[2] == 'append']
                n += 1
                ok = len(apps) == 1 and apps[0][3] == (elem,)
                ctx.ob('C11.D3', fi.qualname, 'explicit-instance-as-given',
                       ok, 'an interface passed as a DBusInterface instance '
                       'must be handed to the proxy as it is; this path '
                       'appends %s' % ([term_str(a[3][0])[:60] for a in apps]
                                       or 'nothing'))
    if n == 0:
        ctx.ob('C11.D3', fi.qualname, 'explicit-instance-as-given', False,
               'getRemoteObject no longer distinguishes interface instances')


class _Compose:
    """Run another property's rules and re-report the selected clauses under
    C11.D4 (the slot keeps the original rule id)."""

    def __init__(self, ctx, wanted):
        self.ctx = ctx
        self.prog = ctx.prog
        self.wanted = wanted
        self.extra = {}
        self.tier = ctx.tier

    def ob(self, rule, where, slot, ok, msg, detail=None, nontrivial=True,
           loc=None):
        if rule in self.wanted:
            self.ctx.ob('C11.D4', where, '%s:%s' % (rule, slot), ok,
                        '[link of the proxy call chain, %s] %s' % (rule, msg),
                        detail, nontrivial, loc)
        return ok

    def floor(self, *a):
        pass

    def advisory(self, *a):
        pass


def composition(ctx):
    import importlib
    for modname, wanted in COMPOSE.items():
        mod = importlib.import_module('txsa.rules.' + modname)
        mod.run(_Compose(ctx, set(wanted)))
