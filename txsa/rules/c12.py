"""C12 - a signal reaches exactly the callbacks whose match rule it satisfies:
constraint coverage, domain agreement, separator-aware prefix tests, missing
arguments, isolation/removal, rule text vs local rule, signature-guarded proxy
subscription."""
import ast
import itertools

from .. import callgraph as CG
from ..loader import AnalysisError
from ..sym import (C, NONE, Interp, State, contains, is_const, iter_events,
                   try_py,
                   kind, subst_fold, term_str, truth, walk_term)

R = 'router.Rule'
MR = 'router.MessageRouter'

META = {
    'level': 'other',
    'rule_text': 'Instances: one per constraint key the property names '
                 '(coverage, domain); one per prefix test between '
                 'path-valued operands; the 32 assignments of the '
                 'argument-path atoms; every path of Rule.match that reaches '
                 'the callback; the rule-text and wrapper obligations.',
    'explanation': 'Structural necessary conditions of "exactly the matching '
                   'callbacks", extracted from router.py / client.py / '
                   'objects.py / bus.py: every constraint a rule can carry '
                   'is stored under a key that Rule.match evaluates, in the '
                   'domain of the message attribute it is compared with; '
                   'hierarchical (object path) prefix tests are '
                   'separator-aware; the argument-path test equals the '
                   'specification\'s three-way rule on all 32 assignments of '
                   'its atoms (decision table by path enumeration); a rule '
                   'with argument constraints never matches a message '
                   'without (enough) arguments; a raising callback is '
                   'contained; delMatch removes from the table that is '
                   'iterated; the rule text sent to the daemon names the same '
                   'constraints as the local rule; a proxy subscription '
                   'invokes the callback only under the declared signature. '
                   'Equivalence with a reference matcher over generated '
                   'messages and add/remove histories is NOT decided.',
    'trusted_base': ['D-Bus specification, Match Rules (txsa/spec.py A.7)',
                     'txsa.sym interpreter', 'CPython ast'],
    'assumptions': ['callbacks run to completion (reactor)'],
    'decided': ['D1 constraint coverage', 'D2 domain agreement',
                'D3 separator-aware hierarchical tests / argument-path rule',
                'D4 missing arguments never match', 'D5 isolation and '
                'removal (client router; daemon RemoveMatch accounting); matching does not modify the rule; a rule is filed only when complete, under an id that is never reused; cancelSignalNotification forgets the id at once', 'D6 rule text agrees with the local rule',
                'D7 proxy subscription guarded by the signature'],
    'undecided': ['matcher == reference matcher on generated pairs',
                  'add/remove histories'],
}

# constraint (addMatch parameter) -> message attribute it constrains
CONSTRAINTS = {
    'mtype': '_messageType', 'interface': 'interface', 'member': 'member',
    'path': 'path', 'destination': 'destination',
    'path_namespace': 'path', 'args': 'body', 'arg_paths': 'body',
}


def run(ctx):
    prog = ctx.prog
    add_fi = prog.func(MR + '.addMatch')
    radd = prog.func(R + '.add')
    match = prog.func(R + '.match')
    selft = ('param', 'self')
    msg = ('param', match.params()[1])
    # --- what addMatch stores ---------------------------------------------------
    stored = {}      # param -> (key, value term)
    it = Interp(prog, exc_edges=False)
    for p in it.run(add_fi):
        for c in p.calls():
            if c[1] == radd.qualname and len(c[3]) == 2 and is_const(c[3][0]):
                for prm in add_fi.params()[2:]:
                    if contains(c[3][1], lambda x: x == ('param', prm)):
                        stored[prm] = (c[3][0][1], c[3][1])
    # --- how Rule.add files a key ------------------------------------------------
    simple_keys = None
    for p in Interp(prog, exc_edges=False).run(radd):
        # the keys filed in `simple` are the ones on the path that appends
        # there (either spelling: `if key in T: append` / `if key not in T:
        # setattr; return`)
        files = any(kind(c[2]) == 'attr' and c[2][2] == 'append' and
                    c[2][1] == ('attr', selft, 'simple') for c in p.calls())
        for c, pol in p.cond:
            if kind(c) == 'cmp' and c[1] in ('in', 'not in') and c[2] == (
                    'param', radd.params()[1]):
                from ..sym import try_py
                ok, v = try_py(c[3])
                member = pol if c[1] == 'in' else not pol
                if ok and files and member:
                    simple_keys = set(v)
                elif ok and files and simple_keys is None:
                    simple_keys = set()     # filed there: every OTHER key
    if simple_keys is None:
        raise AnalysisError('Rule.add: cannot find the tuple of generically '
                            'compared keys')
    # --- what Rule.match evaluates -------------------------------------------------
    mit = Interp(prog, exc_edges=True)
    mpaths = mit.run(match)
    has_keys = set()
    generic = False
    for p in mpaths:
        for c in list(p.calls()) + [c_ for c_, _pol in p.cond
                                    if kind(c_) == 'call']:
            if c[1] == 'hasattr' and len(c[3]) == 2 and c[3][0] == selft \
                    and is_const(c[3][1]):
                has_keys.add(c[3][1][1])
        for ev in p.trace:
            if ev[0] == 'loop' and ev[3] == ('attr', selft, 'simple'):
                for bp in ev[4]:
                    for c, pol in bp.cond:
                        if kind(c) == 'cmp' and c[1] in ('!=', '==') and \
                                contains(c, lambda x: kind(x) == 'call' and
                                         x[1] == 'getattr' and
                                         x[3][0] == msg):
                            generic = True
    ctx.extra['stored_keys'] = {k: v[0] for k, v in stored.items()}
    ctx.extra['generic_keys'] = sorted(simple_keys)
    ctx.extra['dedicated_keys'] = sorted(has_keys)
    ctx.ob('C12.D1', match.qualname, 'generic-comparison', generic,
           'Rule.match must compare every (attribute, value) pair of '
           '`simple` with the message attribute')
    for prm, attr in CONSTRAINTS.items():
        if prm not in stored:
            ctx.ob('C12.D1', add_fi.qualname, 'stored:%s' % prm, False,
                   'the %s constraint of a match rule is never stored' % prm)
            continue
        key, val = stored[prm]
        evaluated = (key in simple_keys) or (key in has_keys)
        ctx.ob('C12.D1', add_fi.qualname, 'evaluated:%s' % prm, evaluated,
               'the %s constraint is stored under key %r, which Rule.match '
               'never evaluates (generic keys %s, dedicated keys %s): the '
               'constraint is silently ignored' % (
                   prm, key, sorted(simple_keys), sorted(has_keys)))
        if key in simple_keys:
            ok = key == attr
            ctx.ob('C12.D2', add_fi.qualname, 'attribute:%s' % prm, ok,
                   'the %s constraint is compared with message attribute '
                   '%r; it constrains %r' % (prm, key, attr))
            if prm == 'mtype':
                conv = kind(val) == 'sub' and kind(val[1]) in ('dict',
                                                               'global')
                ok = conv
                if conv and kind(val[1]) == 'dict':
                    from ..sym import try_py
                    okp, tbl = try_py(val[1])
                    ok = okp and tbl == {'method_call': 1, 'method_return': 2,
                                         'error': 3, 'signal': 4}
                ctx.ob('C12.D2', add_fi.qualname, 'domain:mtype', ok,
                       'the type constraint is given as a name ("signal") '
                       'but messages carry the numeric _messageType: the '
                       'stored value must go through the name->number table; '
                       'stored value is %s' % term_str(val)[:60])
    # advisories: keys stored but never evaluated that the property does not name
    for prm in ('sender', 'arg0namespace'):
        if prm in stored and stored[prm][0] not in simple_keys | has_keys:
            ctx.advisory('match-rule key %r is accepted but never evaluated '
                         '(the property does not name it)' % prm)
    prefix_rules(ctx, 'C12.D3', [match])
    namespace_table(ctx, match, mpaths, msg, selft)
    argpath_table(ctx, match, mpaths, msg, selft)
    missing_args(ctx, match, mpaths, msg, selft)
    isolation(ctx, match, mpaths)
    rule_text(ctx)
    proxy_wrapper(ctx)
    ctx.floor('C12.D1', 8)
    ctx.floor('C12.D2', 4)
    ctx.floor('C12.D3', 3)
    ctx.floor('C12.D4', 2)
    ctx.floor('C12.D5', 3)
    ctx.floor('C12.D6', 4)
    ctx.floor('C12.D7', 2)


# ---------------------------------------------------------------------------

def _pathlike(t):
    """Is the term (evidently) an object path?"""
    s = term_str(t).lower()
    return 'path' in s or 'namespace' in s


def slash_terminated(y, cond, truthy):
    """Y ends with '/' (by construction or by a test on this path)."""
    if is_const(y) and isinstance(y[1], str):
        return y[1].endswith('/')
    if kind(y) == 'binop' and y[1] == '+' and is_const(y[3]) and \
            isinstance(y[3][1], str) and y[3][1].endswith('/'):
        return True
    for c, pol in cond:
        if kind(c) == 'call' and kind(c[2]) == 'attr' and \
                c[2][2] == 'endswith' and c[2][1] == y and \
                c[3] == (C('/'),) and pol:
            return True
    return False


def prefix_rules(ctx, rule, funcs, only_pathlike=True):
    """Every X.startswith(Y) between path-valued operands must be against a
    '/'-terminated prefix."""
    prog = ctx.prog
    n = 0
    for fi in funcs:
        # fork on and/or also where they are computed as VALUES (a helper
        # returning `a == v or (v.endswith('/') and a.startswith(v))`): the
        # later operands are then seen under the assumptions that guard them
        it = Interp(prog, exc_edges=False, fork_boolop=True)
        seen = set()
        for p in it.run(fi):
            for trace, cond, st in _segments(p):
                for ev in trace:
                    terms = []
                    if ev[0] == 'call':
                        terms.append(ev[1])
                    for c, pol in cond:
                        terms.extend(t for t in walk_term(c)
                                     if kind(t) == 'call')
                    for c in terms:
                        if kind(c) == 'call' and kind(c[2]) == 'attr' and \
                                c[2][2] == 'startswith' and len(c[3]) == 1:
                            x, y = c[2][1], c[3][0]
                            if only_pathlike and not (_pathlike(x) or
                                                      _pathlike(y)):
                                continue
                            key = (c[5],)
                            ok = slash_terminated(y, cond, st.truthy)
                            if (key, ok) in seen:
                                continue
                            seen.add((key, ok))
                            n += 1
                            ctx.ob(rule, fi.qualname, 'separator-aware:%s'
                                   % _short(y), ok,
                                   'object paths are hierarchical: %s'
                                   '.startswith(%s) also accepts a sibling '
                                   'that merely shares the textual prefix '
                                   '(/a/bc under /a/b); the prefix must end '
                                   'with "/" (or be compared for equality '
                                   'separately)' % (term_str(x)[:50],
                                                    term_str(y)[:50]))
    return n


def _short(t):
    s = term_str(t)
    for w in ('path_namespace', 'objectPath', 'val', 'path'):
        if w in s:
            return w
    return s[:24]


def _segments(p):
    yield p.trace, p.cond, p.state
    for ev in p.trace:
        if ev[0] == 'loop':
            for bp in ev[4]:
                yield bp.trace, p.cond + bp.cond, bp.state
                for e2 in bp.trace:
                    if e2[0] == 'loop':
                        for bp2 in e2[4]:
                            yield bp2.trace, p.cond + bp.cond + bp2.cond, \
                                bp2.state


NS_SAMPLES = [
    # (message path, namespace, at-or-below?)
    ('/a/b', '/a/b', True), ('/a/b/c', '/a/b', True),
    ('/a/b/c/d', '/a/b', True), ('/a/bc', '/a/b', False),
    ('/a', '/a/b', False), ('/x', '/a/b', False), ('/', '/a/b', False),
    ('/a/b', '/', True), ('/', '/', True),
]


def namespace_table(ctx, match, mpaths, msg, selft):
    """The path_namespace test, evaluated by constant folding of the
    extracted guard on a fixed table of (path, namespace) pairs."""
    mpath = ('attr', msg, 'path')
    ns = ('attr', selft, 'path_namespace')
    relevant = [p for p in mpaths if not any(
        e[0] == 'exc-edge' for e in p.trace) and any(
        kind(c) == 'call' and c[1] == 'hasattr' and
        c[3] == (selft, C('path_namespace')) and pol for c, pol in p.cond)]
    if not relevant:
        ctx.ob('C12.D3', match.qualname, 'namespace-evaluated', False,
               'path_namespace constraints are never evaluated')
        return
    bad = None
    undecided = 0
    for path_v, ns_v, want in NS_SAMPLES:
        got = set()
        for p in relevant:
            feas = True
            for c, pol in p.cond:
                if not (contains(c, lambda x: x == mpath) or
                        contains(c, lambda x: x == ns)):
                    continue
                r = subst_fold(c, {mpath: C(path_v), ns: C(ns_v)})
                tv = truth(r)
                if tv is None:
                    feas = None
                    break
                if tv != pol:
                    feas = False
                    break
            if feas is None:
                undecided += 1
                continue
            if feas:
                # did this path survive the namespace test?  it did unless
                # it returns before any later constraint is looked at
                survived = any(kind(c[2]) == 'attr' and
                               c[2][2] == 'callback'
                               for c in p.calls(deep=False)) or any(
                    kind(c) == 'call' and c[1] == 'hasattr' and
                    c[3] == (selft, C('args')) for c, pol in p.cond)
                got.add(survived)
        if got and got != {want} and bad is None:
            bad = {'path': path_v, 'namespace': ns_v, 'expected': want,
                   'extracted': sorted(got)}
    if undecided and bad is None:
        raise AnalysisError('Rule.match: the path_namespace test does not '
                            'fold to a constant on the sample table')
    ctx.ob('C12.D3', match.qualname, 'namespace-at-or-below', bad is None,
           'path_namespace matches the namespace path itself and its '
           'descendants only; the extracted test disagrees for %s' % bad,
           bad)


def argpath_table(ctx, match, mpaths, msg, selft):
    """Decision table of the argument-path test over its five atoms."""
    loops = []
    for p in mpaths:
        for ev in p.trace:
            if ev[0] == 'loop' and ev[3] == ('attr', selft, 'arg_paths'):
                loops.append(ev)
    if not loops:
        ctx.ob('C12.D3', match.qualname, 'argpath-evaluated', False,
               'argument-path constraints are never evaluated')
        return
    ev = loops[0]
    elem = None
    body_paths = [bp for bp in ev[4] if not any(
        e[0] == 'exc-edge' for e in bp.trace)]
    # identify rule value / argument terms
    rulev = argv = None
    for bp in body_paths:
        for c, pol in bp.cond:
            for t in walk_term(c):
                if kind(t) == 'sub' and kind(t[1]) == 'attr' and \
                        t[1][2] == 'body':
                    argv = t
                if kind(t) == 'sub' and kind(t[1]) == 'elem' and \
                        t[2] == C(1):
                    rulev = t
    if rulev is None or argv is None:
        raise AnalysisError('Rule.match: cannot identify the rule value / '
                            'message argument in the argument-path loop')

    def atom_of(c):
        if kind(c) == 'cmp' and c[1] in ('==', '!=') and \
                {c[2], c[3]} == {rulev, argv}:
            return ('E', c[1] == '==')
        if kind(c) == 'call' and kind(c[2]) == 'attr' and len(c[3]) == 1:
            recv, meth, a = c[2][1], c[2][2], c[3][0]
            if meth == 'endswith' and a == C('/'):
                if recv == rulev:
                    return ('RS', True)
                if recv == argv:
                    return ('AS', True)
            if meth == 'startswith':
                if recv == argv and a == rulev:
                    return ('RpA', True)
                if recv == rulev and a == argv:
                    return ('ApR', True)
        return None

    def context_ok(c, pol):
        """non-atom tests: index in range, isinstance(str) - take the side
        on which the argument exists and is a string"""
        if kind(c) == 'cmp' and c[1] in ('>=', '<', '>', '<=') and \
                contains(c, lambda x: kind(x) in ('call', 'len') and
                         'len' in term_str(x)):
            in_range = {'>=': not pol, '>': not pol, '<': pol,
                        '<=': pol}[c[1]]
            return in_range
        if kind(c) == 'call' and c[1] == 'isinstance':
            return pol
        if kind(c) == 'cmp' and c[3] == NONE:
            return (c[1] == 'is not') == pol
        return None

    n_bad = 0
    n_undecided = 0
    first_bad = None
    for bits in itertools.product((False, True), repeat=5):
        asg = dict(zip(('E', 'RS', 'AS', 'RpA', 'ApR'), bits))
        # consistency of the atoms themselves
        if asg['E'] and not (asg['RpA'] and asg['ApR']):
            continue
        if asg['E'] and asg['RS'] != asg['AS']:
            continue
        if asg['RpA'] and asg['ApR'] and not asg['E']:
            continue
        want = asg['E'] or (asg['RS'] and asg['RpA']) or \
            (asg['AS'] and asg['ApR'])
        got = set()
        for bp in body_paths:
            feas = True
            for c, pol in bp.cond:
                a = atom_of(c)
                if a is not None:
                    name, positive = a
                    if (asg[name] == positive) != pol:
                        feas = False
                    continue
                cx = context_ok(c, pol)
                if cx is None:
                    feas = None
                    break
                if not cx:
                    feas = False
            if feas is None:
                n_undecided += 1
                continue
            if feas:
                got.add(bp.outcome == 'continue')
        if got and got != {want}:
            n_bad += 1
            if first_bad is None:
                first_bad = dict(asg, expected_match=want,
                                 extracted=sorted(got))
    if n_undecided:
        raise AnalysisError('Rule.match: the argument-path test uses a '
                            'condition outside the recognised atoms')
    ctx.ob('C12.D3', match.qualname, 'argpath-three-way-rule', n_bad == 0,
           'an argument-path constraint matches when the values are equal, '
           'or the rule value ends with "/" and is a prefix of the argument, '
           'or the argument ends with "/" and is a prefix of the rule value; '
           'the extracted test disagrees on %d of the consistent atom '
           'assignments, first: %s' % (n_bad, first_bad), first_bad)


def missing_args(ctx, match, mpaths, msg, selft):
    n = 0
    for key in ('args', 'arg_paths'):
        for p in mpaths:
            if any(e[0] == 'exc-edge' for e in p.trace):
                continue
            cb = [c for c in p.calls(deep=False)
                  if kind(c[2]) == 'attr' and c[2][2] == 'callback']
            if not cb:
                continue
            has = any(kind(c) == 'call' and c[1] == 'hasattr' and
                      c[3] == (selft, C(key)) and pol for c, pol in p.cond)
            if not has:
                continue
            n += 1
            looped = any(ev[0] == 'loop' and ev[3] == ('attr', selft, key)
                         for ev in p.trace)
            ctx.ob('C12.D4', match.qualname, 'no-body-no-match:%s' % key,
                   looped, 'a rule with %s constraints reaches its callback '
                   'on a path that never looked at the message arguments '
                   '(message without a body): a missing argument must not '
                   'match' % key,
                   {'path': [(term_str(c)[:60], pol)
                             for c, pol in p.cond[:8]]})
        # too short a body
        for p in mpaths:
            for ev in p.trace:
                if ev[0] == 'loop' and ev[3] == ('attr', selft, key):
                    short = [bp for bp in ev[4] if any(
                        kind(c) == 'cmp' and c[1] in ('>=', '<') and
                        ((c[1] == '>=') == pol) and 'len' in term_str(c)
                        for c, pol in bp.cond)]
                    if short:
                        # the iteration returns at once, or leaves the loop
                        # by `break` on a path that never reaches the
                        # callback (the any()/flag form)
                        lid = ev[1]

                        def ends_without_callback(bp):
                            if bp.outcome == 'return':
                                return True
                            if bp.outcome != 'break':
                                return False
                            outs = [q for q in mpaths if any(
                                e[0] == 'loop-iter' and e[1] == lid
                                for e in q.trace) and all(
                                    cp in q.cond for cp in bp.cond)]
                            return bool(outs) and not any(
                                kind(c[2]) == 'attr' and
                                c[2][2] == 'callback'
                                for q in outs for c in q.calls(deep=False))
                        ctx.ob('C12.D4', match.qualname, 'short-body-no-'
                               'match:%s' % key,
                               all(ends_without_callback(bp)
                                   for bp in short),
                               'an argument index beyond the body must not '
                               'match', nontrivial=False)
                    break
    if n == 0:
        ctx.ob('C12.D4', match.qualname, 'argument-constraints-evaluated',
               False, 'no path evaluates argument constraints before the '
               'callback')


def isolation(ctx, match, mpaths):
    prog = ctx.prog
    cb_paths = [p for p in mpaths if any(
        e[0] == 'exc-edge' and 'callback' in str(e[1]) for e in p.trace)]
    ok = bool(cb_paths) and all(p.outcome != 'raise' for p in cb_paths)
    ctx.ob('C12.D5', match.qualname, 'raising-callback-contained', ok,
           'an exception raised by one callback must not escape Rule.match '
           '(it would prevent the remaining callbacks from running)')
    dfi = prog.func(MR + '.delMatch')
    rfi = prog.func(MR + '.routeMessage')
    selft = ('param', 'self')
    table = ('attr', selft, '_rules')
    okd = False
    for p in Interp(prog, exc_edges=False).run(dfi):
        for e in p.trace:
            if e[0] == 'delsub' and e[1] == table and \
                    e[2] == ('param', dfi.params()[1]):
                okd = True
            if e[0] == 'call' and kind(e[1][2]) == 'attr' and \
                    e[1][2][1] == table and e[1][2][2] == 'pop':
                okd = True
    # matching is a pure test: a rule that rewrites its own constraints
    # while it looks at one message answers differently for the next
    writes = sorted({e[2] for p in mpaths for e in iter_events(p.trace)
                     if e[0] == 'setattr' and e[1] == ('param', 'self')} |
                    {term_str(e[1])[:40] for p in mpaths
                     for e in iter_events(p.trace)
                     if e[0] in ('setsub', 'delsub') and contains(
                         e[1], lambda x: x == ('param', 'self'))})
    # (an attribute no test of match() reads - a hit counter - cannot change
    # what a later signal matches)
    def _tested(w):
        at = ('attr', ('param', 'self'), w)
        return any(contains(c, lambda x: x == at)
                   for p in mpaths for c, _ in p.cond) or any(
            hasattr_c[3][1:] == (C(w),) for p in mpaths
            for hasattr_c, _ in p.cond
            if kind(hasattr_c) == 'call' and hasattr_c[1] in (
                'hasattr', 'getattr') and len(hasattr_c[3]) >= 2)
    writes = [w for w in writes if '.' in w or '[' in w or _tested(w)]
    ctx.ob('C12.D5', match.qualname, 'match-does-not-modify-the-rule',
           not writes, 'Rule.match writes %s: whether a later signal '
           'matches then depends on which signals were examined before '
           '(order of delivery), not on the rule and the signal alone'
           % writes)
    ctx.ob('C12.D5', dfi.qualname, 'removes-from-iterated-table', okd,
           'delMatch must remove the rule from the table routeMessage '
           'iterates')
    okr = False
    skipped = []
    for p in Interp(prog, exc_edges=False).run(rfi):
        for ev in p.trace:
            if ev[0] == 'loop' and contains(ev[3], lambda x: x == table):
                for bp in ev[4]:
                    offered = False
                    for c in bp.calls():
                        if (c[1] or '').endswith('.match') or (
                                kind(c[2]) == 'attr' and
                                c[2][2] == 'match'):
                            offered = c[3] == (('param', rfi.params()[1]),)
                    okr = okr or offered
                    # every turn of the loop offers: no rule is skipped, and
                    # the loop is not left early, whatever the earlier rules
                    # (or this rule's callback) did with the message
                    # (a turn that found its rule no longer registered -
                    # a walk over a snapshot - rightly offers nothing)
                    gone = any(kind(c) == 'cmp' and c[1] in ('in', 'not in')
                               and contains(c[3], lambda x: x == table) and
                               (c[1] == 'not in') == pol
                               for c, pol in bp.cond)
                    if gone and not offered and bp.outcome not in (
                            'break', 'return', 'raise'):
                        continue
                    if not offered or bp.outcome in ('break', 'return',
                                                     'raise'):
                        skipped.append('%s under [%s]' % (
                            'leaves the loop (%s)' % bp.outcome
                            if offered else 'rule not offered the message',
                            '; '.join('%s is %s' % (term_str(c)[:50], pol)
                                      for c, pol in bp.cond[-2:])))
    # "once a rule is removed its callback is never invoked again": walking
    # the LIVE table never reaches a rule an earlier callback removed; a walk
    # over a snapshot of it (list(...), tuple(...), sorted(...), a
    # comprehension) does, unless each turn tests that the rule is still
    # registered
    def _live(t):
        return t == table or (
            kind(t) == 'call' and kind(t[2]) == 'attr' and t[2][1] == table
            and t[2][2] in ('values', 'items', 'keys') and not t[3])
    stale = []
    for p in Interp(prog, exc_edges=False).run(rfi):
        for ev in p.trace:
            if ev[0] == 'loop' and contains(ev[3], lambda x: x == table) \
                    and not _live(ev[3]):
                for bp in ev[4]:
                    offers = any((c[1] or '').endswith('.match') or (
                        kind(c[2]) == 'attr' and c[2][2] == 'match')
                        for c in bp.calls())
                    still = any(
                        pol and kind(c) == 'cmp' and c[1] == 'in' and
                        contains(c[3], lambda x: x == table)
                        for c, pol in bp.cond) or any(
                        kind(c) == 'cmp' and c[1] in ('is', '==') and pol and
                        contains(c, lambda x: kind(x) == 'call' and
                                 kind(x[2]) == 'attr' and x[2][1] == table
                                 and x[2][2] == 'get')
                        for c, pol in bp.cond)
                    if offers and not still:
                        stale.append(term_str(ev[3])[:60])
    ctx.ob('C12.D5', rfi.qualname, 'removed-rule-is-not-offered', not stale,
           'routeMessage walks a snapshot of the rule table (%s) and offers '
           'the message to each rule in it without testing that the rule is '
           'still registered: a rule that an earlier callback removed during '
           'this very dispatch gets the signal once more'
           % (stale[0] if stale else ''), nontrivial=bool(stale))
    ctx.ob('C12.D5', rfi.qualname, 'every-rule-sees-the-message',
           okr and not skipped,
           'routeMessage must offer the message to every registered rule'
           '%s' % (': ' + skipped[0] + ' - a signal is delivered once per '
                   'matching RULE, also when two rules share a callback'
                   if skipped else ''))
    afi = prog.func(MR + '.addMatch')
    oka = False
    for p in Interp(prog, exc_edges=False).run(afi):
        sets = [e for e in p.trace if e[0] == 'setsub' and e[1] == table]
        if len(sets) == 1 and p.outcome == 'return' and \
                p.value == sets[0][2]:
            oka = True
    ctx.ob('C12.D5', afi.qualname, 'returns-registration-key', oka,
           'addMatch must return the key under which the rule was stored')
    # ... and that key is never handed out twice: it comes from a counter
    # of the router that every registration advances (len(self._rules) or a
    # "first free slot" repeats an id after a removal - the holder of the
    # old id then removes, or is removed through, somebody else's rule)
    okk = False
    why = 'no registration found'
    for p in Interp(prog, exc_edges=False).run(afi):
        sets = [e for e in p.trace if e[0] == 'setsub' and e[1] == table]
        if len(sets) != 1:
            continue
        key = sets[0][2]
        if kind(key) == 'attr' and key[1] == selft:
            ctr = key[2]
            adv = [e for e in p.trace if e[0] == 'setattr' and
                   e[1] == selft and e[2] == ctr]
            okk = bool(adv) and all(
                kind(e[3]) == 'binop' and e[3][1] == '+' and
                e[3][2] == key and is_const(e[3][3]) and
                isinstance(e[3][3][1], int) and e[3][3][1] > 0 for e in adv)
            why = 'counter %s %s' % (ctr, 'advanced' if okk else
                                     'not advanced by a positive constant')
        else:
            okk = False
            why = 'the key is %s' % term_str(key)[:50]
        if not okk:
            break
    ctx.ob('C12.D5', afi.qualname, 'registration-key-never-reused', okk,
           'the id a rule is registered under must come from a counter of '
           'the router that each registration advances (%s): an id that can '
           'repeat after a removal lets one holder remove another\'s rule, '
           'and makes the bus\'s disconnect cleanup raise KeyError' % why)
    filed_when_complete(ctx, 'C12.D5')
    cancel_is_synchronous(ctx)
    removal_reaches_the_daemon(ctx)
    # the daemon-side user of the same router: RemoveMatch over all
    # add/remove histories (shared with C14.D5)
    bus = prog.cls('bus.Bus')
    rmf = prog.lookup_method(bus, 'dbus_RemoveMatch') if bus else None
    if rmf is not None:
        from .c14 import removematch_accounting
        removematch_accounting(ctx, rmf, 'C12.D5')


def filed_when_complete(ctx, rule_id):
    """A rule is entered into the table routeMessage iterates only once all
    its constraints are in place: adding a constraint can raise (an unknown
    message type is a KeyError), the caller is then told the rule was
    refused - and a rule filed before that point stays behind, without the
    constraints that were not reached: it matches everything, and nobody
    holds its id to remove it."""
    prog = ctx.prog
    afi = prog.func(MR + '.addMatch')
    table = ('attr', ('param', 'self'), '_rules')
    n = worst = 0
    for p in Interp(prog, exc_edges=False).run(afi):
        evs = list(iter_events(p.trace))
        stores = [i for i, e in enumerate(evs)
                  if e[0] == 'setsub' and e[1] == table]
        if not stores:
            continue
        n += 1
        later = [e for e in evs[stores[0] + 1:]
                 if (e[0] == 'call' and kind(e[1][2]) in ('attr', 'bound')
                     and str(e[1][2][2]).split('.')[-1] == 'add')]
        worst = max(worst, len(later))
    if n == 0:
        raise AnalysisError('addMatch never stores into the rule table')
    ctx.ob(rule_id, afi.qualname, 'filed-when-complete', worst == 0,
           'the rule is stored in the routing table before up to %d of its '
           'constraints are added: if adding one raises (unknown message '
           'type), a rule without them - matching everything - stays '
           'registered although the caller was told it failed' % worst)


def removal_reaches_the_daemon(ctx):
    """client.delMatch(id) asks the daemon to remove the rule on every path
    - unless the id is not registered, which only a membership test (or the
    lookup's `is None`) can tell: the rule TEXT of a registered catch-all
    rule is the empty string, and a truth test takes it for "unknown"."""
    prog = ctx.prog
    fi = prog.func('client.DBusClientConnection.delMatch')
    rid = ('param', fi.params()[1])
    n = 0
    for p in Interp(prog, exc_edges=False).run(fi):
        if p.outcome == 'raise':
            continue
        n += 1
        asked = any(C('RemoveMatch') in c[3] for c in p.calls())
        if asked:
            continue
        absent = any(
            (kind(c) == 'cmp' and c[1] in ('in', 'not in') and c[2] == rid
             and (c[1] == 'not in') == pol) or
            (kind(c) == 'cmp' and c[1] in ('is', 'is not') and c[3] == NONE
             and contains(c[2], lambda x: x == rid) and (c[1] == 'is') == pol)
            for c, pol in p.cond)
        ctx.ob('C12.D5', fi.qualname, 'removal-reaches-the-daemon', absent,
               'delMatch returns without asking the daemon for RemoveMatch '
               'on a path that has not established that the id is '
               'unregistered [%s]: a registered rule without constraints '
               '(text "") stays in force and its callback keeps firing'
               % '; '.join('%s is %s' % (term_str(c)[:60], pol)
                           for c, pol in p.cond[-2:]))
    if n == 0:
        raise AnalysisError('client.delMatch: no path')


def cancel_is_synchronous(ctx):
    """cancelSignalNotification is guarded by "is this id still mine": the
    id must leave the proxy's set in the same call that asks the daemon to
    remove the rule.  If it is removed only when the daemon's answer arrives,
    a second cancel in between sends a second RemoveMatch - which removes a
    rule of the same text that another callback still relies on."""
    prog = ctx.prog
    fi = prog.func('objects.RemoteDBusObject.cancelSignalNotification')
    n = 0
    for p in Interp(prog, exc_edges=False, inline=lambda q, d: False).run(fi):
        dels = [i for i, e in enumerate(p.trace) if e[0] == 'call' and
                kind(e[1][2]) == 'attr' and e[1][2][2] == 'delMatch']
        if not dels:
            continue
        n += 1
        removed = any(
            (e[0] == 'mutate' and e[2] in ('remove', 'discard', 'pop') and
             contains(e[1] if len(e) > 1 else (), lambda x: kind(x) == 'attr'
                      and x[2] == '_signalRules')) or
            (e[0] == 'call' and kind(e[1][2]) == 'attr' and
             e[1][2][2] in ('remove', 'discard', 'pop') and
             kind(e[1][2][1]) == 'attr' and
             e[1][2][1][2] == '_signalRules')
            for e in p.trace)
        ctx.ob('C12.D5', fi.qualname, 'cancel-forgets-at-once', removed,
               'cancelSignalNotification asks the daemon to remove the rule '
               'but keeps the id in _signalRules on this path (it is removed '
               'later, if at all): a repeated cancel sends RemoveMatch again '
               'and takes away a rule another subscription still uses')
    if n == 0:
        raise AnalysisError('cancelSignalNotification never calls delMatch')


def _formats_first_param(m, fname, depth):
    """Every value the module function returns is `<its first parameter> %
    (...)` - directly or through another such function."""
    f = m.funcs.get(fname)
    if f is None or depth > 3 or not f.params():
        return False
    p0 = f.params()[0]
    rets = [n.value for n in ast.walk(f.node)
            if isinstance(n, ast.Return) and n.value is not None]
    if not rets:
        return False
    for v in rets:
        if isinstance(v, ast.BinOp) and isinstance(v.op, ast.Mod) and \
                isinstance(v.left, ast.Name) and v.left.id == p0:
            continue
        if isinstance(v, ast.Call) and isinstance(v.func, ast.Name) and \
                v.args and isinstance(v.args[0], ast.Name) and \
                v.args[0].id == p0 and \
                _formats_first_param(m, v.func.id, depth + 1):
            continue
        return False
    return True


def _appended_items(prog, fi):
    """({parameter: key text}, {parameter: {key formats}}) read from the
    items appended on the paths of addMatch: an item is an f-string / a
    concatenation `<key> = ' <value> '`; the value is a parameter (text) or
    the second component of an element of a parameter (format)."""
    text, tmpl = {}, {}

    def item(v):
        parts = None
        if kind(v) == 'fstr':
            parts = list(v[1])
        elif kind(v) == 'binop' and v[1] == '+':
            parts = []

            def flat(t):
                if kind(t) == 'binop' and t[1] == '+':
                    flat(t[2])
                    flat(t[3])
                else:
                    parts.append(t)
            flat(v)
        if not parts or len(parts) < 3:
            return
        key, val = parts[0], parts[2]
        if not (is_const(parts[1]) and str(parts[1][1]).startswith('=')):
            return
        if kind(val) == 'param' and is_const(key):
            text.setdefault(val[1], key[1])
        elif kind(val) == 'sub' and kind(val[1]) == 'elem' and \
                kind(val[1][1]) == 'param':
            prm = val[1][1][1]
            if kind(key) == 'binop' and key[1] == '%' and is_const(key[2]):
                tmpl.setdefault(prm, set()).add(key[2][1])
            elif kind(key) == 'sub' and try_py(key[1])[0] and \
                    isinstance(try_py(key[1])[1], tuple) and \
                    try_py(key[1])[1]:
                # a precomputed table of the keys, indexed by the position:
                # the format every entry follows
                tab = try_py(key[1])[1]
                fmt = str(tab[0]).replace('0', '%d', 1)
                try:
                    good = all(t == fmt % (i,) for i, t in enumerate(tab))
                except (TypeError, ValueError):
                    good = False
                tmpl.setdefault(prm, set()).add(fmt if good else '?')
            elif kind(key) == 'fstr':
                tmpl.setdefault(prm, set()).add('?')
    try:
        paths = Interp(prog, exc_edges=False, max_paths=4000).run(fi)
    except AnalysisError:
        return text, tmpl
    # a closure `add(k, v)` that appends f"{k}='{v}'" is an item writer: a
    # call of it is the item (k, "='", v, "'")
    writers = set()
    for nm, sub in fi.nested.items():
        ps = sub.params()
        if len(ps) != 2:
            continue
        try:
            sp = Interp(prog, exc_edges=False).run(sub)
        except AnalysisError:
            continue
        for q in sp:
            for e in iter_events(q.trace, deep=True):
                v = None
                if e[0] == 'mutate' and e[2] == 'append' and e[3]:
                    v = e[3][0]
                elif e[0] == 'call' and kind(e[1][2]) == 'attr' and \
                        e[1][2][2] == 'append' and len(e[1][3]) == 1:
                    v = e[1][3][0]      # the list is a captured variable
                if v is not None:
                    parts = list(v[1]) if kind(v) == 'fstr' else []
                    if len(parts) >= 3 and parts[0] == ('param', ps[0]) and \
                            parts[2] == ('param', ps[1]):
                        writers.add(sub.qualname)

    def closure_call(e):
        if e[0] == 'call' and e[1][1] in writers and len(e[1][3]) == 2:
            item(('fstr', (e[1][3][0], C("='"), e[1][3][1], C("'"))))
    seen = set()
    for p in paths:
        for e in iter_events(p.trace, deep=True):
            closure_call(e)
            if e[0] == 'loop':
                for bp in e[4]:
                    for e2 in iter_events(bp.trace, deep=True):
                        closure_call(e2)
            if e[0] == 'mutate' and e[2] == 'append' and e[3] and \
                    id(e) not in seen:
                seen.add(id(e))
                item(e[3][0])
            if e[0] == 'loop':
                for bp in e[4]:
                    for e2 in iter_events(bp.trace, deep=True):
                        if e2[0] == 'mutate' and e2[2] == 'append' and e2[3]:
                            item(e2[3][0])
    return text, tmpl


def rule_text(ctx):
    prog = ctx.prog
    fi = prog.func('client.DBusClientConnection.addMatch')
    spec_keys = {'mtype': 'type', 'sender': 'sender',
                 'interface': 'interface', 'member': 'member',
                 'path': 'path', 'path_namespace': 'path_namespace',
                 'destination': 'destination',
                 'arg0namespace': 'arg0namespace'}
    text = {}
    from ..loader import nested_by_role as _nbr
    _add = _nbr(fi, 'add', ('called_with', 2))
    add_name = _add.node.name if _add is not None else 'add'
    for node in prog._iter_scope(fi.node):
        if isinstance(node, ast.Call) and isinstance(node.func, ast.Name) \
                and node.func.id == add_name and len(node.args) == 2 and \
                isinstance(node.args[1], ast.Name):
            k = node.args[0]
            if isinstance(k, ast.Constant):
                text[node.args[1].id] = k.value
        # the same calls written as a loop over a literal table of
        # (key, parameter) pairs
        if isinstance(node, ast.For) and isinstance(node.iter, ast.Tuple) \
                and isinstance(node.target, ast.Tuple) and \
                len(node.target.elts) == 2 and \
                all(isinstance(t, ast.Name) for t in node.target.elts):
            kn, vn = (t.id for t in node.target.elts)
            calls_add = any(
                isinstance(c, ast.Call) and isinstance(c.func, ast.Name)
                and c.func.id == add_name and len(c.args) == 2 and
                isinstance(c.args[0], ast.Name) and c.args[0].id == kn and
                isinstance(c.args[1], ast.Name) and c.args[1].id == vn
                for st in node.body for c in ast.walk(st))
            if calls_add and len(node.body) == 1:
                for e in node.iter.elts:
                    if isinstance(e, ast.Tuple) and len(e.elts) == 2 and \
                            isinstance(e.elts[0], ast.Constant) and \
                            isinstance(e.elts[1], ast.Name):
                        text[e.elts[1].id] = e.elts[0].value
    # ... or as rows ('key', parameter) of a table the text is built from
    for node in prog._iter_scope(fi.node):
        if isinstance(node, ast.Tuple) and len(node.elts) == 2 and \
                isinstance(node.elts[0], ast.Constant) and \
                isinstance(node.elts[0].value, str) and \
                '%' not in node.elts[0].value and \
                isinstance(node.elts[1], ast.Name):
            text.setdefault(node.elts[1].id, node.elts[0].value)
    # ... and, whatever the spelling (closure, module-level helper taking the
    # list, inline code), what the interpreter sees appended to the list the
    # text is joined from: items `<key>='<value>'`
    sem_text, sem_tmpl = _appended_items(prog, fi)
    for k_, v_ in sem_text.items():
        text.setdefault(k_, v_)
    for prm, key in spec_keys.items():
        ctx.ob('C12.D6', fi.qualname, 'text-key:%s' % prm,
               text.get(prm) == key,
               'the rule text must express the %s constraint as %r; it uses '
               '%r' % (prm, key, text.get(prm)))
    # arg / arg_path templates
    src = ast.unparse(fi.node)

    def key_template(param):
        """the format the (index, value) pairs of `param` are written
        with: from `for idx, v in <param>: add(<fmt> % (idx,), v)` or from a
        row (<fmt>, <param>) of a table that is looped over"""
        found = set()
        for node in prog._iter_scope(fi.node):
            if isinstance(node, ast.For) and (
                    (isinstance(node.iter, ast.Name) and
                     node.iter.id == param) or
                    # for idx, v in arg or (): / in (arg or [])
                    (isinstance(node.iter, ast.BoolOp) and
                     isinstance(node.iter.op, ast.Or) and
                     isinstance(node.iter.values[0], ast.Name) and
                     node.iter.values[0].id == param)):
                for n in ast.walk(node):
                    if isinstance(n, ast.BinOp) and \
                            isinstance(n.op, ast.Mod) and \
                            isinstance(n.left, ast.Constant) and \
                            isinstance(n.left.value, str):
                        found.add(n.left.value)
                    # the format handed to a module-level helper that
                    # applies it: _key('arg%d', idx) with `fmt % (idx,)`
                    if isinstance(n, ast.Call) and \
                            isinstance(n.func, ast.Name) and \
                            n.func.id in fi.module.funcs and n.args and \
                            isinstance(n.args[0], ast.Constant) and \
                            isinstance(n.args[0].value, str) and \
                            '%d' in n.args[0].value and \
                            _formats_first_param(fi.module, n.func.id, 0):
                        found.add(n.args[0].value)
            if isinstance(node, (ast.ListComp, ast.GeneratorExp)) and \
                    len(node.generators) == 1 and \
                    isinstance(node.generators[0].iter, ast.Name) and \
                    node.generators[0].iter.id == param:
                for n in ast.walk(node.elt):
                    if isinstance(n, ast.BinOp) and \
                            isinstance(n.op, ast.Mod) and \
                            isinstance(n.left, ast.Constant) and \
                            isinstance(n.left.value, str):
                        found.add(n.left.value)
            if isinstance(node, ast.Tuple) and len(node.elts) == 2 and \
                    isinstance(node.elts[0], ast.Constant) and \
                    isinstance(node.elts[0].value, str) and \
                    '%d' in node.elts[0].value and \
                    isinstance(node.elts[1], ast.Name) and \
                    node.elts[1].id == param:
                found.add(node.elts[0].value)
        return found
    _kt = key_template

    def key_template(param):
        return _kt(param) or set(sem_tmpl.get(param, ()))
    ctx.ob('C12.D6', fi.qualname, 'text-key:arg',
           key_template('arg') == {'arg%d'},
           'string-argument constraints must be written as argN; written '
           'as %s' % sorted(key_template('arg')), nontrivial=False)
    ctx.ob('C12.D6', fi.qualname, 'text-key:arg_path',
           key_template('arg_path') == {'arg%dpath'},
           'argument-path constraints must be written as argNpath; written '
           'as %s' % sorted(key_template('arg_path')), nontrivial=False)
    # local registration passes the same constraints in the router's order
    from ..loader import nested_by_role
    ok_fi = nested_by_role(fi, 'ok', [('passed_to', 'addCallbacks', 0),
                                      ('passed_to', 'addCallback', 0)])
    target = prog.func(MR + '.addMatch')
    okc = False
    detail = None
    if ok_fi is not None:
        for node in prog._iter_scope(ok_fi.node):
            if isinstance(node, ast.Call) and \
                    isinstance(node.func, ast.Attribute) and \
                    node.func.attr == 'addMatch':
                names = [a.id if isinstance(a, ast.Name) else None
                         for a in node.args]
                want = target.params()[1:]
                ren = {'arg': 'args', 'arg_path': 'arg_paths'}
                got = [ren.get(n_, n_) for n_ in names]
                kws = {k.arg: (k.value.id if isinstance(k.value, ast.Name)
                               else None) for k in node.keywords}
                full = dict(zip(want, got))
                full.update({k: ren.get(v, v) for k, v in kws.items()})
                okc = all(full.get(w) == w for w in want)
                detail = full
    ctx.ob('C12.D6', fi.qualname, 'local-rule-same-constraints', okc,
           'the local rule must be registered with exactly the constraints '
           'written into the rule text, each in its own parameter',
           detail)
    # bus side: literal ** keys are parameters of the router
    bfi = prog.func('bus.Bus.dbus_AddMatch')
    keys = None
    from .common import helpers_of
    for f_ in [bfi] + helpers_of(prog, bfi):
        # (the parser may have been moved into helpers the handler calls)
        for node in prog._iter_scope(f_.node):
            if isinstance(node, ast.Assign) and \
                    isinstance(node.value, ast.Dict) and node.value.keys \
                    and all(isinstance(k, ast.Constant)
                            for k in node.value.keys):
                keys = [k.value for k in node.value.keys]
        if keys is not None:
            break
    if keys is None:
        # the keyword arguments are not built from a literal table in this
        # function any more (a parser extracted into helpers, a table of
        # keys): the rule cannot name the keys - that is not a violation
        raise AnalysisError(
            'bus.Bus.dbus_AddMatch: the table of match-rule keys passed on '
            'to MessageRouter.addMatch is not a dict literal in this '
            'function; C12.D6 cannot be decided for the bus side')
    okb = keys is not None and set(keys) <= set(target.params())
    ctx.ob('C12.D6', bfi.qualname, 'kwargs-are-router-parameters', okb,
           'the keyword arguments built from the rule text must be '
           'parameters of MessageRouter.addMatch; unknown: %s' % (
               sorted(set(keys or []) - set(target.params()))))


def proxy_wrapper(ctx):
    prog = ctx.prog
    fi = prog.func('objects.RemoteDBusObject.notifyOnSignal')
    from ..loader import nested_by_role
    w = nested_by_role(fi, 'callback_caller', ('passed_to', 'addMatch', 0))
    if w is None:
        ctx.ob('C12.D7', fi.qualname, 'wrapper-exists', False,
               'the signal wrapper is missing')
        return
    n = 0
    for p in Interp(prog, exc_edges=False).run(w):
        for c in p.calls():
            if c[2] == ('free', 'callback'):
                n += 1
                guard = any(kind(cn) == 'call' and
                            cn[1] == 'objects.isSignatureValid' and pol
                            and len(cn[3]) == 2 and
                            kind(cn[3][0]) == 'attr' and
                            cn[3][0][2] == 'sig' and
                            kind(cn[3][1]) == 'attr' and
                            cn[3][1][2] == 'signature'
                            for cn, pol in p.cond)
                ctx.ob('C12.D7', w.qualname, 'callback-under-signature',
                       guard, 'the user callback must run only when the '
                       'signal\'s signature is the declared one')
    if n == 0:
        ctx.ob('C12.D7', w.qualname, 'callback-invoked', False,
               'the wrapper never invokes the user callback')
    # subscription constraints
    okk = False
    for p in Interp(prog, exc_edges=False).run(fi):
        for c in p.calls():
            if kind(c[2]) == 'attr' and c[2][2] == 'addMatch':
                kw = dict(c[4])
                okk = kw.get('mtype') == C('signal') and \
                    kw.get('path') == ('attr', ('param', 'self'),
                                       'objectPath') and \
                    kw.get('member') == ('param', fi.params()[1]) and \
                    kind(kw.get('interface')) == 'attr' and \
                    kw['interface'][2] == 'name'
    ctx.ob('C12.D7', fi.qualname, 'subscription-constraints', okk,
           'a proxy subscription must constrain type=signal, the proxy\'s '
           'path, the signal name and the owning interface')
