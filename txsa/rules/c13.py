"""C13 - built-in bus name ownership: wire constants, RequestName decision
table, release/disconnect cleanup, no duplicates, lookups read the same
table."""
import ast
import itertools

from .. import spec
from ..loader import AnalysisError
from ..sym import (C, NONE, Interp, State, contains, is_const, iter_events,
                   kind, subst_fold, term_str, truth, walk_term)

B = 'bus.Bus'
META = {
    'level': 'other',
    'rule_text': 'Instances: the 32 assignments of the RequestName atoms '
                 '(exists, caller is owner, replace requested, owner allows '
                 'replacement, do-not-queue) compared with the '
                 'specification function; the wire constants on both sides; '
                 'every path of ReleaseName and clientDisconnected; every '
                 'insertion into a queue.',
    'explanation': 'Invariant J: every queue is duplicate-free, holds only '
                   'connected clients, and conn.busNames has key n iff the '
                   'queue of n contains conn. Handler-local obligations '
                   'extracted from bus.py: flag bits and reply codes agree '
                   'between client, bus and specification; the decision '
                   'table of dbus_RequestName (return code + queue effect, '
                   'by path enumeration with the tests mapped to atoms by '
                   'their data-flow provenance) equals the specification '
                   'function on all assignments; ReleaseName removes the '
                   'caller whether it owns or waits, promotes and tells the '
                   'next in line; clientDisconnected releases every name the '
                   'connection owns or waits for; every insertion into a '
                   'queue is guarded by non-membership; owner lookups read '
                   'the head of the same table. The step-by-step equivalence '
                   'with a reference model over histories is NOT explored.',
    'trusted_base': ['txsa/spec.py (RequestName/ReleaseName semantics)',
                     'txsa.sym interpreter', 'CPython ast'],
    'assumptions': ['handlers are atomic (reactor)'],
    'decided': ['D1 wire constants', 'D2 RequestName decision table',
                'D3 release / disconnect cleanup; the successor is told on every '
                'path on which an owner leaves a non-empty queue', 'D4 no duplicates; an old waiting entry is removed before the caller is written to the head',
                'D5 lookups read the same table'],
    'undecided': ['step-by-step equivalence with a reference model over '
                  'histories', 'exact order of the emitted signals'],
}


def run(ctx):
    prog = ctx.prog
    constants(ctx)
    request_table(ctx)
    release_rules(ctx)
    disconnect_rules(ctx)
    lookups(ctx)
    from .c09 import per_instance_registries
    per_instance_registries(ctx, 'C13.D4', ('bus',),
                            'connections of the bus share one table of names / rules')
    ctx.floor('C13.D1', 8)
    ctx.floor('C13.D2', 10)
    ctx.floor('C13.D3', 4)
    ctx.floor('C13.D4', 1)
    ctx.floor('C13.D5', 2)


def module_int(prog, mod, name):
    m = prog.module(mod)
    v = m.assigns.get(name)
    if v and isinstance(v[0], ast.Constant):
        return v[0].value
    return None


def constants(ctx):
    prog = ctx.prog
    want = {'NAME_ACQUIRED': 1, 'NAME_IN_QUEUE': 2, 'NAME_IN_USE': 3,
            'NAME_ALREADY_OWNER': 4, 'NAME_RELEASED': 1,
            'NAME_NON_EXISTENT': 2, 'NAME_NOT_OWNER': 3}
    for k, v in want.items():
        got = module_int(prog, 'client', k)
        ctx.ob('C13.D1', 'client.' + k, 'reply-code', got == v,
               'client.%s must be %d (specification), is %r' % (k, v, got))
    # client flag bits
    fi = prog.func('client.DBusClientConnection.requestBusName')
    rows = {}
    for p in Interp(prog, exc_edges=False).run(fi):
        calls = [c for c in p.calls() if (c[1] or '').endswith('callRemote')
                 or (kind(c[2]) == 'attr' and c[2][2] == 'callRemote')]
        if not calls:
            continue
        body = dict(calls[0][4]).get('body')
        flags = body[1][1][1] if kind(body) == 'list' and \
            len(body[1]) == 2 else None
        names = ('allowReplacement', 'replaceExisting', 'doNotQueue')
        if flags is not None and not is_const(flags):
            # computed without branching (a table indexed by the three truth
            # values, arithmetic on bool()): evaluate it for every
            # combination this path allows
            from ..sym import subst_fold
            known = [True if ('param', n) in p.state.truthy else
                     False if ('param', n) in p.state.falsy else None
                     for n in names]
            for key in itertools.product((False, True), repeat=3):
                if any(k is not None and k != v
                       for k, v in zip(known, key)):
                    continue
                v2 = subst_fold(flags, {('param', n): C(v)
                                        for n, v in zip(names, key)})
                if is_const(v2) and isinstance(v2[1], int):
                    rows[key] = int(v2[1])
            continue
        key = tuple(True if ('param', n) in p.state.truthy else False
                    for n in names)
        rows[key] = flags[1] if is_const(flags) else None
    bad = None
    for key in itertools.product((False, True), repeat=3):
        want_f = (1 if key[0] else 0) | (2 if key[1] else 0) | \
            (4 if key[2] else 0)
        if rows.get(key) != want_f and bad is None:
            bad = (key, rows.get(key), want_f)
    ctx.ob('C13.D1', fi.qualname, 'flag-bits', bad is None,
           'requestBusName must encode allowReplacement/replaceExisting/'
           'doNotQueue as 0x1/0x2/0x4; first disagreement (flags, got, '
           'expected): %s' % (bad,))
    # bus decoding
    rq = prog.func(B + '.dbus_RequestName')
    src = ast.unparse(rq.node)
    flagsp = ('param', rq.params()[2])
    for p in Interp(prog, exc_edges=False).run(rq)[:1]:
        pass
    roles = {}
    for n in ast.walk(rq.node):
        if isinstance(n, ast.Assign) and isinstance(n.targets[0], ast.Name) \
                and isinstance(n.value, ast.Call) and n.value.args and \
                isinstance(n.value.args[0], ast.BinOp) and \
                isinstance(n.value.args[0].op, ast.BitAnd) and \
                isinstance(n.value.args[0].right, ast.Constant):
            roles[n.targets[0].id] = n.value.args[0].right.value
    ctx.extra['bus_flag_roles'] = roles
    # FailedToAcquireName texts
    fa = prog.func('error.FailedToAcquireName.__init__')
    texts = {}
    for p in Interp(prog, exc_edges=False, unroll_const=True).run(fa):
        code = None
        for c, pol in p.cond:
            if kind(c) == 'cmp' and c[1] == '==' and pol and is_const(c[3]):
                code = c[3][1]
        for c in p.calls():
            for t in walk_term(c):
                if is_const(t) and isinstance(t[1], str) and code:
                    texts.setdefault(code, []).append(t[1])
    okt = any('ueue' in s for s in texts.get(2, [])) and \
        any('in use' in s.lower() for s in texts.get(3, []))
    ctx.ob('C13.D1', fa.qualname, 'failure-texts', okt,
           'FailedToAcquireName must describe code 2 as queued and code 3 as '
           'in use; texts: %s' % {k: v[:1] for k, v in texts.items()},
           nontrivial=False)


def _mrecv(ev):
    """receiver of a 'mutate' event (a list built on an opaque base is
    recorded as [*base])"""
    r = ev[1]
    if kind(r) == 'list' and r[1] and kind(r[1][0]) == 'splice':
        return r[1][0][1]
    return r


def _is_queue(t, table, name):
    """the queue of the requested name: busNames[name] or
    busNames.get(name[, None])"""
    if t == ('sub', table, name):
        return True
    return kind(t) == 'call' and kind(t[2]) == 'attr' and \
        t[2][2] == 'get' and t[2][1] == table and t[3] and \
        t[3][0] == name and (len(t[3]) == 1 or t[3][1] == NONE)


def _atom(c, rq):
    """Map a test of dbus_RequestName to an atom by provenance."""
    selft = ('param', 'self')
    name = ('param', rq.params()[1])
    flags = ('param', rq.params()[2])
    table = ('attr', selft, 'busNames')
    if kind(c) == 'cmp' and c[1] in ('not in', 'in') and c[2] == name and \
            c[3] == table:
        return 'EXISTS', c[1] == 'in'
    is_head = lambda x: kind(x) == 'sub' and x[2] == C(0) and \
        _is_queue(x[1], table, name)
    # name absent: busNames.get(name) is None
    if kind(c) == 'cmp' and c[1] in ('is', 'is not') and c[3] == NONE and \
            _is_queue(c[2], table, name) and kind(c[2]) == 'call':
        return 'EXISTS', c[1] == 'is not'
    if kind(c) == 'cmp' and c[1] in ('is', 'is not', '==', '!=') and \
            (is_head(c[2]) or is_head(c[3])):
        other = c[3] if is_head(c[2]) else c[2]
        if contains(other, lambda x: kind(x) == 'attr' and
                    x[2] == 'clients'):
            return 'IS_OWNER', c[1] in ('is', '==')
    for bit, nm in ((2, 'REPLACE'), (4, 'NO_QUEUE')):
        if contains(c, lambda x: kind(x) == 'binop' and x[1] == '&' and
                    x[2] == flags and x[3] == C(bit)) and \
                not contains(c, lambda x: kind(x) == 'cmp'):
            return nm, True
    # ... or any other test that is a function of the flags word alone (a
    # precomputed table indexed by `flags & 7`, a comparison with a mask):
    # decided by evaluating it for the eight values of the low three bits
    if contains(c, lambda x: x == flags) and not contains(
            c, lambda x: kind(x) in ('param', 'attr', 'call', 'loopvar',
                                     'elem') and x != flags and
            not (kind(x) == 'call' and x[1] == 'bool')):
        vals = [truth(subst_fold(c, {flags: C(f)})) for f in range(8)]
        if None not in vals:
            for bit, nm in ((2, 'REPLACE'), (4, 'NO_QUEUE')):
                if vals == [bool(f & bit) for f in range(8)]:
                    return nm, True
                if vals == [not (f & bit) for f in range(8)]:
                    return nm, False
    if kind(c) == 'sub' and kind(c[1]) == 'attr' and c[1][2] == 'busNames' \
            and is_head(c[1][1]) and c[2] == name:
        return 'OWNER_ALLOWS', True
    # membership of the caller in the queue (duplicate guard)
    if kind(c) == 'cmp' and c[1] in ('in', 'not in') and \
            _is_queue(c[3], table, name):
        return 'QUEUED', c[1] == 'in'
    return None


def request_table(ctx):
    prog = ctx.prog
    rq = prog.func(B + '.dbus_RequestName')
    selft = ('param', 'self')
    name = ('param', rq.params()[1])
    table = ('attr', selft, 'busNames')
    paths = [p for p in Interp(prog, exc_edges=False,
                               mark_assumes=True).run(rq)
             if p.outcome == 'return']
    if len(paths) < 4:
        raise AnalysisError('dbus_RequestName: only %d return paths'
                            % len(paths))

    def _says_empty(v, pol):
        """does assuming v == pol say the queue of the name is empty?"""
        if _is_queue(v, table, name):
            return not pol
        qs = [x for x in walk_term(v) if kind(x) == 'call' and
              x[1] == 'len' and len(x[3]) == 1 and
              _is_queue(x[3][0], table, name)]
        for lq in qs[:1]:
            t0 = truth(subst_fold(v, {lq: C(0)}))
            t1 = truth(subst_fold(v, {lq: C(1)}))
            t2 = truth(subst_fold(v, {lq: C(2)}))
            if t0 is not None and t1 is not None and t1 == t2 and t0 != t1:
                return t0 == pol
        return False
    rows = []
    for p in paths:
        atoms = {}
        unknown = []
        for c, pol in p.cond:
            a = _atom(c, rq)
            if a is None:
                if c in (name,) or (kind(c) == 'cmp' and
                                    c[2] == ('sub', name, C(0))):
                    continue        # argument validation
                unknown.append(term_str(c)[:60])
                continue
            atoms[a[0]] = (a[1] == pol)
        # queue effect
        effect = 'absent'
        gone = False        # the name's entry was deleted from the table
        ci = None           # the caller's index in the queue, once inserted
        infeasible = False
        for ev in iter_events(p.trace):
            if ev[0] == 'assume':
                if ci is not None and _says_empty(ev[1], ev[2]):
                    # the caller is in the queue at this point: the branch
                    # that found it empty is never taken
                    infeasible = True
                continue
            # where the caller stands: insert(k, caller), then the entries
            # in front of it leaving (del queue[0], queue.pop(0),
            # queue.remove(queue[0]))
            if ev[0] == 'call' and kind(ev[1][2]) == 'attr' and \
                    _is_queue(ev[1][2][1], table, name):
                m_, a_ = ev[1][2][2], ev[1][3]
                if m_ == 'insert' and a_ and is_const(a_[0]) and \
                        isinstance(a_[0][1], int) and a_[0][1] >= 0:
                    ci = a_[0][1]
                elif m_ == 'append':
                    ci = 1 << 20
                elif ci is not None and ci > 0 and (
                        (m_ == 'pop' and a_ == (C(0),)) or
                        (m_ == 'remove' and len(a_) == 1 and
                         kind(a_[0]) == 'sub' and a_[0][2] == C(0) and
                         _is_queue(a_[0][1], table, name))):
                    ci -= 1
                    if ci == 0:
                        effect = 'head'
            if ev[0] == 'delsub' and _is_queue(ev[1], table, name) and \
                    ev[2] == C(0) and ci is not None and ci > 0:
                ci -= 1
                if ci == 0:
                    effect = 'head'
            if ev[0] == 'delsub' and ev[1] == table and ev[2] == name:
                gone = True
            if ev[0] == 'call' and kind(ev[1][2]) == 'attr' and \
                    ev[1][2][1] == table and ev[1][2][2] == 'pop' and \
                    ev[1][3] and ev[1][3][0] == name:
                gone = True
            if ev[0] == 'setsub' and ev[1] == table and ev[2] == name:
                effect = 'head'
                gone = False
            if ev[0] == 'setsub' and _is_queue(ev[1], table, name) and \
                    ev[2] == C(0):
                effect = 'head'         # queue[0] = caller
            if ev[0] == 'call' and kind(ev[1][2]) == 'attr' and \
                    _is_queue(ev[1][2][1], table, name):
                if ev[1][2][2] == 'insert' and ev[1][3] and \
                        ev[1][3][0] == C(0):
                    effect = 'head'
                if ev[1][2][2] == 'append':
                    effect = 'queued'
                if ev[1][2][2] == 'remove' and effect == 'absent':
                    effect = 'absent'
            if ev[0] == 'mutate' and _is_queue(_mrecv(ev), table, name) \
                    and ev[2] == 'append':
                effect = 'queued'
        if atoms.get('IS_OWNER'):
            effect = 'head'
        if gone and effect in ('head', 'queued'):
            # the caller was put into a list that is no longer the table's
            # entry for the name: nobody owns the name as far as routing and
            # GetNameOwner can see
            effect = 'in a queue that was removed from the table'
        if infeasible:
            continue
        rows.append((atoms, p.value[1] if is_const(p.value) else None,
                     effect, unknown, p))
    n_bad = 0
    for bits in itertools.product((False, True), repeat=5):
        asg = dict(zip(('EXISTS', 'IS_OWNER', 'REPLACE', 'OWNER_ALLOWS',
                        'NO_QUEUE'), bits))
        if not asg['EXISTS'] and (asg['IS_OWNER'] or asg['OWNER_ALLOWS']):
            continue
        want = spec.request_name(asg['EXISTS'], asg['IS_OWNER'],
                                 asg['REPLACE'], asg['OWNER_ALLOWS'],
                                 asg['NO_QUEUE'])
        got = set()
        for atoms, code, effect, unknown, p in rows:
            if all(asg.get(k, v) == v for k, v in atoms.items()
                   if k != 'QUEUED'):
                if atoms.get('QUEUED'):
                    continue    # caller already queued: same answer, no
                    #             second insertion (checked under D4)
                got.add((code, effect))
        tag = ','.join('%s=%d' % (k[:3].lower(), v) for k, v in asg.items())
        ok = got == {want}
        if not ok:
            n_bad += 1
        ctx.ob('C13.D2', rq.qualname, 'row:' + tag, ok,
               'RequestName with name exists=%s, caller is owner=%s, '
               'REPLACE_EXISTING=%s, owner allows replacement=%s, '
               'DO_NOT_QUEUE=%s must answer %d and leave the caller %s; the '
               'extracted table gives %s' % (
                   asg['EXISTS'], asg['IS_OWNER'], asg['REPLACE'],
                   asg['OWNER_ALLOWS'], asg['NO_QUEUE'], want[0], want[1],
                   sorted(got)))
    ctx.extra['request_rows'] = len(rows)
    # D4: every insertion is guarded by non-membership (or is the creation
    # of the queue / the replacement of the head)
    for atoms, code, effect, unknown, p in rows:
        for ev in iter_events(p.trace):
            is_ins = (ev[0] == 'call' and kind(ev[1][2]) == 'attr' and
                      _is_queue(ev[1][2][1], table, name) and
                      ev[1][2][2] in ('append', 'insert')) or (
                ev[0] == 'mutate' and _is_queue(_mrecv(ev), table, name)
                and ev[2] == 'append')
            if is_ins:
                meth = ev[2] if ev[0] == 'mutate' else ev[1][2][2]
                guarded = atoms.get('QUEUED') is False
                # removal of the caller before the insertion also works
                removed = any(e[0] == 'call' and kind(e[1][2]) == 'attr' and
                              _is_queue(e[1][2][1], table, name) and
                              e[1][2][2] == 'remove'
                              for e in iter_events(p.trace))
                ctx.ob('C13.D4', rq.qualname, 'insert-guarded:%s'
                       % meth, guarded or removed,
                       'the caller is put into the queue of the name '
                       'without a check that it is not already waiting '
                       'there: a client that asks twice is queued twice')
        # "the longest-waiting queued client becomes owner": a client that is
        # already waiting and asks again (and still only waits) keeps its
        # place - its entry is not removed and appended again
        if atoms.get('QUEUED') and code == 2:
            moved = [e[1][2][2] for e in iter_events(p.trace)
                     if e[0] == 'call' and kind(e[1][2]) == 'attr' and
                     _is_queue(e[1][2][1], table, name) and
                     e[1][2][2] in ('remove', 'append', 'insert', 'pop')] + [
                e[2] for e in iter_events(p.trace)
                if e[0] == 'mutate' and _is_queue(_mrecv(e), table, name)]
            ctx.ob('C13.D4', rq.qualname, 'waiting-client-keeps-its-place',
                   not moved, 'a client that is already waiting and asks '
                   'again is still only waiting, but the queue is changed on '
                   'that path (%s): it loses its place to clients that '
                   'queued after it' % moved)
        # list.remove drops the FIRST occurrence: removing the caller's old
        # waiting entry after the caller was written to the head removes the
        # head instead (the next waiter silently becomes owner)
        head_at = None
        evs = list(iter_events(p.trace))
        for i, ev in enumerate(evs):
            if (ev[0] == 'setsub' and _is_queue(ev[1], table, name) and
                    ev[2] == C(0)) or (
                    ev[0] == 'call' and kind(ev[1][2]) == 'attr' and
                    _is_queue(ev[1][2][1], table, name) and
                    ev[1][2][2] == 'insert' and ev[1][3] and
                    ev[1][3][0] == C(0)):
                if head_at is None:
                    head_at = i
            if ev[0] == 'call' and kind(ev[1][2]) == 'attr' and \
                    _is_queue(ev[1][2][1], table, name) and \
                    ev[1][2][2] == 'remove' and head_at is not None:
                ctx.ob('C13.D4', rq.qualname, 'old-entry-removed-before-'
                       'head-insert', False,
                       'queue.remove(...) runs after the caller was written '
                       'to the head of the queue: it removes the first '
                       'occurrence - the new head - so a waiter that stood '
                       'before the caller becomes owner without being told')
        if head_at is not None:
            ctx.ob('C13.D4', rq.qualname, 'old-entry-removed-before-'
                   'head-insert', True, 'no removal after the head insert',
                   nontrivial=False)
        # caller bookkeeping: busNames[name] on the connection set whenever
        # the caller ends up in the queue
        stays = effect in ('head', 'queued') or (
            atoms.get('QUEUED') and code == 2)
        if stays:
            flags = ('param', rq.params()[2])
            def is_allow_bit(v):
                if contains(v, lambda x: kind(x) == 'binop' and
                            x[1] == '&' and x[2] == flags and x[3] == C(1)):
                    return True
                # any function of the flags word that is true exactly when
                # bit 0 is set (a table indexed by `flags & 7`)
                if not contains(v, lambda x: x == flags):
                    return False
                vals = [truth(subst_fold(v, {flags: C(f)}))
                        for f in range(8)]
                return vals == [bool(f & 1) for f in range(8)]
            # ... on the CALLER's connection (`self.clients[dbusCaller]`),
            # which is what clientDisconnected walks - not on the owner's
            callerp = ('param', rq.params()[3]) if len(
                rq.params()) > 3 else None
            okb = any(ev[0] == 'setsub' and kind(ev[1]) == 'attr' and
                      ev[1][2] == 'busNames' and ev[1] != table and
                      ev[2] == name and is_allow_bit(ev[3]) and
                      (callerp is None or contains(
                          ev[1][1], lambda x: x == callerp) or
                       # the caller IS the owner on this path: the head of
                       # the queue is its connection
                       atoms.get('IS_OWNER'))
                      for ev in iter_events(p.trace))
            ctx.ob('C13.D2', rq.qualname, 'records-allow-replacement:%s'
                   % ('already-queued' if atoms.get('QUEUED') else
                      'owner' if atoms.get('IS_OWNER') else effect), okb,
                   'every request that leaves the caller owning or waiting '
                   'for the name must (re)record the ALLOW_REPLACEMENT flag '
                   'of THIS request on the connection; a later '
                   'REPLACE_EXISTING by another client is decided on it')


def release_rules(ctx):
    prog = ctx.prog
    rl = prog.func(B + '.dbus_ReleaseName')
    selft = ('param', 'self')
    name = ('param', rl.params()[1])
    paths = [p for p in Interp(prog, exc_edges=False).run(rl)
             if p.outcome == 'return']
    codes = {}
    for p in paths:
        code = p.value[1] if is_const(p.value) else None
        removed = any(
            (ev[0] == 'delsub' and contains(ev[1], lambda x: kind(x) ==
                                            'call' and kind(x[2]) == 'attr'
                                            and x[2][2] == 'get')) or
            (ev[0] == 'call' and kind(ev[1][2]) == 'attr' and
             ev[1][2][2] in ('remove', 'pop'))
            for ev in iter_events(p.trace))
        nonexist = any(
            (kind(c) == 'cmp' and c[3] == NONE and ((c[1] == 'is') == pol))
            or (kind(c) == 'cmp' and c[1] in ('in', 'not in') and
                c[2] == name and c[3] == ('attr', selft, 'busNames') and
                ((c[1] == 'not in') == pol))
            for c, pol in p.cond)
        is_owner = None
        in_queue = None
        for c, pol in p.cond:
            if kind(c) == 'cmp' and c[1] in ('is', 'is not') and \
                    c[3] != NONE and contains(
                        c, lambda x: kind(x) == 'sub' and x[2] == C(0)):
                is_owner = (c[1] == 'is') == pol
            if kind(c) == 'cmp' and c[1] in ('==', '!=') and \
                    c[3] == C(0) and kind(c[2]) == 'call' and \
                    kind(c[2][2]) == 'attr' and c[2][2][2] == 'index':
                # queue.index(caller) == 0
                is_owner = (c[1] == '==') == pol
            if kind(c) == 'cmp' and c[1] in ('in', 'not in'):
                in_queue = (c[1] == 'in') == pol
        codes.setdefault(code, []).append((removed, nonexist, is_owner,
                                           in_queue, p))
    ctx.ob('C13.D3', rl.qualname, 'non-existent',
           any(ne for _, ne, _, _, _ in codes.get(2, [])),
           'releasing a name nobody holds must answer NON_EXISTENT (2)')
    # NOT_OWNER only when the caller is not in the queue at all
    for removed, ne, is_owner, in_queue, p in codes.get(3, []):
        ok = in_queue is False
        ctx.ob('C13.D3', rl.qualname, 'not-owner-only-if-absent', ok,
               'ReleaseName answers NOT_OWNER (3) on a path that only '
               'established "caller is not the current owner": a client '
               'that WAITS for the name must be removed from the queue and '
               'answered RELEASED, otherwise it stays queued and later '
               'becomes owner against its will')
    for removed, ne, is_owner, in_queue, p in codes.get(1, []):
        ctx.ob('C13.D3', rl.qualname, 'released-removes-caller', removed,
               'RELEASED (1) must mean the caller was taken out of the '
               'queue')
        # the connection's record of the name is dropped
        okc = any(ev[0] == 'delsub' and kind(ev[1]) == 'attr' and
                  ev[1][2] == 'busNames' and ev[1][1] != selft
                  for ev in iter_events(p.trace)) or any(
            ev[0] == 'call' and kind(ev[1][2]) == 'attr' and
            ev[1][2][2] == 'pop' and kind(ev[1][2][1]) == 'attr' and
            ev[1][2][1][2] == 'busNames' and ev[1][2][1][1] != selft
            for ev in iter_events(p.trace))
        # ... or the path established that it records nothing
        okc = okc or any(
            kind(c) == 'cmp' and c[1] in ('in', 'not in') and c[2] == name
            and kind(c[3]) == 'attr' and c[3][2] == 'busNames' and
            c[3][1] != selft and ((c[1] == 'not in') == pol)
            for c, pol in p.cond)
        # ... the CALLER's record (`self.clients[dbusCaller].busNames`), or
        # the head's on a path that found the head to be the caller: a
        # waiting client that releases must not wipe the owner's record
        callerp = ('param', rl.params()[2]) if len(rl.params()) > 2 else None
        if okc and callerp is not None:
            bases = [ev[1][1] for ev in iter_events(p.trace)
                     if ev[0] == 'delsub' and kind(ev[1]) == 'attr' and
                     ev[1][2] == 'busNames' and ev[1][1] != selft] + [
                ev[1][2][1][1] for ev in iter_events(p.trace)
                if ev[0] == 'call' and kind(ev[1][2]) == 'attr' and
                ev[1][2][2] == 'pop' and kind(ev[1][2][1]) == 'attr' and
                ev[1][2][1][2] == 'busNames' and ev[1][2][1][1] != selft]
            mine = all(contains(b, lambda x: x == callerp) or is_owner
                       for b in bases)
            ctx.ob('C13.D3', rl.qualname, 'released-forgets-the-callers-'
                   'record', mine,
                   'ReleaseName drops the record of the name on %s, which '
                   'on this path is not known to be the caller\'s '
                   'connection: a waiting client that releases wipes the '
                   'OWNER\'s record - when the owner later disconnects, the '
                   'name is not released and stays with a dead connection'
                   % (term_str(bases[0])[:60] if bases else '?'))
        ctx.ob('C13.D3', rl.qualname, 'released-forgets-name', okc,
               'after RELEASED the connection must no longer record the '
               'name (it neither owns nor waits for it)')
    if 1 not in codes:
        ctx.ob('C13.D3', rl.qualname, 'can-release', False,
               'ReleaseName never answers RELEASED')
    # successor is told
    told = False
    for removed, ne, is_owner, in_queue, p in codes.get(1, []):
        for c in p.calls():
            if (c[1] or '').endswith('.sendSignal') and \
                    C('NameAcquired') in c[3]:
                told = True
    ctx.ob('C13.D3', rl.qualname, 'successor-told', told,
           'when the owner releases, the longest-waiting client becomes '
           'owner and must be sent NameAcquired')
    # ... on EVERY path where the owner leaves and somebody waits - whether
    # the owner released or disconnected (clientDisconnected goes through
    # ReleaseName with isConnected False)
    n_succ = 0
    for removed, ne, is_owner, in_queue, p in codes.get(1, []):
        queues = [c[2][1] for c in p.calls()
                  if kind(c[2]) == 'attr' and c[2][2] == 'remove']
        if not queues:
            continue
        L = queues[0]
        waiting = _nonempty(p.cond, L)
        acq = [c for c in p.calls() if (c[1] or '').endswith('.sendSignal')
               and C('NameAcquired') in c[3]]
        if is_owner and waiting:
            n_succ += 1
            ok = any(c[3] and c[3][0] == ('sub', L, C(0)) and name in c[3]
                     for c in acq)
            conds = [term_str(c)[:50] for c, pol in p.cond
                     if not contains(c, lambda x: x == L)]
            ctx.ob('C13.D3', rl.qualname, 'successor-told-on-every-path', ok,
                   'the owner gives the name up and a client is waiting, '
                   'but on this path (%s) the new owner - the head of the '
                   'queue - is not sent NameAcquired for the name'
                   % '; '.join('%s=%s' % (t, pol) for (t, pol) in zip(
                       conds, [pol for c, pol in p.cond if not contains(
                           c, lambda x: x == L)])))
        if is_owner is False:
            ctx.ob('C13.D3', rl.qualname, 'waiter-leaving-changes-no-owner',
                   not acq, 'a merely waiting client released the name: '
                   'ownership does not change and nobody may be told '
                   'NameAcquired', nontrivial=False)
    if n_succ == 0:
        ctx.ob('C13.D3', rl.qualname, 'successor-told-on-every-path', False,
               'no path of ReleaseName on which the owner leaves a '
               'non-empty queue was recognised')


def _nonempty(cond, L):
    """Is the container L known non-empty by the LAST test of it on the
    path?  True / False / None (not tested)."""
    res = None
    lenL = ('call', 'len', ('builtin', 'len'), (L,), (), None)
    for c, pol in cond:
        if c == L:
            res = pol
        elif contains(c, lambda x: x == lenL):
            for n, val in ((0, False), (1, True)):
                tv = truth(subst_fold(c, {lenL: C(n)}))
                if tv is not None and tv == pol:
                    res = val
                    break
    return res


def disconnect_rules(ctx):
    prog = ctx.prog
    cd = prog.func(B + '.clientDisconnected')
    proto = ('param', cd.params()[1])
    ok_loop = False
    snapshot = False
    for p in Interp(prog, exc_edges=False).run(cd):
        for ev in p.trace:
            if ev[0] == 'loop' and contains(
                    ev[3], lambda x: x == ('attr', proto, 'busNames')):
                for bp in ev[4]:
                    for c in bp.calls():
                        if (c[1] or '').endswith('.dbus_ReleaseName') and \
                                len(c[3]) == 2 and \
                                c[3][1] == ('attr', proto, 'uniqueName'):
                            ok_loop = True
                it = ev[3]
                snapshot = kind(it) == 'call' and it[1] in ('list', 'tuple',
                                                            'sorted')
    ctx.ob('C13.D3', cd.qualname, 'releases-every-recorded-name', ok_loop,
           'a disconnecting client must release every name it owns or waits '
           'for (ReleaseName for each entry of its busNames)')
    ctx.ob('C13.D3', cd.qualname, 'iterates-a-snapshot', snapshot,
           'ReleaseName removes entries from the connection\'s busNames '
           'while clientDisconnected iterates it: iterate a snapshot')
    okc = False
    for p in Interp(prog, exc_edges=False).run(cd):
        for ev in iter_events(p.trace):
            if ev[0] == 'delsub' and kind(ev[1]) == 'attr' and \
                    ev[1][2] == 'clients':
                okc = True
            if ev[0] == 'call' and kind(ev[1][2]) == 'attr' and \
                    ev[1][2][2] == 'pop' and kind(ev[1][2][1]) == 'attr' \
                    and ev[1][2][1][2] == 'clients' and ev[1][3] and \
                    kind(ev[1][3][0]) == 'attr' and \
                    ev[1][3][0][2] == 'uniqueName':
                okc = True
    ctx.ob('C13.D3', cd.qualname, 'forgets-connection', okc,
           'the unique name of a disconnected client must be removed from '
           'the client table')


def lookups(ctx):
    prog = ctx.prog
    selft = ('param', 'self')
    table = ('attr', selft, 'busNames')
    for q in ('dbus_GetNameOwner', 'dbus_ListQueuedOwners'):
        fi = prog.func('%s.%s' % (B, q))
        ok = False
        for p in Interp(prog, exc_edges=False).run(fi):
            if p.outcome != 'return':
                continue
            if contains(p.value, lambda x: kind(x) == 'call' and
                        kind(x[2]) == 'attr' and x[2][1] == table and
                        x[2][2] == 'get') or contains(
                            p.value, lambda x: kind(x) == 'sub' and
                            x[1] == table):
                if q.endswith('GetNameOwner'):
                    ok = ok or contains(
                        p.value, lambda x: kind(x) == 'sub' and
                        x[2] == C(0))
                else:
                    ok = True
        ctx.ob('C13.D5', fi.qualname, 'reads-name-table', ok,
               '%s must answer from the queue table (owner = head of the '
               'queue)' % q.replace('dbus_', ''))
