"""C14 - the built-in bus delivers each message to the right peer with the
true sender: conformance of the bus path, unique names, sender overwrite,
unicast vs broadcast, match-rule lifecycle, stub/skeleton agreement, no
deferral on the forwarding path."""
import ast

from .. import callgraph as CG
from .. import spec
from ..loader import AnalysisError
from ..sym import (C, NONE, Interp, State, contains, is_const, iter_events,
                   kind, subst_fold, term_str, truth, walk_term)
from .c11 import conformance_rules

B = 'bus.Bus'
BP = 'bus.BusProtocol'
META = {
    'level': 'other',
    'rule_text': 'Instances: every resolved call edge in bus.py; every path '
                 'of rawDBusMessageReceived, clientConnected, '
                 'messageReceived, dbus_AddMatch, clientDisconnected; one per '
                 'method the client calls on org.freedesktop.DBus; one per '
                 'function on the forwarding path.',
    'explanation': 'Handler-local obligations of the bus, by path '
                   'enumeration: calls conform; unique names come from a '
                   'counter that is only incremented and are registered '
                   'under that name; every message that reaches '
                   'Bus.messageReceived had its sender overwritten with the '
                   'connection\'s unique name and was re-marshalled with its '
                   'original serial; a message with a destination other than '
                   'the bus is sent to that destination and is NOT also '
                   'handed to the broadcast router, a message addressed to '
                   'the bus is handled by the object handler and not '
                   'forwarded, only destination-less messages are broadcast; '
                   'the rule ids returned by the router for AddMatch are '
                   'recorded on the connection, removed by RemoveMatch and on '
                   'disconnect; every method the client calls on the bus is '
                   'declared with the same signature and implemented with '
                   'the matching arity; nothing on the forwarding path '
                   'defers (per-sender order then follows from atomic '
                   'handlers). Exactly-once/in-order delivery over histories '
                   'is NOT explored.',
    'trusted_base': ['txsa.sym interpreter', 'txsa.callgraph', 'CPython ast',
                     'atomic handlers (reactor)'],
    'assumptions': ['transport.write preserves order'],
    'decided': ['D1 conformance of the bus path', 'D2 unique names; a '
                'registered connection is unregistered on loss',
                'D3 true sender; the owner table routing reads is the one RequestName reports (C13.D2 rows, C13.D4 queue integrity as premises)', 'D4 unicast is unicast; what is forwarded is what _marshal(False) writes (C03.D4 re-reported under D3)',
                'D5 match-rule lifecycle (incl. RemoveMatch accounting when one '
                'text was added several times)', 'D6 stub/skeleton agreement',
                'D7 no deferral on the forwarding path'],
    'undecided': ['exactly-once / in-order delivery over histories',
                  'a broadcast reaches exactly the rule holders (C12 decides '
                  'the matcher)'],
}


def run(ctx):
    prog = ctx.prog
    conformance_rules(ctx, 'C14.D1', only_modules=('bus',), chain=[
        ('bus.BusProtocol.rawDBusMessageReceived', 'message.parseMessage'),
        ('bus.BusProtocol.rawDBusMessageReceived',
         'bus.Bus.messageReceived'),
        ('bus.Bus.messageReceived', 'bus.Bus.sendMessage'),
    ])
    unique_names(ctx)
    true_sender(ctx)
    unicast(ctx)
    rule_lifecycle(ctx)
    stub_skeleton(ctx)
    no_deferral(ctx)
    from .c09 import per_instance_registries
    per_instance_registries(ctx, 'C14.D2', ('bus',),
                            'connections of the bus share one table')
    registered_implies_unregistered(ctx)
    owner_table_premise(ctx)
    forwarded_bytes(ctx)
    # "reaches exactly the connections that hold a rule matching it": a rule
    # the bus refused (AddMatch answered with an error) must not be left in
    # the router
    from .c12 import filed_when_complete
    filed_when_complete(ctx, 'C14.D5')
    # ... and "a rule matching it" is decided by router.Rule.match: its
    # constraint coverage, value domains, hierarchical tests and the
    # missing-argument rule (C12.D1-D4) are premises of broadcast delivery
    from . import c12 as _c12

    class _Match:
        prog = ctx.prog
        tier = ctx.tier
        extra = {}

        def ob(self, rule, where, slot, ok, msg, detail=None,
               nontrivial=True, loc=None):
            if rule in ('C12.D1', 'C12.D2', 'C12.D3', 'C12.D4') and \
                    where.startswith('router.'):
                ctx.ob('C14.D5', where, 'match:%s:%s' % (rule, slot), ok,
                       '[a broadcast reaches the holders of a MATCHING rule, '
                       '%s] ' % rule + msg, detail, nontrivial, loc)
            return ok

        def floor(self, *a):
            pass

        def advisory(self, *a):
            pass
    _c12.run(_Match())
    ctx.floor('C14.D1', 20)
    ctx.floor('C14.D2', 3)
    ctx.floor('C14.D3', 2)
    ctx.floor('C14.D4', 3)
    ctx.floor('C14.D5', 3)
    ctx.floor('C14.D6', 8)
    ctx.floor('C14.D7', 3)


def forwarded_bytes(ctx):
    """What the bus delivers is what `_marshal(False)` produces from the
    parsed message after the sender was overwritten: "unchanged except the
    sender field" therefore rests on the writer clauses of C03.D4 (the body is
    self.body encoded under self.signature, header and body in one byte
    order, header + padding + body) for every message class - re-reported
    here."""
    from . import c03 as _c03

    class _Sub:
        prog = ctx.prog
        tier = ctx.tier
        extra = {}

        def ob(self, rule, where, slot, ok, msg, detail=None,
               nontrivial=True, loc=None):
            if rule == 'C03.D4':
                ctx.ob('C14.D3', where, 'forwarded:' + slot, ok,
                       '[the bus forwards what _marshal(False) writes] '
                       + msg, detail, nontrivial, loc)
            return ok

        def floor(self, *a):
            pass

        def advisory(self, *a):
            pass
    sub = _Sub()
    mfi = ctx.prog.func('message.DBusMessage._marshal')
    for c in _c03.message_classes(ctx.prog):
        paths = Interp(ctx.prog, exc_edges=False, self_cls=c).run(mfi)
        _c03.marshal_rules(sub, c, mfi, paths, ('param', 'self'),
                           skip_typing=True)


def owner_table_premise(ctx):
    """Routing reads the owner of a name from the head of its queue: "the
    connection owning the destination name" is the head only if every
    RequestName leaves the queue in the state it reports (the table rows of
    C13.D2) and never holds a connection twice / removes the wrong entry
    (C13.D4).  Those clauses are re-reported here as C14.D3 premises."""
    from . import c13

    class _Sub:
        prog = ctx.prog
        tier = ctx.tier
        extra = {}

        def ob(self, rule, where, slot, ok, msg, detail=None,
               nontrivial=True, loc=None):
            # (records-*: what clientDisconnected walks to take a dead
            # connection out of the queues - a name not recorded on the
            # caller leaves its connection in the queue after it is gone)
            if (rule in ('C13.D2', 'C13.D4') and (
                    slot.startswith('row:') or slot.startswith('insert-') or
                    slot.startswith('old-entry-') or
                    slot.startswith('records-'))) or (
                    rule == 'C13.D3' and slot.startswith(
                        'released-forgets-the-callers-record')):
                ctx.ob('C14.D3', where, 'owner-table:' + slot, ok,
                       '[the routing table must hold the owner the clients '
                       'were told about] ' + msg, detail, nontrivial, loc)
            return ok

        def floor(self, *a):
            pass

        def advisory(self, *a):
            pass
    c13.request_table(_Sub())
    c13.release_rules(_Sub())


def unique_names(ctx):
    prog = ctx.prog
    selft = ('param', 'self')
    # stores to next_id
    n = 0
    for fi in prog.all_funcs.values():
        for node in prog._iter_scope(fi.node):
            tgt = None
            ok = False
            if isinstance(node, ast.AugAssign):
                tgt = node.target
                ok = isinstance(node.op, ast.Add) and \
                    isinstance(node.value, ast.Constant) and \
                    isinstance(node.value.value, int) and \
                    node.value.value > 0
            elif isinstance(node, ast.Assign):
                tgt = node.targets[0]
                ok = fi.name == '__init__' and \
                    isinstance(node.value, ast.Constant) and \
                    isinstance(node.value.value, int)
            if isinstance(tgt, ast.Attribute) and tgt.attr == 'next_id':
                n += 1
                ctx.ob('C14.D2', fi.qualname, 'counter-only-grows', ok,
                       'unique names are never reused only if the counter is '
                       'initialised once and only ever incremented')
    cc = prog.func(B + '.clientConnected')
    proto = ('param', cc.params()[1])
    for p in Interp(prog, exc_edges=False).run(cc):
        nm = p.state.heap.get((proto, 'uniqueName'))
        counter = ('attr', selft, 'next_id')
        okn = kind(nm) == 'binop' and nm[1] == '%' and is_const(nm[2]) and \
            str(nm[2][1]).startswith(':') and contains(
                nm[3], lambda x: x == counter)
        if not okn and kind(nm) == 'binop' and nm[1] == '+':
            # ':1.' + str(self.next_id)
            parts = []

            def flat(t):
                if kind(t) == 'binop' and t[1] == '+':
                    flat(t[2])
                    flat(t[3])
                else:
                    parts.append(t)
            flat(nm)
            okn = is_const(parts[0]) and str(parts[0][1]).startswith(':') \
                and sum(1 for x in parts if kind(x) == 'call' and
                        x[1] in ('str', 'repr', 'format') and
                        x[3] and x[3][0] == counter) == 1 and \
                all(is_const(x) or (kind(x) == 'call' and x[3] and
                                    x[3][0] == counter) for x in parts)
        ctx.ob('C14.D2', cc.qualname, 'name-from-counter', okn,
               'the unique name must be ":<n>.<counter>" built from next_id '
               'before it is incremented; is %s' % term_str(nm)[:60])
        reg = [e for e in p.trace if e[0] == 'setsub' and
               e[1] == ('attr', selft, 'clients')]
        okr = len(reg) == 1 and reg[0][3] == proto and reg[0][2] == nm
        ctx.ob('C14.D2', cc.qualname, 'registered-under-its-name', okr,
               'the connection must be registered in the client table under '
               'exactly the unique name it was given')
        inc = [e for e in p.trace if e[0] == 'setattr' and
               e[2] == 'next_id']
        ctx.ob('C14.D2', cc.qualname, 'increments-once', len(inc) == 1,
               'each new connection must consume exactly one counter value')


def true_sender(ctx):
    prog = ctx.prog
    fi = prog.func(BP + '.rawDBusMessageReceived')
    selft = ('param', 'self')
    n = 0
    for p in Interp(prog, exc_edges=False).run(fi):
        fwd = [i for i, e in enumerate(p.trace) if e[0] == 'call' and
               (e[1][1] or '').endswith('.messageReceived') or
               (e[0] == 'call' and kind(e[1][2]) == 'attr' and
                e[1][2][2] == 'messageReceived')]
        if not fwd:
            if p.outcome != 'raise':
                # the only message the connection answers itself is Hello
                answered = any(
                    (c[1] or '').endswith('.sendMessage') or (
                        kind(c[2]) == 'attr' and c[2][2] == 'sendMessage')
                    for c in p.calls())
                ctx.ob('C14.D3', fi.qualname, 'forwarded-or-answered',
                       answered,
                       'a message a client sent is neither handed to the '
                       'bus nor answered on this path [%s]: it is dropped '
                       'without a trace - delivery does not depend on what '
                       'the client wrote into the message' % '; '.join(
                           '%s is %s' % (term_str(c)[:60], pol)
                           for c, pol in p.cond[-3:]))
            continue
        n += 1
        i = fwd[0]
        msg = p.trace[i][1][3][1] if len(p.trace[i][1][3]) > 1 else None
        sets = [j for j, e in enumerate(p.trace) if e[0] == 'setattr' and
                e[2] == 'sender' and e[1] == msg and j < i]
        oks = bool(sets) and p.trace[sets[-1]][3] in (
            ('attr', selft, 'uniqueName'),
            p.state.heap.get((selft, 'uniqueName')))
        ctx.ob('C14.D3', fi.qualname, 'sender-overwritten', oks,
               'every message handed to the bus must first get sender = the '
               'connection\'s own unique name, whatever the peer wrote there')
        rm = [j for j, e in enumerate(p.trace) if e[0] == 'call' and
              ((e[1][1] or '').endswith('._marshal') or
               (kind(e[1][2]) == 'attr' and e[1][2][2] == '_marshal' and
                e[1][2][1] == msg)) and j < i and
              (not sets or j > sets[-1])]
        okm = bool(rm) and (p.trace[rm[-1]][1][3][:1] == (C(False),) or
                            dict(p.trace[rm[-1]][1][4]).get('newSerial')
                            == C(False))
        ctx.ob('C14.D3', fi.qualname, 'remarshalled-same-serial', okm,
               'after the sender is set the message must be re-marshalled '
               'with newSerial false (same serial), before it is forwarded')
        par = [c for c in p.calls() if c[1] == 'message.parseMessage']
        ctx.ob('C14.D3', fi.qualname, 'forwards-parsed-message',
               bool(par) and msg == par[0],
               'the message forwarded must be the one just parsed',
               nontrivial=False)
    if n == 0:
        raise AnalysisError('rawDBusMessageReceived never reaches '
                            'Bus.messageReceived')
    # "unchanged except the sender": the re-marshal must produce a coherent
    # message again - header and body in one byte order (C03-D4)
    from . import c03

    class Sub:
        prog = ctx.prog

        def ob(self, rule, where, slot, ok, msg, detail=None,
               nontrivial=True, loc=None):
            if slot.startswith('body-byte-order=header-byte-order') or \
                    slot.startswith('byte-order-flag'):
                ctx.ob('C14.D3', where, 'remarshal:' + slot, ok, msg, detail,
                       nontrivial)
            return ok
    mfi = ctx.prog.func('message.DBusMessage._marshal')
    sub = Sub()
    for c in c03.message_classes(ctx.prog):
        paths = Interp(ctx.prog, exc_edges=False, self_cls=c).run(mfi)
        c03.marshal_rules(sub, c, mfi, paths, ('param', 'self'))


def unicast(ctx):
    prog = ctx.prog
    fi = prog.func(B + '.messageReceived')
    msg = ('param', fi.params()[2])
    dest = ('attr', msg, 'destination')
    rows = {}
    for p in Interp(prog, exc_edges=True, fork_boolop=True).run(fi):
        if any(e[0] in ('exc-edge', 'except') for e in p.trace):
            continue
        has_dest = None
        to_bus = None
        truthy = is_none = is_empty = None
        for c, pol in p.cond:
            if c == dest:
                truthy = pol
            if kind(c) == 'cmp' and c[3] == NONE and c[2] == dest and \
                    c[1] in ('is', 'is not', '==', '!='):
                is_none = (c[1] in ('is', '==')) == pol
            if kind(c) == 'cmp' and c[2] == dest and c[3] == C('') and \
                    c[1] in ('==', '!='):
                is_empty = (c[1] == '==') == pol
            if kind(c) == 'cmp' and c[2] == dest and \
                    c[3] == C(spec.BUS_NAME) and c[1] in ('==', '!='):
                to_bus = (c[1] == '==') == pol
        if truthy is False or is_none or is_empty:
            has_dest = False
        elif truthy or to_bus or (is_none is False and is_empty is False):
            has_dest = True
        sent = any((c[1] or '').endswith('Bus.sendMessage')
                   for c in p.calls(deep=False))
        routed = any(kind(c[2]) in ('attr', 'bound') and
                     str(c[2][2]).endswith('routeMessage')
                     for c in p.calls(deep=False))
        # a path is taken by every kind of message its tests do not exclude
        # (`not dest == BUS` also holds for a message without destination)
        if has_dest is not True and to_bus is not True:
            rows.setdefault('none', set()).add((sent, routed))
        if has_dest is not False and to_bus is not False:
            rows.setdefault('bus', set()).add((sent, routed))
        if has_dest is not False and to_bus is not True:
            rows.setdefault('peer', set()).add((sent, routed))
    want = {'peer': {(True, False)}, 'bus': {(False, False)},
            'none': {(False, True)}}
    for key, w in want.items():
        got = rows.get(key, set())
        # method calls to the bus are also handled by the object handler
        ok = bool(got) and got <= w
        what = {'peer': 'a message addressed to another connection must be '
                        'sent to that connection only',
                'bus': 'a message addressed to the bus itself must be '
                       'answered by the bus and not forwarded or broadcast',
                'none': 'a message without destination (a broadcast signal) '
                        'must be routed through the match rules'}[key]
        ctx.ob('C14.D4', fi.qualname, 'destination=%s' % key, ok,
               '%s; extracted (sent to destination, handed to the broadcast '
               'router) = %s' % (what, sorted(got)))
    # resolution of the destination
    sm = prog.func(B + '.sendMessage')
    okres = False
    for p in Interp(prog, exc_edges=False).run(sm):
        for c in p.calls(deep=False):
            if kind(c[2]) == 'attr' and c[2][2] == 'sendMessage' and \
                    c[3] == (('param', sm.params()[1]),):
                okres = True
    ctx.ob('C14.D4', sm.qualname, 'delivers-to-resolved-connection', okres,
           'sendMessage must hand the message to the connection resolved '
           'from the destination name')
    # an addressed message is dropped only for want of an owner: every path
    # with a destination that hands the message to nobody must have found
    # nothing under that name in the table of connections / of name owners -
    # whatever the type of the message (replies are addressed like calls)
    mp = ('param', sm.params()[1])
    sdest = ('attr', mp, 'destination')
    selft = ('param', 'self')

    def is_lookup(t):
        while kind(t) == 'sub':
            if kind(t[1]) == 'attr' and t[1][1] == selft and t[2] == sdest:
                return True                   # self.<table>[destination]
            t = t[1]
        return kind(t) == 'call' and kind(t[2]) == 'attr' and \
            t[2][2] == 'get' and kind(t[2][1]) == 'attr' and \
            t[2][1][1] == selft and t[3] and t[3][0] == sdest
    n_drop = 0
    for p in Interp(prog, exc_edges=False).run(sm):
        addressed = any(kind(c) == 'cmp' and c[2] == sdest and c[3] == NONE
                        and (c[1] in ('is not', '!=')) == pol
                        for c, pol in p.cond) or \
            any(c == sdest and pol for c, pol in p.cond)
        if not addressed:
            continue
        # which table: connections for a unique name (':...'), name owners
        # for a well-known one - decided by the NAME alone
        uniq = None
        for c, pol in p.cond:
            if kind(c) == 'cmp' and c[1] in ('==', '!=') and \
                    c[2] == ('sub', sdest, C(0)) and c[3] == C(':'):
                uniq = (c[1] == '==') == pol
            if kind(c) == 'call' and kind(c[2]) == 'attr' and \
                    c[2][1] == sdest and c[2][2] == 'startswith' and \
                    c[3] == (C(':'),):
                uniq = pol
        looked = set()
        for t in [c for c, _ in p.cond] + [
                c[2][1] for c in p.calls(deep=False)
                if kind(c[2]) == 'attr' and c[2][2] == 'sendMessage']:
            for x in walk_term(t):
                if is_lookup(x):
                    y = x
                    while kind(y) == 'sub' and not (
                            kind(y[1]) == 'attr' and y[1][1] == selft):
                        y = y[1]
                    tbl = y[1][2] if kind(y) == 'sub' else y[2][1][2]
                    looked.add(tbl)
        if uniq is not None and looked & {'clients', 'busNames'}:
            want = 'clients' if uniq else 'busNames'
            ctx.ob('C14.D4', sm.qualname, 'table-by-kind-of-name:%s'
                   % ('unique' if uniq else 'well-known'),
                   looked & {'clients', 'busNames'} == {want},
                   'a %s destination must be resolved in self.%s; this path '
                   'looks it up in %s [%s] - a message of that type to a '
                   'name of that kind is dropped' % (
                       'unique (":...")' if uniq else 'well-known', want,
                       sorted(looked), '; '.join(
                           '%s is %s' % (term_str(c)[:50], pol)
                           for c, pol in p.cond[-3:])))
        handed = [c for c in p.calls(deep=False) if kind(c[2]) == 'attr' and
                  c[2][2] == 'sendMessage' and c[3] == (mp,)]
        if handed:
            ctx.ob('C14.D4', sm.qualname, 'receiver-is-the-owner-found',
                   all(is_lookup(c[2][1]) for c in handed),
                   'the connection the message is handed to must be what '
                   'the destination name resolves to in the bus tables; it '
                   'is %s' % term_str(handed[0][2][1])[:80])
            continue
        n_drop += 1
        why = [c for c, pol in p.cond if not pol and is_lookup(c)]
        ctx.ob('C14.D4', sm.qualname, 'dropped-only-for-want-of-an-owner',
               bool(why), 'an addressed message is handed to nobody on a '
               'path that did not find the destination unowned [%s]: it '
               'must reach the connection owning the name at that moment, '
               'whatever its type' % '; '.join(
                   '%s is %s' % (term_str(c)[:50], pol)
                   for c, pol in p.cond[-3:]))
    if n_drop == 0:
        raise AnalysisError('C14: no undelivered path in Bus.sendMessage '
                            '(anchor changed)')


def rule_lifecycle(ctx):
    prog = ctx.prog
    am = prog.func(B + '.dbus_AddMatch')
    stored = False
    for p in Interp(prog, exc_edges=False).run(am):
        if p.outcome == 'raise':
            continue
        adds = [c for c in p.calls(deep=False)
                if kind(c[2]) in ('attr', 'bound') and
                str(c[2][2]).endswith('addMatch')]
        if not adds:
            continue
        rid = adds[0]
        for ev in iter_events(p.trace):
            # caller.matchRules.add(id) / [text].append(id) / [k] = id
            if ev[0] == 'call' and rid in ev[1][3] and \
                    contains(ev[1][2], lambda x: kind(x) == 'attr' and
                             x[2] == 'matchRules'):
                stored = True
            if ev[0] == 'setsub' and contains(
                    ev[1], lambda x: kind(x) == 'attr' and
                    x[2] == 'matchRules') and (
                        ev[3] == rid or contains(ev[3],
                                                 lambda x: x == rid)):
                stored = True
            if ev[0] == 'mutate' and rid in ev[3]:
                stored = True
    ctx.ob('C14.D5', am.qualname, 'rule-id-recorded', stored,
           'the id returned by router.addMatch must be recorded on the '
           'calling connection (matchRules): clientDisconnected removes the '
           'rules it finds there, so an unrecorded rule outlives its '
           'connection and keeps writing to a dead transport')
    cd = prog.func(B + '.clientDisconnected')
    okd = False
    for p in Interp(prog, exc_edges=False).run(cd):
        for ev in iter_events(p.trace):
            if ev[0] == 'call' and kind(ev[1][2]) in ('attr', 'bound') and \
                    str(ev[1][2][2]).endswith('delMatch'):
                okd = True
    ctx.ob('C14.D5', cd.qualname, 'rules-removed-on-disconnect', okd,
           'a disconnecting client\'s match rules must be removed from the '
           'router')
    bus = prog.cls(B)
    rmf = prog.lookup_method(bus, 'dbus_RemoveMatch')
    okr = False
    if rmf is not None:
        for p in Interp(prog, exc_edges=False).run(rmf):
            for ev in iter_events(p.trace):
                if ev[0] == 'call' and kind(ev[1][2]) in ('attr', 'bound') \
                        and str(ev[1][2][2]).endswith('delMatch'):
                    okr = True
    ctx.ob('C14.D5', B, 'RemoveMatch-removes-the-rule', okr,
           'RemoveMatch must remove the caller\'s rule from the router')
    if rmf is not None:
        removematch_accounting(ctx, rmf)


def registered_implies_unregistered(ctx):
    """The bus registers a connection (unique name, client table) when its
    first message arrives - whatever that message is.  When the transport is
    lost the registration must be undone under a condition no narrower than
    that: connectionLost may skip clientDisconnected only on a path that
    established the connection was never registered (no bus attached yet, or
    no unique name).  Any other reason to skip ("never said Hello") leaves a
    dead connection owning its names: later messages to them are written to
    it and waiting clients are never promoted."""
    prog = ctx.prog
    bp = prog.cls('bus.BusProtocol')
    cl = prog.lookup_method(bp, 'connectionLost')
    selft = ('param', 'self')
    n = 0
    for p in Interp(prog, exc_edges=False, self_cls=bp,
                    fork_boolop=True).run(cl):
        if p.outcome == 'raise':
            continue
        n += 1
        calls = any((c[1] or '').endswith('.clientDisconnected') or (
            kind(c[2]) == 'attr' and c[2][2] == 'clientDisconnected')
            for c in p.calls())
        if calls:
            continue
        never = False
        for c, pol in p.cond:
            if kind(c) == 'cmp' and c[3] == NONE and c[1] in ('is', 'is not') \
                    and c[2] in (('attr', selft, 'bus'),
                                 ('attr', selft, 'uniqueName')) and \
                    ((c[1] == 'is') == pol):
                never = True
            if c in (('attr', selft, 'bus'),
                     ('attr', selft, 'uniqueName')) and not pol:
                never = True
        ctx.ob('C14.D2', cl.qualname, 'registered-implies-unregistered',
               never, 'the lost connection is not reported to the bus on a '
               'path that did not establish it was never registered (%s): '
               'its unique name and the names it owns stay in the bus tables'
               % [(term_str(c)[:40], pol) for c, pol in p.cond])
    if n == 0:
        raise AnalysisError('BusProtocol.connectionLost has no normal path')


def _is_rules_table(t):
    return kind(t) == 'attr' and t[2] == 'matchRules'


def removematch_accounting(ctx, rmf, rule_id='C14.D5'):
    """The same rule text may be added several times: RemoveMatch takes ONE
    router rule away per call, so the table entry for the text may only be
    dropped on a path where the remaining id list is known to be empty (or
    every id of it went to delMatch)."""
    prog = ctx.prog
    rule = ('param', rmf.params()[1])
    n = 0
    for p in Interp(prog, exc_edges=False).run(rmf):
        if p.outcome == 'raise':
            continue
        calls = p.calls()
        dels = [c for c in calls if kind(c[2]) in ('attr', 'bound') and
                str(c[2][2]).endswith('delMatch')]
        if not dels:
            continue
        # the id list: the value read out of the table for this rule text
        lists = []
        for c in calls:
            if kind(c[2]) == 'attr' and _is_rules_table(c[2][1]) and \
                    c[2][2] in ('get', 'pop', 'setdefault') and c[3] and \
                    c[3][0] == rule:
                lists.append(c)
        for t in [x for c in dels for x in c[3]]:
            for sub in walk_term(t):
                if kind(sub) == 'sub' and _is_rules_table(sub[1]) and \
                        sub[2] == rule and sub not in lists:
                    lists.append(sub)
        dropped = any(
            ev[0] == 'delsub' and _is_rules_table(ev[1]) and ev[2] == rule
            for ev in iter_events(p.trace)) or any(
                kind(c[2]) == 'attr' and _is_rules_table(c[2][1]) and
                c[2][2] == 'pop' and c[3] and c[3][0] == rule for c in calls)
        in_loop = any(
            ev[0] == 'loop' and any(ev[3] == L or contains(
                ev[3], lambda x, L=L: x == L) for L in lists) and any(
                    kind(c[2]) in ('attr', 'bound') and
                    str(c[2][2]).endswith('delMatch')
                    for bp in ev[4] for c in bp.calls())
            for ev in p.trace)
        n += 1
        if not dropped:
            continue
        empty = False
        for L in lists:
            last = [pol for c, pol in p.cond if c == L]
            if last and last[-1] is False:
                empty = True
            for c, pol in p.cond:
                # len(L) == 0 / not len(L)
                if contains(c, lambda x, L=L: x == L) and kind(c) in (
                        'cmp', 'call') and 'len' in term_str(c):
                    v = subst_fold(c, {('call', 'len', ('builtin', 'len'),
                                        (L,), (), None): C(0)})
                    if truth(v) is not None and truth(v) == pol:
                        empty = True
        ctx.ob(rule_id, rmf.qualname, 'entry-dropped-only-when-no-id-left',
               empty or in_loop,
               'RemoveMatch takes one router rule away, but on this path '
               'the table entry for the rule text is dropped while ids may '
               'remain in it: a text added twice can then be removed only '
               'once, the second rule stays in the router for good (and is '
               'not cleaned up on disconnect)')
    if n == 0:
        ctx.ob(rule_id, rmf.qualname, 'entry-dropped-only-when-no-id-left',
               False, 'no path of RemoveMatch removes a router rule')


def stub_skeleton(ctx):
    prog = ctx.prog
    from ..codec import CodecModel
    bus = prog.cls(B)
    # declared interface: Method('Name', arguments='..', returns='..')
    decl = {}
    node = bus.attrs.get('stdIface')
    if not isinstance(node, ast.Call):
        raise AnalysisError('Bus.stdIface is not a literal DBusInterface')
    for a in node.args[1:]:
        if isinstance(a, ast.Call) and isinstance(a.func, ast.Name) and \
                a.func.id == 'Method' and a.args and \
                isinstance(a.args[0], ast.Constant):
            kw = {k.arg: k.value.value for k in a.keywords
                  if isinstance(k.value, ast.Constant)}
            pos = [x.value for x in a.args[1:]
                   if isinstance(x, ast.Constant)]
            args = kw.get('arguments', pos[0] if pos else '')
            decl[a.args[0].value] = args
    # client stubs: callRemote(path, 'Member', interface='org.freedesktop.DBus',
    # signature=..)
    cls = prog.cls('client.DBusClientConnection')
    used = {}
    for fi in cls.methods.values():
        for n in prog._iter_scope(fi.node):
            if isinstance(n, ast.Call) and isinstance(n.func, ast.Attribute) \
                    and n.func.attr == 'callRemote' and len(n.args) >= 2 and \
                    isinstance(n.args[1], ast.Constant):
                kw = {k.arg: k.value for k in n.keywords}
                iface = kw.get('interface')
                if isinstance(iface, ast.Constant) and \
                        iface.value == spec.BUS_NAME:
                    sig = kw.get('signature')
                    used[n.args[1].value] = (
                        sig.value if isinstance(sig, ast.Constant) else '',
                        fi.qualname)
    # the same through the interpreter (a stub may go through a helper that
    # supplies the bus path / interface, or take them from constants)
    known = prog.known_funcs() or set()
    for fi in cls.methods.values():
        if fi.qualname not in known and known:
            continue            # helpers are seen inlined in their callers
        try:
            paths = Interp(prog, exc_edges=False, max_paths=3000).run(fi)
        except AnalysisError:
            continue
        for p in paths:
            for c in p.calls():
                if not ((c[1] or '').endswith('.callRemote') or (
                        kind(c[2]) in ('attr', 'bound') and
                        str(c[2][2]).endswith('callRemote'))):
                    continue
                if len(c[3]) < 2 or not is_const(c[3][1]):
                    continue
                kw = dict(c[4])
                if kw.get('interface') != C(spec.BUS_NAME):
                    continue
                sig = kw.get('signature')
                used.setdefault(c[3][1][1], (
                    sig[1] if sig is not None and is_const(sig) and
                    isinstance(sig[1], str) else '', fi.qualname))

    def count_types(sig):
        # number of complete types of a simple signature (as used by the
        # stubs: basic codes only)
        return len(sig)
    for member, (sig, where) in sorted(used.items()):
        ok = member in decl and (decl[member] or '') == (sig or '')
        ctx.ob('C14.D6', where, 'declared:%s' % member, ok,
               'the client calls org.freedesktop.DBus.%s with signature %r; '
               'the bus declares %s' % (member, sig, repr(decl.get(member))
                                        if member in decl else 'nothing'))
        impl = prog.lookup_method(bus, 'dbus_' + member)
        if member == 'Hello':
            ctx.ob('C14.D6', BP + '.rawDBusMessageReceived',
                   'implemented:Hello', True,
                   'Hello is answered by the connection itself',
                   nontrivial=False)
            continue
        oki = impl is not None
        if oki:
            ps = [p_ for p_ in impl.params()[1:] if p_ != 'dbusCaller']
            oki = len(ps) == count_types(sig or '')
        ctx.ob('C14.D6', B, 'implemented:%s' % member, oki,
               'org.freedesktop.DBus.%s is declared and called by the client '
               'but %s' % (member, 'not implemented by the bus '
                           '(NotImplementedError -> error reply)'
                           if impl is None else 'implemented with a '
                           'different number of arguments'))


def no_deferral(ctx):
    prog = ctx.prog
    path = [BP + '.rawDBusMessageReceived', B + '.messageReceived',
            B + '.sendMessage', 'protocol.BasicDBusProtocol.sendMessage']
    for q in path:
        fi = prog.func(q)
        bad = []
        for n in prog._iter_scope(fi.node):
            if isinstance(n, ast.Call):
                s = ast.unparse(n.func)
                if s.split('.')[-1] in ('callLater', 'deferLater',
                                        'Deferred', 'callFromThread',
                                        'addCallback', 'maybeDeferred'):
                    bad.append(s)
        ctx.ob('C14.D7', q, 'forwards-synchronously', not bad,
               'the forwarding path must not defer (%s): messages of one '
               'sender could overtake each other' % bad)
