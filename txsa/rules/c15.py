"""C15 - introspection XML round trip: agreement of the XML writer
(DBusInterface._getXml, generateIntrospectionXML) and reader
(IntrospectionHandler) on element/attribute vocabulary, value vocabularies,
counters and known-interface reuse."""
import ast
import re

from ..loader import AnalysisError
from ..sym import (C, NONE, Interp, State, contains, from_py, is_const,
                   iter_events, kind, term_str, walk_term)

IH = 'introspection.IntrospectionHandler'
META = {
    'level': 'other',
    'rule_text': 'Instances: one per (element, attribute) the reader '
                 'indexes; one per access value and per direction value '
                 'pushed through the reader by constant folding; one per '
                 'path of start_arg; the four rows of the reuse table.',
    'explanation': 'Writer/reader agreement extracted from the source: the '
                   'element and attribute vocabulary of the XML templates in '
                   '_getXml / generateIntrospectionXML covers everything the '
                   'SAX handler indexes, in context (method arguments carry '
                   'a direction); every access mode the writer can emit is '
                   'mapped back to the same access mode by the reader '
                   '(start_property folded on each value, through '
                   'Property.__init__); direction "in" feeds the input '
                   'signature and counter, anything else the output ones, '
                   'in the same branch; arguments are emitted per complete '
                   'type through genCompleteTypes; a known interface is '
                   'reused exactly when replacement was not requested. '
                   'Equality of declared and recovered interfaces for '
                   'arbitrary signatures (depends on the splitter, C19) is '
                   'NOT decided.',
    'trusted_base': ['xml.sax delivers start/end events with the attribute '
                     'values as written', 'txsa.sym interpreter',
                     'CPython ast'],
    'assumptions': ['names and signatures contain no XML metacharacters '
                    '(the writer does not escape)'],
    'decided': ['D1 element/attribute vocabulary',
                'D2 value vocabularies (direction, access) round-trip',
                'D3 per-complete-type emission and counter/signature '
                'pairing; parse state is per parse (no class-level container)',
                'D5 every change of the member tables drops the cached XML; the assembled answer is not kept by the call handler', 'D4 known-interface reuse polarity'],
    'undecided': ['equality of declared and recovered interfaces for '
                  'arbitrary signatures'],
}

TAG_RE = re.compile(r'<([A-Za-z]+)((?:\s+[A-Za-z_.]+="[^"]*")*)\s*/?>')
ATTR_RE = re.compile(r'([A-Za-z_.]+)="([^"]*)"')


def string_templates(fnode):
    """All string templates in a function: constants, f-strings (holes
    replaced by %s), with their enclosing loop context."""
    out = []

    def text_of(n):
        if isinstance(n, ast.Constant) and isinstance(n.value, str):
            return n.value
        if isinstance(n, ast.JoinedStr):
            return ''.join(v.value if isinstance(v, ast.Constant) else '%s'
                           for v in n.values)
        return None

    def walk(n, ctxstack):
        t = text_of(n)
        if t is not None and '<' in t:
            out.append((t, list(ctxstack)))
            return
        for ch in ast.iter_child_nodes(n):
            if isinstance(n, ast.For) and ch in n.body:
                walk(ch, ctxstack + [ast.unparse(n.iter)])
            else:
                walk(ch, ctxstack)
    walk(fnode, [])
    return out


def with_helpers(prog, fi):
    """For rules that read a function's syntax: the function together with
    the helpers it was split into - methods of its class called on `self` and
    functions of its module called by name that did not exist when the rules
    were written (a wrapper/core split, an extracted builder) - as ONE
    synthetic FunctionDef (helper bodies first)."""
    known = prog.known_funcs() or frozenset()
    seen, order = {fi.qualname}, []

    def visit(f):
        for n in ast.walk(f.node):
            if not isinstance(n, ast.Call):
                continue
            g = None
            if isinstance(n.func, ast.Attribute) and \
                    isinstance(n.func.value, ast.Name) and \
                    n.func.value.id == 'self' and f.cls is not None:
                g = prog.lookup_method(f.cls, n.func.attr)
            elif isinstance(n.func, ast.Name):
                g = f.module.funcs.get(n.func.id)
            if g is not None and g.qualname not in known and \
                    g.qualname not in seen and g.parent is None:
                seen.add(g.qualname)
                visit(g)
                order.append(g)
    visit(fi)
    if not order:
        return fi.node
    body = [st for g in order for st in g.node.body] + list(fi.node.body)
    merged = ast.FunctionDef(name=fi.node.name, args=fi.node.args, body=body,
                             decorator_list=[], lineno=fi.node.lineno,
                             col_offset=0)
    return ast.fix_missing_locations(merged)


def answers_not_cached(ctx):
    """The text an interface contributes is cached in its `_xml` slot and
    dropped by every add* / del* (D5).  A SECOND cache further up - the call
    handler keeping the assembled Introspect answer per path - is reset by
    nothing when an interface of an exported object changes: the stale text
    keeps being served.  The generated document must not be stored on the
    handler."""
    prog = ctx.prog
    n = 0
    for fi in prog.all_funcs.values():
        if fi.module.name != 'objects':
            continue
        held = set()
        for node in prog._iter_scope(fi.node):
            if isinstance(node, ast.Assign) and \
                    isinstance(node.value, ast.Call) and \
                    isinstance(node.value.func, (ast.Attribute, ast.Name)) \
                    and (getattr(node.value.func, 'attr', None) or
                         getattr(node.value.func, 'id', '')) == \
                    'generateIntrospectionXML':
                held.update(t.id for t in node.targets
                            if isinstance(t, ast.Name))
        if not held:
            continue
        n += 1
        kept = []
        for node in prog._iter_scope(fi.node):
            if isinstance(node, ast.Assign):
                v = node.value
                if isinstance(v, ast.Name) and v.id in held:
                    for t in node.targets:
                        base = t.value if isinstance(t, ast.Subscript) else t
                        if isinstance(base, ast.Attribute) and \
                                isinstance(base.value, ast.Name) and \
                                base.value.id == 'self':
                            kept.append('%s (line %d)' % (ast.unparse(t),
                                                          node.lineno))
            if isinstance(node, ast.Call) and \
                    isinstance(node.func, ast.Attribute) and \
                    node.func.attr in ('setdefault', 'update', 'append') and \
                    isinstance(node.func.value, ast.Attribute) and \
                    isinstance(node.func.value.value, ast.Name) and \
                    node.func.value.value.id == 'self' and any(
                        isinstance(a, ast.Name) and a.id in held
                        for a in node.args):
                kept.append('%s (line %d)' % (ast.unparse(node)[:40],
                                              node.lineno))
        ctx.ob('C15.D5', fi.qualname, 'answer-not-kept-by-the-handler',
               not kept, 'the generated introspection document is stored in '
               '%s: nothing resets that copy when an interface of an exported '
               'object gains or loses a member, so later Introspect calls '
               'are answered with the old declaration' % kept[:2])
    if n == 0:
        raise AnalysisError('objects.py never calls generateIntrospectionXML')


def run(ctx):
    prog = ctx.prog
    gx = prog.func('interface.DBusInterface._getXml')
    gi = prog.func('introspection.generateIntrospectionXML')
    gx_node = with_helpers(prog, gx)
    gi_node = with_helpers(prog, gi)
    # writer vocabulary, with the element that encloses it
    writer = {}       # element -> list of (attrs dict, enclosing element)
    order = []
    # linear scan in source order to recover nesting
    def scan(fnode):
        stack = []
        for text, loops in templates_in_order(fnode):
            for m in re.finditer(r'<(/?)([A-Za-z]+)((?:\s+[A-Za-z_.]+="[^"]*")*)\s*(/?)>', text):
                close, name, attrs, selfclose = m.groups()
                if close:
                    if stack and stack[-1] == name:
                        stack.pop()
                    continue
                ad = dict(ATTR_RE.findall(attrs))
                writer.setdefault(name, []).append(
                    (ad, stack[-1] if stack else None, loops))
                if not selfclose:
                    stack.append(name)
    scan(gx_node)
    scan(gi_node)
    mod = prog.module('introspection')
    intro = mod.assigns.get('_intro')
    if intro and isinstance(intro[0], ast.Constant):
        for m in re.finditer(r'<([A-Za-z]+)((?:\s+[A-Za-z_.]+="[^"]*")*)\s*/?>',
                             intro[0].value):
            writer.setdefault(m.group(1), []).append(
                (dict(ATTR_RE.findall(m.group(2))), 'const', []))
    ctx.extra['writer_vocabulary'] = {
        k: sorted({a for ad, _, _ in v for a in ad}) for k, v in
        writer.items()}
    # reader requirements --------------------------------------------------------
    h = prog.cls(IH)
    reader = {}
    for name, fi in h.methods.items():
        if not name.startswith('start_'):
            continue
        elem = name[len('start_'):]
        req = {}
        attrs_p = ('param', fi.params()[1])
        for p in Interp(prog, exc_edges=False).run(fi):
            keys = set()
            terms = [c for c, _ in p.cond]
            for ev in iter_events(p.trace):
                if ev[0] == 'call':
                    terms.append(ev[1])
                elif ev[0] == 'setattr':
                    terms.append(ev[3])
            for t0 in terms:
                for t in walk_term(t0):
                    if kind(t) == 'sub' and t[1] == attrs_p and \
                            is_const(t[2]):
                        keys.add(t[2][1])
            ism = ('attr', ('param', 'self'), 'isMethod')
            ctxk = 'method' if ism in p.state.truthy else (
                'other' if ism in p.state.falsy else 'any')
            for k in keys:
                req.setdefault(k, set()).add(ctxk)
        reader[elem] = req
    ctx.extra['reader_requirements'] = {k: {a: sorted(c) for a, c in
                                            v.items()}
                                        for k, v in reader.items()}
    for elem, req in sorted(reader.items()):
        if not req:
            continue
        emitted = writer.get(elem, [])
        ctx.ob('C15.D1', IH + '.start_' + elem, 'element:%s' % elem,
               bool(emitted), 'the reader handles <%s> but the writer never '
               'emits it' % elem)
        for attr, ctxs in sorted(req.items()):
            if elem == 'arg' and attr == 'direction':
                inst = [ad for ad, enc, _ in emitted if enc == 'method']
                ok = bool(inst) and all('direction' in ad for ad in inst)
                ctx.ob('C15.D1', gx.qualname, 'attr:arg.direction', ok,
                       'method arguments must carry a direction attribute '
                       '(the reader indexes it for methods)')
                continue
            inst = [ad for ad, enc, _ in emitted if enc != 'const']
            ok = bool(inst) and all(attr in ad for ad in inst)
            ctx.ob('C15.D1', gx.qualname, 'attr:%s.%s' % (elem, attr), ok,
                   'every <%s> the writer emits must carry the attribute %r '
                   'the reader indexes' % (elem, attr))
    # D3 writer: per-complete-type emission -----------------------------------------
    # functions of the writer's module that only hand their argument to the
    # splitter (possibly caching the tuple) split like the splitter
    splitters = {'genCompleteTypes'}
    grew = True
    while grew:
        grew = False
        for fname, f2 in gx.module.funcs.items():
            if fname in splitters or len(f2.params()) != 1:
                continue
            prm = f2.params()[0]
            rets = [n.value for n in ast.walk(f2.node)
                    if isinstance(n, ast.Return) and n.value is not None]

            def splits(v):
                while isinstance(v, ast.Call) and \
                        isinstance(v.func, ast.Name) and \
                        v.func.id in ('tuple', 'list', 'iter') and \
                        len(v.args) == 1:
                    v = v.args[0]
                if not isinstance(v, ast.Call) or len(v.args) != 1 or \
                        not (isinstance(v.args[0], ast.Name) and
                             v.args[0].id == prm):
                    return False
                f = v.func
                nm = f.id if isinstance(f, ast.Name) else (
                    f.attr if isinstance(f, ast.Attribute) else None)
                return nm in splitters
            if rets and all(splits(v) for v in rets):
                splitters.add(fname)
                grew = True
    for ad, enc, loops in writer.get('arg', []):
        if enc == 'const':
            continue
        want = {('method', 'in'): 'sigIn', ('method', 'out'): 'sigOut',
                ('signal', None): 'sig'}.get((enc, ad.get('direction')))
        ok = want is not None and any(
            any(sp + '(' in l for sp in splitters) and
            l.rstrip(')').endswith('.' + want) for l in loops)
        ctx.ob('C15.D3', gx.qualname, 'arg-per-complete-type:%s:%s' % (
            enc, ad.get('direction')), ok,
            'one <arg> must be emitted per complete type of %s (through '
            'genCompleteTypes); loops: %s' % (want, loops))
        if enc == 'method':
            ctx.ob('C15.D2', gx.qualname, 'direction-value:%s' % ad.get(
                'direction'), ad.get('direction') in ('in', 'out'),
                'argument direction must be "in" or "out"',
                nontrivial=False)
    # D3 reader: counter and signature move together ----------------------------------
    sa = h.methods.get('start_arg')
    selft = ('param', 'self')
    member = ('attr', selft, 'member')
    if sa is None:
        raise AnalysisError('anchor vanished: %s.start_arg' % IH)
    attrs_p = ('param', sa.params()[1])
    n_arg = 0
    for p in Interp(prog, exc_edges=False).run(sa):
        sets = {e[2]: e[3] for e in p.trace if e[0] == 'setattr' and
                e[1] == member}
        ism = ('attr', selft, 'isMethod')
        is_method = ism in p.state.truthy
        dir_in = None
        for c, pol in p.cond:
            if kind(c) == 'cmp' and c[1] in ('==', '!=') and \
                    c[2] == ('sub', attrs_p, C('direction')):
                eq = pol if c[1] == '==' else not pol
                if c[3] == C('in'):
                    dir_in = eq
                elif c[3] == C('out'):
                    dir_in = not eq
        n_arg += 1
        if is_method:
            want = ('nargs', 'sigIn') if dir_in else ('nret', 'sigOut')
        else:
            want = ('nargs', 'sig')
        ok = set(sets) == set(want)
        tag = 'method-%s' % ('in' if dir_in else 'out') if is_method \
            else 'signal'
        ctx.ob('C15.D3', sa.qualname, 'counter-with-signature:' + tag, ok,
               'an <arg> of a %s must extend %s and increment %s in the '
               'same branch; this path updates %s' % (
                   tag, want[1], want[0], sorted(sets)))
        if ok:
            cnt, sg = sets[want[0]], sets[want[1]]
            okv = cnt == ('binop', '+', ('attr', member, want[0]), C(1)) \
                and kind(sg) == 'binop' and sg[1] == '+' and \
                sg[2] == ('attr', member, want[1]) and contains(
                    sg[3], lambda x: x == ('sub', attrs_p, C('type')))
            ctx.ob('C15.D3', sa.qualname, 'appends-type:' + tag, okv,
                   'the argument\'s type attribute must be appended to the '
                   'signature and the counter incremented by one')
    # D2 access round trip ------------------------------------------------------------
    sp = h.methods.get('start_property')
    if sp is None:
        raise AnalysisError('anchor vanished: %s.start_property' % IH)
    from .c17 import ACCESS
    inl = lambda q, d: q == 'interface.Property.__init__'
    for a in ACCESS:
        attrs = from_py({'name': 'p', 'type': 's', 'access': a})
        got = set()
        for p in Interp(prog, exc_edges=False, inline=inl).run(
                sp, {sp.params()[1]: attrs}):
            m = p.state.heap.get((selft, 'member'))
            acc = p.state.heap.get((m, 'access')) if m is not None else None
            got.add(acc[1] if is_const(acc) else term_str(acc)
                    if acc is not None else None)
        ctx.ob('C15.D2', sp.qualname, 'access-roundtrip:%s' % a, got == {a},
               'a property written with access="%s" is read back with '
               'access %s' % (a, sorted(map(str, got))))
    # the writer writes Property.access
    acc_ok = any('access' in ad and enc != 'const'
                 for ad, enc, _ in writer.get('property', []))
    ctx.ob('C15.D2', gx.qualname, 'writes-access-mode',
           acc_ok and any(isinstance(n_, ast.Attribute) and
                          n_.attr == 'access' and
                          isinstance(n_.ctx, ast.Load)
                          for n_ in ast.walk(gx_node)),
           'the property element must carry the access mode of the '
           'Property', nontrivial=False)
    # D4 reuse polarity ---------------------------------------------------------------
    si = h.methods.get('start_interface')
    init = h.methods.get('__init__')
    skip_pol = None
    for p in Interp(prog, exc_edges=False).run(init):
        v = p.state.heap.get((selft, 'skipKnown'))
        rp = ('param', init.params()[1])
        if v == ('unop', 'not', rp):
            skip_pol = 'not-replace'
        elif v == rp:
            skip_pol = 'replace'
    ctx.ob('C15.D4', init.qualname, 'skipKnown-is-not-replace',
           skip_pol == 'not-replace',
           'known interfaces must be skipped exactly when replacement was '
           'NOT requested')
    rows = {}
    for p in Interp(prog, exc_edges=False).run(si):
        known = None
        skipk = None
        for c, pol in p.cond:
            if kind(c) == 'cmp' and c[1] in ('in', 'not in') and contains(
                    c[3], lambda x: kind(x) == 'attr' and
                    x[2] == 'knownInterfaces'):
                known = (c[1] == 'in') == pol
            # knownInterfaces.get(name) is not None / truthy
            g = c[2] if kind(c) == 'cmp' and c[3] == NONE and \
                c[1] in ('is', 'is not') else c
            if kind(g) == 'call' and kind(g[2]) == 'attr' and \
                    g[2][2] == 'get' and contains(
                        g[2][1], lambda x: kind(x) == 'attr' and
                        x[2] == 'knownInterfaces'):
                known = pol if g is c else ((c[1] == 'is not') == pol)
            if c == ('attr', selft, 'skipKnown'):
                skipk = pol
        reused = any(e[0] == 'setattr' and e[2] == 'skip' and
                     e[3] == C(True) for e in p.trace)
        created = any(c[1] == 'interface.DBusInterface' for c in p.calls())
        for k in ((True, False) if known is None else (known,)):
            for s_ in ((True, False) if skipk is None else (skipk,)):
                if known is False and skipk is None and k:
                    continue
                rows.setdefault((k, s_), set()).add(
                    'reuse' if reused and not created else 'create')
    for k in (True, False):
        for s_ in (True, False):
            want = 'reuse' if (k and s_) else 'create'
            ctx.ob('C15.D4', si.qualname, 'known=%s,skipKnown=%s' % (k, s_),
                   rows.get((k, s_)) == {want},
                   'interface known=%s, skip-known=%s must %s the '
                   'definition; extracted: %s' % (
                       k, s_, want, sorted(rows.get((k, s_), []))))
    from .c09 import per_instance_registries
    per_instance_registries(
        ctx, 'C15.D3', ('introspection', 'interface'),
        'the interfaces parsed from one XML document include those of '
        'every document parsed before')
    cache_invalidation(ctx)
    answers_not_cached(ctx)
    members_filed(ctx)
    # the document lists the interfaces getInterfaces() yields for THAT
    # object's class: a per-class memo of them must be looked up in the
    # class's own __dict__ (a subclass otherwise serves its parent's list)
    from .common import class_memo_not_inherited
    class_memo_not_inherited(
        ctx, 'C15.D5', ('objects',),
        'the introspection document of a subclass lacks the interfaces the '
        'subclass adds')
    ctx.floor('C15.D5', 4)
    ctx.floor('C15.D1', 8)
    ctx.floor('C15.D2', 4)
    ctx.floor('C15.D3', 5)
    ctx.floor('C15.D4', 5)


def members_filed(ctx):
    """C15.D1 `member-filed:<kind>`: the reader records every member the
    document declares.  `end_<kind>` must hand `self.member` to the
    interface's `add<Kind>` on every path; a path that does not is accepted
    only as a de-duplication *within that kind and that interface*: its guard
    is a membership test in the interface's own table of that kind, or in a
    container of the reader that only `end_<kind>` fills and that
    `start_interface` empties whenever it starts a new interface.  (Methods,
    signals and properties have separate name spaces: `Seek` the method and
    `Seek` the signal are two members.)"""
    prog = ctx.prog
    ih = prog.cls(IH)
    selft = ('param', 'self')
    iface_t = ('attr', selft, 'iface')
    member_t = ('attr', selft, 'member')
    di = prog.cls('interface.DBusInterface')
    kinds = (('method', 'addMethod'), ('signal', 'addSignal'),
             ('property', 'addProperty'))
    enders = {k: prog.lookup_method(ih, 'end_' + k) for k, _ in kinds}

    def fills(attr):
        """names of the reader's methods from which self.<attr> grows"""
        out = set()
        for name, f in ih.methods.items():
            if not name.startswith(('start_', 'end_')):
                continue       # helpers are reached through the handlers
            for p in Interp(prog, exc_edges=False, self_cls=ih,
                            max_paths=400).run(f):
                for c in p.calls(deep=True):
                    if kind(c[2]) == 'attr' and c[2][1] == (
                            'attr', selft, attr) and c[2][2] in (
                                'add', 'append', 'update', 'extend',
                                'setdefault', 'insert'):
                        out.add(name)
                for e in iter_events(p.trace, deep=True):
                    if e[0] == 'setsub' and e[1] == ('attr', selft, attr):
                        out.add(name)
        return out

    def emptied_with_new_interface(attr):
        si = prog.lookup_method(ih, 'start_interface')
        if si is None:
            return False
        ok = None
        for p in Interp(prog, exc_edges=False, self_cls=ih).run(si):
            new = [e for e in iter_events(p.trace, deep=True)
                   if e[0] == 'setattr' and e[1] == selft and
                   e[2] == 'iface']
            if not new:
                continue
            fresh = [e for e in iter_events(p.trace, deep=True)
                     if e[0] == 'setattr' and e[1] == selft and e[2] == attr
                     and (e[3] in (('set', ()), ('list', ()), ('dict', ()))
                          or (kind(e[3]) == 'call' and e[3][1] in (
                              'set', 'list', 'dict') and not e[3][3]))]
            ok = bool(fresh) if ok is None else (ok and bool(fresh))
        return bool(ok)
    for k, adder in kinds:
        fi = enders[k]
        if fi is None:
            raise AnalysisError('anchor vanished: %s.end_%s' % (IH, k))
        afi = prog.lookup_method(di, adder)
        table = None
        if afi is not None:
            for p in Interp(prog, exc_edges=False).run(afi):
                for e in p.trace:
                    if e[0] == 'setsub' and kind(e[1]) == 'attr' and \
                            e[1][1] == selft:
                        table = e[1][2]
        n = 0
        for p in Interp(prog, exc_edges=False, self_cls=ih).run(fi):
            if p.outcome == 'raise':
                continue
            n += 1
            adds = [c for c in p.calls(deep=True) if kind(c[2]) == 'attr'
                    and c[2][2] == adder and c[2][1] == iface_t and
                    c[3] == (member_t,)]
            ok = len(adds) == 1
            why = ''
            if not adds:
                why = 'no guard that is a membership test'
                for c, pol in p.cond:
                    if kind(c) != 'cmp' or c[1] not in ('in', 'not in') or \
                            (c[1] == 'in') != pol:
                        continue
                    cont = c[3]
                    if kind(cont) == 'call' and kind(cont[2]) == 'attr' \
                            and cont[2][2] in ('keys',):
                        cont = cont[2][1]
                    if table and cont == ('attr', iface_t, table):
                        ok = True
                    elif kind(cont) == 'attr' and cont[1] == selft:
                        who = fills(cont[2])
                        if who <= {'end_' + k} and \
                                emptied_with_new_interface(cont[2]):
                            ok = True
                        else:
                            why = ('the guard looks in self.%s, which is '
                                   'filled from %s%s' % (
                                       cont[2], sorted(who) or 'nowhere',
                                       '' if emptied_with_new_interface(
                                           cont[2]) else
                                       ' and is not emptied when a new '
                                       'interface starts'))
            ctx.ob('C15.D1', fi.qualname, 'member-filed:%s' % k, ok,
                   'the reader does not record a declared %s on this path '
                   '(%s): each kind of member has a name space of its own - '
                   'a %s named like a member of another kind, or like a '
                   'member of an earlier interface, is lost from the parsed '
                   'interface' % (k, why, k))
        if not n:
            raise AnalysisError('%s: no path' % fi.qualname)


def cache_invalidation(ctx):
    """The introspection XML of an interface is generated once and cached
    (`_getXml`).  The XML sent to a peer describes the declared interface
    only if every change of the tables the generator reads drops the cache
    on every path."""
    prog = ctx.prog
    cls = prog.cls('interface.DBusInterface')
    gx = prog.lookup_method(cls, '_getXml')
    gx_node = with_helpers(prog, gx)
    selft = ('param', 'self')
    cache = {t.attr for n in ast.walk(gx_node) if isinstance(n, ast.Assign)
             for t in n.targets if isinstance(t, ast.Attribute) and
             isinstance(t.value, ast.Name) and t.value.id == 'self'}
    if len(cache) != 1:
        raise AnalysisError('_getXml: the cache attribute was not '
                            'recognised (%s)' % sorted(cache))
    cattr = next(iter(cache))
    sources = {n.attr for n in ast.walk(gx_node)
               if isinstance(n, ast.Attribute) and
               isinstance(n.ctx, ast.Load) and
               isinstance(n.value, ast.Name) and n.value.id == 'self'} - \
        {cattr}
    tables = set()
    n = 0
    for k in prog.subclasses(cls):
        for fi in k.methods.values():
            if fi.node.name in ('__init__', '_getXml'):
                continue
            for p in Interp(prog, exc_edges=False).run(fi):
                if p.outcome == 'raise':
                    continue
                touched = []
                for ev in iter_events(p.trace):
                    tgt = None
                    if ev[0] in ('setsub', 'delsub'):
                        tgt = ev[1]
                    elif ev[0] == 'call' and kind(ev[1][2]) == 'attr' and \
                            ev[1][2][2] in ('pop', 'update', 'clear',
                                            'setdefault', 'popitem'):
                        tgt = ev[1][2][1]
                    elif ev[0] == 'setattr' and ev[1] == selft and \
                            ev[2] in sources:
                        touched.append(ev[2])
                    if kind(tgt) == 'attr' and tgt[1] == selft and \
                            tgt[2] in sources:
                        touched.append(tgt[2])
                if not touched:
                    continue
                tables.update(touched)
                n += 1
                ok = p.state.heap.get((selft, cattr)) == NONE
                ctx.ob('C15.D5', fi.qualname, 'drops-cached-xml', ok,
                       'self.%s is changed on this path but the cached '
                       'introspection XML (self.%s) is not reset to None: a '
                       'peer that introspects after the XML was generated '
                       'once gets the OLD description (a declared member is '
                       'missing from every proxy built from it)'
                       % (sorted(set(touched))[0], cattr))
    ctx.extra['xml_cache'] = {'cache_attr': cattr,
                              'generator_reads': sorted(sources),
                              'tables_changed_somewhere': sorted(tables)}


def templates_in_order(fnode):
    """(template text, enclosing for-iter sources) in source order."""
    out = []

    def text_of(n):
        if isinstance(n, ast.Constant) and isinstance(n.value, str):
            return n.value
        if isinstance(n, ast.JoinedStr):
            return ''.join(v.value if isinstance(v, ast.Constant) else '%s'
                           for v in n.values)
        return None

    def walk(n, loops):
        t = text_of(n)
        if t is not None:
            if '<' in t:
                out.append((getattr(n, 'lineno', 0),
                            getattr(n, 'col_offset', 0), t, list(loops)))
            return
        if isinstance(n, ast.For):
            for ch in ast.iter_child_nodes(n):
                if ch in n.body:
                    walk(ch, loops + [ast.unparse(n.iter)])
                else:
                    walk(ch, loops)
            return
        if isinstance(n, (ast.ListComp, ast.GeneratorExp, ast.SetComp)):
            # [<template> for x in <iter>]: the element is written once per
            # element of the iterable, like the body of a for statement
            inner = loops + [ast.unparse(g.iter) for g in n.generators]
            walk(n.elt, inner)
            for g in n.generators:
                walk(g.iter, loops)
            return
        for ch in ast.iter_child_nodes(n):
            walk(ch, loops)
    walk(fnode, [])
    out.sort(key=lambda x: (x[0], x[1]))
    # implicit string concatenation of adjacent constants is one node
    return [(t, l) for _, _, t, l in out]
