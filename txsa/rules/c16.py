"""C16 - the exported-object tree seen remotely is exactly what was exported:
ownership of the export table, one announcement per (un)export, separator-
aware descendant / child selection evaluated on a fixed table of path pairs by
constant folding of the extracted tests."""
import ast

from ..loader import AnalysisError
from ..sym import (C, NONE, Interp, State, contains, is_const, iter_events,
                   kind, subst_fold, term_str, truth, walk_term)
from .c12 import prefix_rules

H = 'objects.DBusObjectHandler'
OM = 'org.freedesktop.DBus.ObjectManager'

META = {
    'level': 'other',
    'rule_text': 'Instances: every access to the export table; every path '
                 'of exportObject / unexportObject; the descendant test of '
                 'getManagedObjects and the child computation of '
                 'generateIntrospectionXML evaluated on a table of (exported '
                 'path, queried path) pairs; every prefix test between path-'
                 'valued operands.',
    'explanation': 'The export table is written only by exportObject / '
                   'unexportObject (and its initialiser); each of them '
                   'updates the table under the object\'s own path and sends '
                   'exactly one InterfacesAdded / InterfacesRemoved signal '
                   'built from that path and the object\'s interfaces on '
                   'every path; the "strictly beneath" test of '
                   'GetManagedObjects and the immediate-child computation of '
                   'introspection are extracted and evaluated by constant '
                   'folding on a fixed table of path pairs that includes '
                   'siblings sharing a textual prefix, the path itself, the '
                   'root and grandchildren; introspection returns None '
                   'exactly when there is neither object nor child. '
                   'Exactness over histories of export/unexport follows by '
                   'induction over these handler-local facts and is not '
                   'explored.',
    'trusted_base': ['txsa.sym interpreter', 'CPython ast',
                     'ObjectManager interface names'],
    'assumptions': [],
    'decided': ['D1 ownership of the export table; answers cached by the call '
                'handler are reset wholesale whenever the table changes',
                'D2 one announcement per export / unexport',
                'D3 descendants are selected hierarchically; both reporters take the properties of every interface from getAllProperties, which leaves out a readable property only if it was collected already (C17.D1/D4 re-reported); loops over the export table that call into exported objects iterate a snapshot',
                'D4 immediate children (each listed once: de-duplicated '
                'against the whole list) / no-such-path'],
    'undecided': ['exactness over histories of export and unexport'],
}

# (exported path, queried path, strictly beneath?, immediate child name)
PAIRS = [
    ('/a/b', '/a', True, 'b'), ('/a/b/c', '/a', True, 'b'),
    ('/a/b/c', '/a/b', True, 'c'), ('/a/bc', '/a/b', False, None),
    ('/a/b', '/a/b', False, None), ('/a', '/a/b', False, None),
    ('/x/y', '/a', False, None), ('/ab', '/a', False, None),
    ('/a/b', '/', True, 'a'), ('/a', '/', True, 'a'), ('/', '/', False, None),
    # the queried path occurs INSIDE the exported one, not at its start
    ('/a/b/c', '/b', False, None), ('/x/a/b', '/a', False, None),
    ('/x/a', '/a', False, None),
]


def run(ctx):
    prog = ctx.prog
    selft = ('param', 'self')
    table = ('attr', selft, 'exports')
    # D1 ownership -----------------------------------------------------------
    writers = set()
    for fi in prog.all_funcs.values():
        if fi.cls is None or fi.cls.qualname != H:
            continue
        for p in Interp(prog, exc_edges=False).run(fi):
            for ev in iter_events(p.trace):
                if ev[0] in ('setsub', 'delsub') and ev[1] == table:
                    writers.add(fi.qualname)
                if ev[0] == 'setattr' and ev[1] == selft and \
                        ev[2] == 'exports':
                    writers.add(fi.qualname)
                if ev[0] == 'call' and kind(ev[1][2]) == 'attr' and \
                        ev[1][2][1] == table and ev[1][2][2] in (
                            'pop', 'clear', 'update', 'setdefault',
                            'popitem'):
                    writers.add(fi.qualname)
    allowed = {H + '.__init__', H + '.exportObject', H + '.unexportObject'}
    for w in sorted(writers):
        ctx.ob('C16.D1', w, 'writes-export-table', w in allowed,
               'only exportObject / unexportObject may change the export '
               'table')
    # foreign writers (any other module touching .exports with a store)
    for fi in prog.all_funcs.values():
        if fi.cls is not None and fi.cls.qualname == H:
            continue
        for n in prog._iter_scope(fi.node):
            if isinstance(n, ast.Subscript) and isinstance(
                    n.ctx, (ast.Store, ast.Del)) and \
                    isinstance(n.value, ast.Attribute) and \
                    n.value.attr == 'exports':
                ctx.ob('C16.D1', fi.qualname, 'writes-export-table', False,
                       'the export table is modified outside '
                       'DBusObjectHandler')
            if isinstance(n, ast.Call) and \
                    isinstance(n.func, ast.Attribute) and \
                    isinstance(n.func.value, ast.Attribute) and \
                    n.func.value.attr == 'exports' and n.func.attr in (
                        'pop', 'clear', 'update', 'setdefault', 'popitem',
                        '__setitem__', '__delitem__'):
                ctx.ob('C16.D1', fi.qualname, 'writes-export-table', False,
                       'the export table is modified outside '
                       'DBusObjectHandler (no announcement is sent)')
    ctx.ob('C16.D1', H, 'writers-found', allowed <= writers,
           'exportObject and unexportObject must both update the table '
           '(found writers: %s)' % sorted(writers))
    announce(ctx, 'exportObject', 'InterfacesAdded', table)
    announce(ctx, 'unexportObject', 'InterfacesRemoved', table)
    # D3 -----------------------------------------------------------------------
    gm = prog.func(H + '.getManagedObjects')
    prefix_rules(ctx, 'C16.D3', [gm], only_pathlike=False)
    descendants_table(ctx, gm)
    # D4 -----------------------------------------------------------------------
    gx = prog.func('introspection.generateIntrospectionXML')
    prefix_rules(ctx, 'C16.D4', [gx], only_pathlike=False)
    children_table(ctx, gx)
    children_once(ctx, gx)
    answer_caches_follow_exports(ctx, writers)
    from .c09 import per_instance_registries
    per_instance_registries(
        ctx, 'C16.D1', ('objects',),
        'objects exported on one connection are visible on, and removed '
        'from, every other connection of the process')
    reported_properties(ctx)
    exports_snapshot(ctx)
    ctx.floor('C16.D1', 3)
    ctx.floor('C16.D2', 6)
    ctx.floor('C16.D3', 2)
    ctx.floor('C16.D4', 3)


def exports_snapshot(ctx):
    """A loop over the export table that calls into the exported objects
    (getInterfaces, getAllProperties -> user property getters) must iterate
    a snapshot: user code can export or unexport while it is asked, and a
    live dict view then raises "changed size during iteration" - the call is
    never answered."""
    prog = ctx.prog
    n = 0
    for fi in prog.all_funcs.values():
        if fi.cls is None or fi.cls.qualname != H:
            continue
        for node in prog._iter_scope(fi.node):
            if not isinstance(node, ast.For):
                continue
            it = node.iter
            base = it
            if isinstance(it, ast.Call) and \
                    isinstance(it.func, ast.Attribute) and \
                    it.func.attr in ('items', 'values', 'keys') and \
                    not it.args:
                base = it.func.value
            live = isinstance(base, ast.Attribute) and \
                base.attr == 'exports' and \
                isinstance(base.value, ast.Name) and base.value.id == 'self'
            mentions = any(isinstance(x, ast.Attribute) and
                           x.attr == 'exports' for x in ast.walk(it))
            if not mentions:
                continue
            targets = {x.id for x in ast.walk(node.target)
                       if isinstance(x, ast.Name)}
            objs = set(targets)
            for st in ast.walk(node):
                if isinstance(st, ast.Assign) and any(
                        isinstance(x, ast.Attribute) and x.attr == 'exports'
                        for x in ast.walk(st.value)):
                    objs.update(t.id for t in st.targets
                                if isinstance(t, ast.Name))
            callout = None
            for sub in ast.walk(ast.Module(body=node.body, type_ignores=[])):
                if isinstance(sub, ast.Call) and \
                        isinstance(sub.func, ast.Attribute) and \
                        isinstance(sub.func.value, ast.Name) and \
                        sub.func.value.id in objs and \
                        sub.func.attr not in ('startswith', 'endswith',
                                              'rstrip', 'split', 'strip'):
                    callout = ast.unparse(sub)[:50]
            if callout is None:
                continue
            n += 1
            ctx.ob('C16.D3', fi.qualname, 'snapshot:exports', not live,
                   'the loop iterates the live export table (%s) while '
                   'calling into the exported objects (%s): an object whose '
                   'property getter exports or unexports something makes '
                   'the dict view raise and the call goes unanswered; '
                   'iterate sorted(...) / list(...)' % (
                       ast.unparse(it)[:40], callout))
    ctx.extra['export_table_loops_with_callouts'] = n


def reported_properties(ctx):
    """"each with all its interfaces and readable properties": both
    reporters (GetManagedObjects, the InterfacesAdded announcement) take an
    object's properties from getAllProperties(<interface name>) for every
    interface, and getAllProperties collects every readable property (the
    GetAll clauses of C17.D1/D4, re-reported here)."""
    prog = ctx.prog
    def with_helpers(fi):
        # the reporter and the methods of its class it calls through self
        # (a refactoring may have moved the loop into a shared helper)
        out, work = [], [fi]
        while work and len(out) < 8:
            f = work.pop()
            if f in out:
                continue
            out.append(f)
            for n in prog._iter_scope(f.node):
                if isinstance(n, ast.Call) and \
                        isinstance(n.func, ast.Attribute) and \
                        isinstance(n.func.value, ast.Name) and \
                        n.func.value.id in ('self', 'cls') and f.cls:
                    t = prog.lookup_method(f.cls, n.func.attr)
                    if t is not None:
                        work.append(t)
        return out
    for q in (H + '.getManagedObjects', H + '.exportObject'):
        fi = prog.func(q)
        ok = False
        for n in [x for f in with_helpers(fi)
                  for x in prog._iter_scope(f.node)]:
            if isinstance(n, (ast.For, ast.comprehension)) and any(
                    isinstance(x, ast.Attribute) and
                    x.attr == 'getInterfaces' for x in ast.walk(n.iter)):
                tv = {x.id for x in ast.walk(n.target)
                      if isinstance(x, ast.Name)}
                body = n.body if isinstance(n, ast.For) else [
                    p_ for f in with_helpers(fi) for p_ in ast.walk(f.node)
                    if isinstance(p_, (ast.DictComp, ast.ListComp)) and
                    n in p_.generators]
                for st in body:
                    for c in ast.walk(st):
                        if isinstance(c, ast.Call) and \
                                isinstance(c.func, ast.Attribute) and \
                                c.func.attr == 'getAllProperties' and \
                                c.args and any(
                                    isinstance(x, ast.Name) and x.id in tv
                                    for x in ast.walk(c.args[0])):
                            ok = True
        ctx.ob('C16.D3' if q.endswith('getManagedObjects') else 'C16.D2', q,
               'properties-of-every-interface', ok,
               '%s must report getAllProperties(<name>) for every interface '
               'the object implements' % q.split('.')[-1])
    from . import c17

    class _Sub:
        tier = ctx.tier
        extra = {}

        def __init__(self):
            self.prog = prog

        def ob(self, rule, where, slot, ok, msg, detail=None,
               nontrivial=True, loc=None):
            if slot.startswith('getall:') or slot == 'aggregates-all-classes':
                ctx.ob('C16.D3', where, slot, ok,
                       '[GetManagedObjects / InterfacesAdded report '
                       'getAllProperties] ' + msg, detail, nontrivial, loc)
            return ok

        def floor(self, *a):
            pass

        def advisory(self, *a):
            pass
    c17.run(_Sub())


def announce(ctx, meth, signal, table):
    prog = ctx.prog
    fi = prog.func('%s.%s' % (H, meth))
    n = 0
    for p in Interp(prog, exc_edges=False).run(fi):
        if p.outcome == 'raise':
            continue
        n += 1
        sends = [c for c in p.calls(deep=False) if kind(c[2]) == 'attr' and
                 c[2][2] == 'sendMessage']
        cls = prog.cls('message.SignalMessage')
        init = cls.methods['__init__']

        def fields(sg):
            b_ = dict(zip(init.params()[1:], sg[3]))
            b_.update(dict(sg[4]))
            return b_
        # an export onto an occupied path may ALSO announce the departure of
        # the object it replaces - with THAT object's interfaces
        extra = []
        if meth == 'exportObject' and len(sends) > 1:
            # the object being exported: the receiver of getObjectPath()
            # in the key it is stored under
            newp = ('param', fi.params()[1])
            for e_ in p.trace:
                if e_[0] == 'setsub' and e_[1] == table and \
                        kind(e_[2]) == 'call' and \
                        kind(e_[2][2]) in ('attr', 'bound'):
                    newp = e_[2][2][1]
            for c_ in list(sends):
                sg = c_[3][0] if c_[3] else None
                if kind(sg) == 'call' and \
                        sg[1] == 'message.SignalMessage' and \
                        fields(sg).get('member') == C('InterfacesRemoved'):
                    extra.append(sg)
                    sends.remove(c_)
            for sg in extra:
                body_ = fields(sg).get('body')
                il = body_[1][1][1] if kind(body_) == 'list' and \
                    len(body_[1]) == 2 else body_
                ctx.ob('C16.D2', fi.qualname,
                       'replaced-object-leaves-with-its-own-interfaces',
                       not contains(il, lambda x: kind(x) == 'call' and
                                    kind(x[2]) in ('attr', 'bound') and
                                    str(x[2][2]).endswith('getInterfaces')
                                    and x[2][1] == newp),
                       'the InterfacesRemoved sent for the object an export '
                       'replaces lists the interfaces of the object being '
                       'EXPORTED (%s), not of the one that leaves'
                       % term_str(il)[:80])
        ok = len(sends) == 1 and kind(sends[0][3][0]) == 'call' and \
            sends[0][3][0][1] == 'message.SignalMessage'
        ctx.ob('C16.D2', fi.qualname, 'one-signal', ok,
               '%s must announce itself with exactly one signal on every '
               'path; sends %d' % (meth, len(sends)))
        if not ok:
            continue
        sig = sends[0][3][0]
        b = fields(sig)
        ctx.ob('C16.D2', fi.qualname, 'signal-name',
               b.get('member') == C(signal) and b.get('interface') == C(OM),
               '%s must emit %s.%s; emits %s.%s' % (
                   meth, OM, signal, term_str(b.get('interface')),
                   term_str(b.get('member'))))
        body = b.get('body')
        path_t = b.get('path')
        okb = kind(body) == 'list' and len(body[1]) == 2 and \
            strip(body[1][0][1]) == strip(path_t) and \
            is_method_call(path_t, 'getObjectPath')
        ctx.ob('C16.D2', fi.qualname, 'names-own-path', okb,
               'the signal must be emitted from and name the object\'s own '
               'path')
        if meth == 'exportObject':
            stores = [e for e in p.trace if e[0] == 'setsub' and
                      e[1] == table]
            oks = len(stores) == 1 and is_method_call(stores[0][2],
                                                       'getObjectPath')
            ctx.ob('C16.D2', fi.qualname, 'stored-under-own-path', bool(oks),
                   'the object must be entered under its own object path')
            if oks:
                same = strip(stores[0][2]) == strip(path_t)
                ctx.ob('C16.D2', fi.qualname, 'announces-stored-path', same,
                       'the announced path must be the path the object was '
                       'stored under', nontrivial=False)
            # interfaces: dict filled from o.getInterfaces()
            ifaces = body[1][1][1] if okb else None
            okl = any(ev[0] == 'loop' and contains(
                ev[3], lambda x: is_method_call(x, 'getInterfaces'))
                for ev in p.trace) or (
                # ... or built in one unfiltered comprehension over them
                kind(ifaces) == 'comp' and not ifaces[5] and
                len(ifaces[3]) == 1 and
                is_method_call(ifaces[3][0], 'getInterfaces'))
            ctx.ob('C16.D2', fi.qualname, 'lists-all-interfaces', okl,
                   'the announcement must list every interface of the '
                   'object')
        else:
            objp = ('param', fi.params()[1])
            dels = [e for e in p.trace if e[0] == 'delsub' and
                    e[1] == table and e[2] == objp]
            pops = [c for c in p.calls(deep=False) if kind(c[2]) == 'attr'
                    and c[2][1] == table and c[2][2] == 'pop' and
                    c[3] and c[3][0] == objp]
            ctx.ob('C16.D2', fi.qualname, 'removes-that-path',
                   len(dels) + len(pops) == 1,
                   'unexportObject must remove exactly the given path')
            ifl = body[1][1][1] if okb else None
            okl = (kind(ifl) == 'comp' and contains(
                ifl, lambda x: is_method_call(x, 'getInterfaces'))) or any(
                # ... or collected by an explicit loop over them, as
                # exportObject does
                ev[0] == 'loop' and contains(
                    ev[3], lambda x: is_method_call(x, 'getInterfaces')) and
                all(bp.outcome not in ('break', 'return', 'raise')
                    for bp in ev[4])
                for ev in p.trace)
            ctx.ob('C16.D2', fi.qualname, 'lists-all-interfaces', okl,
                   'the announcement must list every interface of the '
                   'object')
    if n == 0:
        raise AnalysisError('%s has no normal path' % fi.qualname)


def is_method_call(x, name):
    return kind(x) == 'call' and (
        (kind(x[2]) == 'attr' and x[2][2] == name) or
        (kind(x[2]) == 'bound' and str(x[2][2]).endswith('.' + name)))


def answer_caches_follow_exports(ctx, writers):
    """What a peer sees (Introspect, GetManagedObjects, UnknownObject) must
    follow the export table at every moment.  State that the call handler
    writes while answering - a cache of generated answers - is derived from
    the export table; every method that changes the table must then reset it
    WHOLESALE on every path (an answer for one path depends on the exports
    beneath it: dropping the entry of the changed path alone leaves its
    ancestors' answers stale)."""
    prog = ctx.prog
    cls = prog.cls(H)
    hm = prog.lookup_method(cls, 'handleMethodCallMessage')
    selft = ('param', 'self')
    caches = set()
    for n in ast.walk(hm.node):
        tgt = None
        if isinstance(n, ast.Subscript) and isinstance(n.ctx, ast.Store):
            tgt = n.value
        elif isinstance(n, ast.Attribute) and isinstance(n.ctx, ast.Store):
            tgt = n
        elif isinstance(n, ast.Call) and isinstance(n.func, ast.Attribute) \
                and n.func.attr in ('setdefault', 'update', 'append', 'add'):
            tgt = n.func.value
        if isinstance(tgt, ast.Attribute) and \
                isinstance(tgt.value, ast.Name) and tgt.value.id == 'self' \
                and tgt.attr != 'exports':
            caches.add(tgt.attr)
    from ..loader import attr_read_elsewhere
    # a cache is READ to produce an answer; a counter that is only
    # incremented is not one
    caches = {a for a in caches if attr_read_elsewhere(hm.node, a)}
    ctx.extra['answer_caches'] = sorted(caches)
    for attr in sorted(caches):
        for q in sorted(writers):
            if q.endswith('.__init__'):
                continue
            fi = prog.func(q)
            for p in Interp(prog, exc_edges=False).run(fi):
                if p.outcome == 'raise':
                    continue
                changed = any(
                    (ev[0] in ('setsub', 'delsub') and
                     ev[1] == ('attr', selft, 'exports')) or
                    (ev[0] == 'call' and kind(ev[1][2]) == 'attr' and
                     ev[1][2][1] == ('attr', selft, 'exports') and
                     ev[1][2][2] in ('pop', 'clear', 'update', 'setdefault',
                                     'popitem'))
                    for ev in iter_events(p.trace))
                if not changed:
                    continue
                reset = any(
                    (ev[0] == 'call' and kind(ev[1][2]) == 'attr' and
                     ev[1][2][1] == ('attr', selft, attr) and
                     ev[1][2][2] == 'clear' and not ev[1][3]) or
                    (ev[0] == 'setattr' and ev[1] == selft and ev[2] == attr
                     and (ev[3] in (('dict', ()), ('list', ()), NONE) or
                          (kind(ev[3]) == 'call' and ev[3][1] in (
                              'dict', 'list', 'set') and not ev[3][3])))
                    for ev in iter_events(p.trace))
                ctx.ob('C16.D1', q, 'answer-cache-reset:%s' % attr, reset,
                       'the call handler keeps answers in self.%s; this '
                       'method changes the export table without resetting '
                       'that cache wholesale, so an ancestor path keeps '
                       'answering with children (or XML instead of '
                       'UnknownObject) that are no longer exported' % attr)


def strip(t):
    from .codec_rules import strip_sites
    # calls of the same accessor on the same object compare equal
    if kind(t) == 'call':
        return ('call', t[1], t[2], t[3], t[4], None)
    return t


def _loop_elem(ev):
    return ('elem', ev[3], ev[1])


def descendants_table(ctx, gm):
    prog = ctx.prog
    objp = ('param', gm.params()[1])
    bad = None
    n = 0
    for p in Interp(prog, exc_edges=False).run(gm):
        loops = [ev for ev in p.trace if ev[0] == 'loop' and contains(
            ev[3], lambda x: kind(x) == 'attr' and x[2] == 'exports')]
        if not loops:
            continue
        ev = loops[0]
        elem = _loop_elem(ev)
        # `for p, o in sorted(self.exports.items())`: the path is the first
        # component of the element
        if contains(ev[3], lambda x: kind(x) == 'call' and
                    kind(x[2]) == 'attr' and x[2][2] == 'items'):
            elem = ('sub', elem, C(0))
        for exported, queried, beneath, _child in PAIRS:
            got = set()
            for bp in ev[4]:
                feas = True
                for c, pol in bp.cond:
                    if not (contains(c, lambda x: x == elem) or
                            contains(c, lambda x: x == objp)):
                        continue
                    r = subst_fold(c, {elem: C(exported), objp: C(queried)})
                    for k_, v_ in list(p.state.store.items()):
                        pass
                    tv = truth(r)
                    if tv is None:
                        feas = None
                        break
                    if tv != pol:
                        feas = False
                        break
                if feas is None and contains(
                        r, lambda x: kind(x) == 'attr' and
                        x[2] == 'exports'):
                    # with the path and the queried path fixed, the test
                    # still reads the export table: whether THIS object is
                    # reported depends on which OTHER objects are exported
                    ctx.ob('C16.D3', gm.qualname,
                           'inclusion-depends-on-the-two-paths-only', False,
                           'whether an exported object is reported by '
                           'GetManagedObjects depends on the other exported '
                           'objects (%s): "every exported object strictly '
                           'beneath the queried path" is a test of the two '
                           'paths alone' % term_str(r)[:100])
                    return
                if feas is None:
                    raise AnalysisError(
                        'getManagedObjects: the descendant test does not '
                        'fold for (%r, %r): %s' % (exported, queried,
                                                   term_str(r)[:80]))
                if feas:
                    included = any(e[0] == 'setsub' for e in bp.trace)
                    got.add(included)
            n += 1
            if got != {beneath} and bad is None:
                bad = {'exported': exported, 'queried': queried,
                       'strictly_beneath': beneath,
                       'extracted': sorted(got)}
        break
    if n == 0:
        raise AnalysisError('getManagedObjects: no loop over the exports')
    ctx.ob('C16.D3', gm.qualname, 'strictly-beneath', bad is None,
           'GetManagedObjects must report exactly the exported objects '
           'strictly beneath the queried path; the extracted test disagrees '
           'for %s' % bad, bad)


def children_table(ctx, gx):
    prog = ctx.prog
    objp = ('param', gx.params()[0])
    exp = ('param', gx.params()[1])
    paths = Interp(prog, exc_edges=False).run(gx)
    bad = None
    n = 0
    extracted_nothing = False
    for exported, queried, _beneath, child in PAIRS:
        got = set()
        for p in paths:
            # function-level feasibility (the endswith('/') normalisation)
            feas = True
            for c, pol in p.cond:
                if contains(c, lambda x: x == objp) and not contains(
                        c, lambda x: kind(x) in ('elem', 'loopout',
                                                 'loopvar')):
                    r = subst_fold(c, {objp: C(queried)})
                    tv = truth(r)
                    if tv is not None and tv != pol:
                        feas = False
            if not feas:
                continue
            for ev in p.trace:
                if ev[0] != 'loop' or not contains(
                        ev[3], lambda x: x == exp) or contains(
                        ev[3], lambda x: is_method_call(x, 'get') or
                        kind(x) == 'comp'):
                    continue
                elem = _loop_elem(ev)
                pre = ev[5]
                # the scenario of a pair: exactly one exported path (so a
                # test that asks the table again - `x in exportedObjects` -
                # folds too: only that one path is in it)
                mapping = {elem: C(exported), objp: C(queried),
                           exp: ('tuple', (C(exported),))}
                for bp in ev[4]:
                    f2 = True
                    for c, pol in bp.cond:
                        if contains(c, lambda x: kind(x) in (
                                'loopvar', 'prefix', 'starseq')):
                            continue      # "not already listed" test
                        r = subst_fold(c, mapping)
                        tv = truth(r)
                        if tv is None:
                            f2 = None
                            break
                        if tv != pol:
                            f2 = False
                            break
                    if f2 is None:
                        raise AnalysisError(
                            'generateIntrospectionXML: the child test does '
                            'not fold for (%r, %r): %s' % (
                                exported, queried, term_str(r)[:80]))
                    if not f2:
                        continue
                    # the name is recorded: appended to a list, added to a
                    # set, or entered as a key of a dict kept as ordered set
                    apps = [e for e in bp.trace if e[0] == 'mutate' and
                            e[2] in ('append', 'add')]
                    keyed = [e for e in bp.trace if e[0] == 'setsub' and
                             not contains(e[1], lambda x: kind(x) in (
                                 'param', 'attr'))]
                    if keyed and not apps:
                        apps = [('mutate', keyed[-1][1], 'append',
                                 (keyed[-1][2],))]
                    if apps:
                        v = subst_fold(apps[-1][3][0], mapping)
                        got.add(v[1] if is_const(v) else term_str(v)[:40])
                    else:
                        # not listed on this path - unless the path is the
                        # one on which the name was found listed already
                        acc = lambda x: kind(x) in ('loopvar', 'prefix',
                                                    'starseq')
                        already = unclear = False
                        for c, pol in bp.cond:
                            if not contains(c, acc):
                                continue
                            if kind(c) == 'cmp' and c[1] in ('in', 'not in') \
                                    and contains(c[3], acc):
                                already = already or ((c[1] == 'in') == pol)
                            else:
                                unclear = True
                        if not already and not unclear:
                            got.add(None)
                break
        n += 1
        got.discard(None) if child is not None and len(got) > 1 else None
        if not got:
            extracted_nothing = True
            continue
        if got != {child} and bad is None:
            bad = {'exported': exported, 'queried': queried,
                   'expected_child': child, 'extracted': sorted(
                       got, key=str)}
    if extracted_nothing and bad is None:
        ctx.advisory('generateIntrospectionXML: the child-name computation '
                     'is not a loop over the exported paths with an append; '
                     'its value could not be extracted (only the prefix and '
                     'de-duplication rules were applied)')
        ctx.ob('C16.D4', gx.qualname, 'immediate-children', True,
               'not extractable in this shape (advisory)', nontrivial=False)
        return_none_rule(ctx, gx, paths)
        return
    ctx.ob('C16.D4', gx.qualname, 'immediate-children', bad is None,
           'introspecting a path must list exactly the names of its '
           'immediate children among the exported paths; the extracted '
           'computation disagrees for %s' % bad, bad)
    return_none_rule(ctx, gx, paths)


def return_none_rule(ctx, gx, paths):
    # None exactly when neither object nor child
    okn = True
    n_none = 0
    for p in paths:
        if p.outcome != 'return':
            continue
        is_none = p.value == NONE
        obj_none = any(kind(c) == 'cmp' and c[3] == NONE and
                       ((c[1] == 'is') == pol) and
                       kind(c[2]) == 'call' and kind(c[2][2]) == 'attr' and
                       c[2][2][2] == 'get' for c, pol in p.cond)
        if is_none:
            n_none += 1
            no_match = any(kind(c) in ('list', 'loopout') and not pol
                           for c, pol in p.cond) or any(
                not pol and 'matches' in term_str(c) for c, pol in p.cond)
            if not obj_none:
                okn = False
    ctx.ob('C16.D4', gx.qualname, 'none-only-without-object', okn and
           n_none >= 1, 'introspection must fail (None) only for a path with '
           'neither an exported object nor exported descendants')


def children_once(ctx, gx):
    """Each immediate child is listed once however many exported objects
    live beneath it: the list that feeds the <node name=.../> lines must be
    de-duplicated in a recognised way."""
    prog = ctx.prog
    node_lists = []
    for n in prog._iter_scope(gx.node):
        if isinstance(n, ast.For) and isinstance(n.iter, ast.Name):
            src = ast.unparse(ast.Module(body=n.body, type_ignores=[]))
            if '<node name=' in src:
                node_lists.append(n.iter.id)
        # ... or written as a comprehension / generator over the list
        if isinstance(n, (ast.GeneratorExp, ast.ListComp)) and \
                len(n.generators) == 1 and \
                isinstance(n.generators[0].iter, ast.Name) and \
                not n.generators[0].ifs and \
                '<node name=' in ast.unparse(n.elt):
            node_lists.append(n.generators[0].iter.id)
    if not node_lists:
        ctx.ob('C16.D4', gx.qualname, 'children-listed-once', False,
               'could not find the loop that writes the <node name=.../> '
               'lines from a list of child names')
        return
    name = node_lists[0]
    ok = False
    how = 'no de-duplication recognised'
    # decided on the paths first: every turn of a loop that appends X to the
    # list has tested `X not in <the whole list>` on its way (whatever the
    # spelling: nested if, guard clause with continue, and/or)
    n_app = n_guarded = 0
    for p in Interp(prog, exc_edges=False).run(gx):
        for ev in p.trace:
            if ev[0] != 'loop':
                continue
            for bp in ev[4]:
                for e in bp.trace:
                    if e[0] != 'mutate' or e[2] != 'append' or \
                            not contains(e[1], lambda x: kind(x) == 'prefix'
                                         and x[2] == name):
                        continue
                    n_app += 1
                    arg = e[3][0] if e[3] else None
                    if any(kind(c) == 'cmp' and c[1] in ('in', 'not in') and
                           c[2] == arg and c[3] == e[1] and
                           (c[1] == 'not in') == pol
                           for c, pol in bp.cond):
                        n_guarded += 1
        break
    # a dict (or set) kept as the list of names cannot hold a name twice
    as_keys = False
    for n in prog._iter_scope(gx.node):
        if isinstance(n, ast.Assign) and len(n.targets) == 1 and \
                isinstance(n.targets[0], ast.Name) and \
                n.targets[0].id == name and (
                    (isinstance(n.value, ast.Dict) and not n.value.keys) or
                    (isinstance(n.value, ast.Call) and
                     isinstance(n.value.func, ast.Name) and
                     n.value.func.id in ('dict', 'set', 'OrderedDict') and
                     not n.value.args and not n.value.keywords)):
            as_keys = True
    if as_keys and not any(
            isinstance(n, ast.Assign) and any(
                isinstance(t, ast.Name) and t.id == name for t in n.targets)
            and not (isinstance(n.value, ast.Dict) or
                     isinstance(n.value, ast.Call))
            for n in prog._iter_scope(gx.node)):
        ctx.ob('C16.D4', gx.qualname, 'children-listed-once', True,
               'every immediate child must be listed once; the names are the '
               'keys of a dict / members of a set')
        return
    if n_app and n_app == n_guarded:
        ctx.ob('C16.D4', gx.qualname, 'children-listed-once', True,
               'every immediate child must be listed once however many '
               'exported objects live beneath it; every append is preceded '
               'by `not in` the whole list')
        return
    for n in prog._iter_scope(gx.node):
        # guarded append: if x not in <name>: <name>.append(x)
        if isinstance(n, ast.If):
            # the membership test must be against the WHOLE list (not a
            # slice of it) and of the very value that is appended
            tested = [ast.dump(c.left) for c in ast.walk(n.test)
                      if isinstance(c, ast.Compare) and len(c.ops) == 1 and
                      isinstance(c.ops[0], ast.NotIn) and
                      isinstance(c.comparators[0], ast.Name) and
                      c.comparators[0].id == name]
            appended = [ast.dump(c.args[0]) for st in n.body
                        for c in ast.walk(st)
                        if isinstance(c, ast.Call) and
                        isinstance(c.func, ast.Attribute) and
                        c.func.attr == 'append' and
                        isinstance(c.func.value, ast.Name) and
                        c.func.value.id == name and len(c.args) == 1]
            # ... or against a companion SET that receives the same value
            # in the same block (kept beside the ordered list for the test)
            companions = {c.func.value.id for st in n.body
                          for c in ast.walk(st)
                          if isinstance(c, ast.Call) and
                          isinstance(c.func, ast.Attribute) and
                          c.func.attr == 'add' and
                          isinstance(c.func.value, ast.Name) and
                          len(c.args) == 1 and
                          ast.dump(c.args[0]) in appended}
            # the companion holds nothing else: it is only ever added to here
            companions = {cn for cn in companions if sum(
                1 for x in prog._iter_scope(gx.node)
                if isinstance(x, ast.Call) and
                isinstance(x.func, ast.Attribute) and
                isinstance(x.func.value, ast.Name) and
                x.func.value.id == cn and
                x.func.attr in ('add', 'update', 'discard', 'remove',
                                'clear', 'pop')) == 1}
            tested_c = [ast.dump(c.left) for c in ast.walk(n.test)
                        if isinstance(c, ast.Compare) and len(c.ops) == 1
                        and isinstance(c.ops[0], ast.NotIn) and
                        isinstance(c.comparators[0], ast.Name) and
                        c.comparators[0].id in companions]
            if appended and all(a in tested or a in tested_c
                                for a in appended):
                ok, how = True, 'append guarded by "not in"'
            elif appended and not ok:
                how = 'the append is guarded by a test that does not ' \
                      'compare the appended name with the whole list: %s' \
                      % ast.unparse(n.test)
        if isinstance(n, ast.Assign) and len(n.targets) == 1 and \
                isinstance(n.targets[0], ast.Name) and \
                n.targets[0].id == name:
            v = n.value
            vs = ast.unparse(v)
            if isinstance(v, ast.SetComp) or vs.startswith(('set(',
                                                             'sorted(set(',
                                                             'list(set(',
                                                             'sorted({',
                                                             'list({',
                                                             'list(dict.fromkeys(',
                                                             'dict.fromkeys(')):
                ok, how = True, 'built from a set'
            if 'groupby(sorted(' in vs:
                ok, how = True, 'groupby over a sorted sequence'
            elif 'groupby(' in vs:
                how = 'itertools.groupby over an unsorted sequence only ' \
                      'merges ADJACENT equal names'
    ctx.ob('C16.D4', gx.qualname, 'children-listed-once', ok,
           'every immediate child must be listed once however many exported '
           'objects live beneath it; %s' % how)
