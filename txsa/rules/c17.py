"""C17 - remote property access honours type and access mode: finite-domain
guard tables and sibling agreement of Get / Set / GetAll and the descriptor."""
import ast

from ..loader import AnalysisError
from ..sym import (C, NONE, Interp, State, contains, is_const, iter_events,
                   kind, subst_fold, term_str, truth, walk_term)
from .c10 import lookup_continues, _all_body_paths

O = 'objects.DBusObject'
META = {
    'level': 'other',
    'rule_text': 'Instances: (accessor x access value in {read, write, '
                 'readwrite}) decided by evaluating the extracted guards by '
                 'constant folding; (emission mode in {true, false, '
                 'invalidates}); every path of the descriptor and of the '
                 'three accessors; every loop over the per-class caches.',
    'explanation': 'The guards of Get, Set and GetAll are extracted from the '
                   'source and evaluated over the finite vocabulary that '
                   'interface.Property.__init__ can produce (itself '
                   'extracted), giving exact access tables; the change '
                   'signal guard is evaluated the same way; Get and GetAll '
                   'must type basic values through the same variant-class '
                   'table; an accumulating loop over the per-class caches '
                   '(GetAll) must not stop at the first class that knows the '
                   'interface while lookups (Get/Set) must continue past '
                   'classes that lack the key; descriptor get/set use one '
                   'storage key and the accessors go through the descriptor. '
                   'Value histories are NOT explored.',
    'trusted_base': ['CPython ast', 'txsa.sym interpreter'],
    'assumptions': ['a raised exception in an accessor becomes an error '
                    'reply (C10-D3)'],
    'decided': ['D1 access tables (GetAll leaves out a readable property only if it was collected already - never because of its value)', 'D2 emission guard',
                'D3 Get/GetAll typing agreement',
                'D4 exhaustive aggregation / continuing lookup',
                'D5 one storage key, accessors use the descriptor; the '
                'declaration (access, emits) bound to a property is the one '
                'of ITS interface; the value storage of an object is created only if absent',
                'D3 also: the per-class tables are read through the class\'s own __dict__'],
    'undecided': ['value histories over local and remote assignments',
                  'descriptor state shared across instances'],
}

ACCESS = ('read', 'write', 'readwrite')
EMITS = ('true', 'false', 'invalidates')


def property_vocab(ctx):
    """Extract what interface.Property.__init__ stores into access/emits."""
    prog = ctx.prog
    fi = prog.func('interface.Property.__init__')
    selft = ('param', 'self')
    it = Interp(prog, exc_edges=False)
    acc = {}
    emits = set()
    r, w = ('param', 'readable'), ('param', 'writeable')
    for p in it.run(fi):
        if p.outcome == 'raise':
            continue
        a = p.state.heap.get((selft, 'access'))
        e = p.state.heap.get((selft, 'emits'))
        if is_const(a):
            rv = True if r in p.state.truthy else (
                False if r in p.state.falsy else None)
            wv = True if w in p.state.truthy else (
                False if w in p.state.falsy else None)
            acc.setdefault(a[1], set()).add((rv, wv))
        if is_const(e):
            emits.add(e[1])
        elif e is not None:
            emits.add('<param>')
    ok = set(acc) == set(ACCESS)
    ctx.ob('C17.D1', fi.qualname, 'access-vocabulary', ok,
           'Property.access must be one of read/write/readwrite; the '
           'constructor can store %s' % sorted(acc))
    want = {'write': {(False, True)}, 'readwrite': {(True, True)}}
    for a, combos in acc.items():
        if a in want:
            ctx.ob('C17.D1', fi.qualname, 'access-normalisation:%s' % a,
                   combos == want[a],
                   'access %r must mean readable=%s, writeable=True; stored '
                   'for %s' % (a, a == 'readwrite', sorted(
                       combos, key=str)))
        elif a == 'read':
            ok = all(wv is False or (wv is None) for rv, wv in combos)
            ctx.ob('C17.D1', fi.qualname, 'access-normalisation:read', ok,
                   'access "read" must be stored only when not writeable; '
                   'stored for %s' % sorted(combos, key=str))
    return set(acc), emits


def feasible(cond, access_term, value):
    """Is the path condition consistent with access == value?"""
    for c, pol in cond:
        if not contains(c, lambda x: x == access_term):
            continue
        r = subst_fold(c, {access_term: C(value)})
        tv = truth(r)
        if tv is None:
            return None
        if tv != pol:
            return False
    return True


def storage_created_once(ctx):
    """The values of an object's properties live in one dict on the instance
    (created lazily by the descriptor).  Any statement that binds that
    attribute to a fresh container must be guarded by a test that it does not
    exist yet: an unconditional `self._dbusProperties = {}` (in a constructor
    that may run after the first assignment, or twice under multiple
    inheritance) throws the assigned values away - Get then answers None."""
    prog = ctx.prog
    # the storage attribute: what DBusProperty.__set__ subscripts
    setter = prog.func('objects.DBusProperty.__set__')
    attrs = {n.value.attr for n in ast.walk(setter.node)
             if isinstance(n, ast.Subscript) and
             isinstance(n.ctx, ast.Store) and
             isinstance(n.value, ast.Attribute)}
    if len(attrs) != 1:
        # through a local name (`props = instance._dbusProperties`): ask
        # the interpreter what is subscripted
        inst = ('param', setter.params()[1])
        attrs = {e[1][2] for p in Interp(prog, exc_edges=False).run(setter)
                 for e in iter_events(p.trace)
                 if e[0] == 'setsub' and kind(e[1]) == 'attr' and
                 e[1][1] == inst}
    if len(attrs) != 1:
        raise AnalysisError('DBusProperty.__set__: storage attribute not '
                            'recognised (%s)' % sorted(attrs))
    store = next(iter(attrs))
    n = 0
    for fi in prog.all_funcs.values():
        if fi.module.name != 'objects':
            continue

        def walk(node, guarded):
            nonlocal n
            if isinstance(node, ast.If):
                g = guarded or any(
                    (isinstance(c, ast.Call) and
                     isinstance(c.func, ast.Name) and
                     c.func.id == 'hasattr' and len(c.args) == 2 and
                     isinstance(c.args[1], ast.Constant) and
                     c.args[1].value == store) or
                    (isinstance(c, ast.Attribute) and c.attr == store)
                    for c in ast.walk(node.test))
                for st in node.body:
                    walk(st, g)
                for st in node.orelse:
                    walk(st, g)
                return
            if isinstance(node, ast.Assign):
                for t in node.targets:
                    if isinstance(t, ast.Attribute) and t.attr == store:
                        n += 1
                        ctx.ob('C17.D5', fi.qualname,
                               'storage-created-only-if-absent', guarded,
                               '%s binds .%s to a fresh container without '
                               'testing that it is absent: property values '
                               'assigned before this statement runs are '
                               'lost (Get answers None, the first export '
                               'cannot marshal them)' % (fi.qualname, store))
            for ch in ast.iter_child_nodes(node):
                walk(ch, guarded)
        walk(fi.node, False)
    if n == 0:
        ctx.ob('C17.D5', 'objects.DBusProperty', 'storage-created-only-if-'
               'absent', False, 'the storage dict is never created')


def declaration_binding(ctx):
    """The access mode and the change-notification mode that Get/Set and
    __set__ consult are `descriptor.iprop`.  _cacheInterfaces must take it
    from the interface the descriptor is bound to (given explicitly, or the
    first one that declares the name) - not from whichever interface happens
    to declare a property of the same name first."""
    prog = ctx.prog
    fi = prog.func(O + '._cacheInterfaces')
    obj = ('param', fi.params()[4])
    n = 0

    def check(trace, cond, where):
        nonlocal n
        taken_from = []          # interfaces obj.interface was set from
        for e in trace:
            if e[0] != 'setattr' or e[1] != obj:
                continue
            if e[2] == 'interface' and kind(e[3]) == 'attr' and \
                    e[3][2] == 'name':
                taken_from.append(e[3][1])
            if e[2] != 'iprop':
                continue
            v = e[3]
            n += 1
            shape = kind(v) == 'sub' and kind(v[1]) == 'attr' and \
                v[1][2] == 'properties' and v[2] == ('attr', obj, 'pname')
            iface = v[1][1] if shape else None
            bound = iface in taken_from
            for c, pol in cond:
                if kind(c) == 'cmp' and c[1] in ('==', '!=') and \
                        (c[1] == '==') == pol and \
                        ('attr', iface, 'name') in (c[2], c[3]):
                    other = c[3] if c[2] == ('attr', iface, 'name') else c[2]
                    if other == ('attr', obj, 'interface') or (
                            kind(other) == 'attr' and other[2] == 'name'):
                        bound = True
            ctx.ob('C17.D5', fi.qualname, 'declaration-of-own-interface',
                   shape and bound,
                   'descriptor.iprop (access / emits-on-change) is taken '
                   'from an interface on a path that did not establish that '
                   'it is the descriptor\'s interface (interface name '
                   'equal, or just taken from it): a property bound to a '
                   'later interface gets the modes of a same-named property '
                   'of an earlier one')

    for p in Interp(prog, exc_edges=False).run(fi):
        check([e for e in p.trace if e[0] != 'loop'], p.cond, 'top')
        for ev in p.trace:
            if ev[0] == 'loop':
                for bp, _lev in _all_body_paths(ev):
                    check(bp.trace, bp.cond, 'loop')
    if n == 0:
        ctx.ob('C17.D5', fi.qualname, 'declaration-of-own-interface', False,
               '_cacheInterfaces never binds descriptor.iprop')


def _table_of(fn, cond):
    """(table, key, guarded) when fn is `table[key]` (guarded by `key in
    table` on the path) or `table.get(key)` (guarded by a not-None / truth
    test of the looked-up value on the path); else None."""
    if kind(fn) == 'sub':
        table, key = fn[1], fn[2]
        g = any(kind(c) == 'cmp' and c[1] == 'in' and pol and
                c[3] == table and c[2] == key for c, pol in cond)
        return table, key, g
    if kind(fn) == 'call' and kind(fn[2]) == 'attr' and fn[2][2] == 'get' \
            and len(fn[3]) == 1:
        table, key = fn[2][1], fn[3][0]
        g = any((c == fn and pol) or
                (kind(c) == 'cmp' and c[2] == fn and c[3] == NONE and
                 ((c[1] == 'is not') == pol))
                for c, pol in cond)
        return table, key, g
    return None


def run(ctx):
    prog = ctx.prog
    vocab, emits = property_vocab(ctx)
    cls = prog.cls(O)
    selft = ('param', 'self')
    is_access = lambda x: kind(x) == 'attr' and x[2] == 'access'
    # D1 Get / Set ------------------------------------------------------------
    for meth, allowed in (('_dbus_PropertyGet', {'read', 'readwrite'}),
                          ('_dbus_PropertySet', {'write', 'readwrite'})):
        fi = prog.func('%s.%s' % (O, meth))
        it = Interp(prog, exc_edges=False)
        paths = it.run(fi)
        acc_terms = {t for p in paths for c, _ in p.cond
                     for t in walk_term(c) if is_access(t)}
        if len(acc_terms) != 1:
            ctx.ob('C17.D1', fi.qualname, 'guards-on-access', False,
                   '%s must decide on the property\'s access mode' % meth)
            continue
        at = next(iter(acc_terms))
        prop = at[1][1] if kind(at[1]) == 'attr' else None

        def is_unknown(p, prop=prop):
            # the looked-up descriptor is None (`is None` true / `is not
            # None` false / falsy) - not some other None test on the path
            return any(
                (kind(c) == 'cmp' and c[3] == NONE and c[2] == prop and
                 c[1] in ('is', 'is not') and ((c[1] == 'is') == pol)) or
                (c == prop and not pol) for c, pol in p.cond)
        for a in ACCESS:
            outs = set()
            for p in paths:
                # skip the unknown-property path
                if is_unknown(p):
                    continue
                f = feasible(p.cond, at, a)
                if f is None:
                    outs.add('undecidable')
                elif f:
                    outs.add('raise' if p.outcome == 'raise' else 'ok')
            want = 'ok' if a in allowed else 'raise'
            ctx.ob('C17.D1', fi.qualname, 'access=%s' % a, outs == {want},
                   '%s on a property whose access is %r must %s; the '
                   'extracted guard gives %s' % (
                       meth.replace('_dbus_Property', ''), a,
                       'succeed' if want == 'ok' else 'fail with an error',
                       sorted(outs)))
        # unknown property / interface fails
        unk = [p for p in paths if is_unknown(p)]
        ctx.ob('C17.D1', fi.qualname, 'unknown-property-fails',
               bool(unk) and all(p.outcome == 'raise' for p in unk),
               'an unknown property or interface must fail with an error')
        # D5 accessors go through the descriptor
        for p in paths:
            if p.outcome == 'raise':
                continue
            if meth.endswith('Get'):
                ok = any(c[1] == 'getattr' and len(c[3]) == 2 and
                         c[3][0] == selft and kind(c[3][1]) == 'attr' and
                         c[3][1][2] == 'attr_name' for c in p.calls())
                ctx.ob('C17.D5', fi.qualname, 'reads-through-descriptor',
                       ok, 'Get must read getattr(self, p.attr_name)')
            else:
                ok = any(c[1] == 'setattr' and len(c[3]) == 3 and
                         c[3][0] == selft and kind(c[3][1]) == 'attr' and
                         c[3][1][2] == 'attr_name' and
                         c[3][2] == ('param', fi.params()[3])
                         for c in p.calls())
                ctx.ob('C17.D5', fi.qualname, 'writes-through-descriptor',
                       ok, 'Set must assign setattr(self, p.attr_name, '
                       'value)')
    # GetAll --------------------------------------------------------------------
    gfi = prog.func(O + '.getAllProperties')
    from ..loader import nested_by_role
    addp = nested_by_role(gfi, 'addp', 'only')
    inl = lambda q, d: q.startswith(gfi.qualname + '.')
    it = Interp(prog, exc_edges=False, inline=inl)
    paths = it.run(gfi)
    n_filter = 0
    typed_getall = None
    for p in paths:
        for ev in p.trace:
            if ev[0] != 'loop':
                continue
            # D4: accumulating loops over the per-class caches never break
            if contains(ev[3], lambda x: kind(x) == 'call' and
                        (x[1] or '').endswith('._iterIFaceCaches')):
                brk = [bp for bp in ev[4] if bp.outcome == 'break']
                ctx.ob('C17.D4', gfi.qualname, 'aggregates-all-classes',
                       not brk, 'GetAll accumulates the properties of an '
                       'interface over the classes of the MRO but leaves the '
                       'loop at the first class that knows the interface: '
                       'properties of the same interface declared on a base '
                       'class are missing')
            table = {}
            for bp, lev in _all_body_paths(ev):
                stores = [e for e in bp.trace if e[0] == 'setsub']
                acc_terms = {t for c, _ in bp.cond for t in walk_term(c)
                             if is_access(t)}
                if not acc_terms:
                    continue
                at = next(iter(acc_terms))
                for a in ACCESS:
                    f = feasible(bp.cond, at, a)
                    if f:
                        n_filter += 1
                        table.setdefault(a, set()).add(bool(stores))
                for e in stores:
                    ok = kind(e[2]) == 'attr' and e[2][2] == 'pname'
                    ctx.ob('C17.D1', gfi.qualname, 'getall:keyed-by-name',
                           ok, 'GetAll must key values by the property name',
                           nontrivial=False)
                    if kind(e[3]) == 'call' and _table_of(e[3][2], bp.cond):
                        typed_getall = _table_of(e[3][2], bp.cond)[0]
            # a readable property that was not collected yet is skipped for
            # no other reason (its VALUE - 0, '', [] are values - in particular)
            for bp, lev in _all_body_paths(ev):
                if any(e[0] == 'setsub' for e in bp.trace):
                    continue
                acc = {t for c, _ in bp.cond for t in walk_term(c)
                       if is_access(t)}
                if not acc:
                    continue
                at = next(iter(acc))
                if not any(feasible(bp.cond, at, a) for a in ACCESS
                           if a != 'write'):
                    continue
                if bp.outcome == 'raise':
                    continue
                collected = any(
                    kind(c) == 'cmp' and c[1] in ('in', 'not in') and
                    contains(c[2], lambda x: kind(x) == 'attr' and
                             x[2] == 'pname') and ((c[1] == 'in') == pol)
                    for c, pol in bp.cond)
                only_write = not any(
                    feasible(bp.cond, at, a) for a in ACCESS
                    if a != 'write')
                if collected or only_write:
                    continue
                why = [term_str(c)[:50] for c, pol in bp.cond
                       if not any(is_access(t) for t in walk_term(c))]
                ctx.ob('C17.D1', gfi.qualname,
                       'getall:readable-skipped-only-if-collected', False,
                       'GetAll leaves out a readable property that was not '
                       'collected yet, on the path where %s: a property '
                       'whose value is 0, False, \'\' or empty is a '
                       'readable property' % (why[-2:] or '?'))
            for a, outs in table.items():
                want = a != 'write'
                # include: some feasible path stores it (others may skip it
                # for unrelated reasons, e.g. an already collected name);
                # omit: no feasible path stores it
                ok = (True in outs) if want else (outs == {False})
                ctx.ob('C17.D1', gfi.qualname, 'getall:access=%s' % a, ok,
                       'GetAll must %s a property whose access is %r; the '
                       'extracted filter %s' % (
                           'include' if want else 'omit', a,
                           'never stores it' if want else 'can store it'))
    if n_filter < 3:
        ctx.ob('C17.D1', gfi.qualname, 'getall:filters-on-access', False,
               'GetAll does not filter on the access mode any more')
    # D3 typing agreement ---------------------------------------------------------
    gfi2 = prog.func(O + '._dbus_PropertyGet')
    typed_get = None
    for p in Interp(prog, exc_edges=False).run(gfi2):
        if p.outcome == 'return' and kind(p.value) == 'call' and \
                _table_of(p.value[2], p.cond):
            typed_get, _key, ok = _table_of(p.value[2], p.cond)
            ctx.ob('C17.D3', gfi2.qualname, 'typed-under-membership', ok,
                   'Get must wrap the value with variantClassMap[sig] '
                   'exactly when sig is in the table')
    ctx.ob('C17.D3', O, 'get-getall-same-table',
           typed_get is not None and typed_get == typed_getall,
           'Get and GetAll must type basic values through the same '
           'variant-class table (Get: %s, GetAll: %s)' % (
               term_str(typed_get)[:40] if typed_get else None,
               term_str(typed_getall)[:40] if typed_getall else None))
    # D4 lookups continue ---------------------------------------------------------
    lookup_continues(ctx, 'C17.D4', O + '._searchCache', 3)
    # D2 / D5 descriptor -------------------------------------------------------------
    descriptor_rules(ctx, emits)
    declaration_binding(ctx)
    storage_created_once(ctx)
    answered(ctx)
    from .common import class_memo_not_inherited
    class_memo_not_inherited(
        ctx, 'C17.D3', ('objects',),
        'the properties a subclass declares are not found')
    ctx.floor('C17.D1', 12)
    ctx.floor('C17.D2', 3)
    ctx.floor('C17.D3', 2)
    ctx.floor('C17.D4', 2)
    ctx.floor('C17.D5', 4)


def answered(ctx):
    """Get / Set / GetAll are ordinary method calls of an exported object:
    "failing with an error reply otherwise" holds only if the dispatcher
    answers every call - also the one whose VALUE cannot be encoded under
    the declared type (the failure then happens inside the reply callback,
    which is why the error callback must be chained behind it).  The reply
    discipline of C10 (D1 one reply, D3 callback then errback) is
    re-reported here."""
    from . import c10

    class _Sub:
        prog = ctx.prog
        tier = ctx.tier
        extra = {}

        def ob(self, rule, where, slot, ok, msg, detail=None,
               nontrivial=True, loc=None):
            if rule in ('C10.D1', 'C10.D3'):
                ctx.ob('C17.D1', where, 'answered:%s:%s' % (rule, slot), ok,
                       '[property calls are answered by the dispatcher, %s] '
                       % rule + msg, detail, nontrivial, loc)
            return ok

        def floor(self, *a):
            pass

        def advisory(self, *a):
            pass
    c10.run(_Sub())


def descriptor_rules(ctx, emits):
    prog = ctx.prog
    selft = ('param', 'self')
    sfi = prog.func('objects.DBusProperty.__set__')
    gfi = prog.func('objects.DBusProperty.__get__')
    inst = ('param', sfi.params()[1])
    val = ('param', sfi.params()[2])
    is_emits = lambda x: kind(x) == 'attr' and x[2] == 'emits'
    paths = Interp(prog, exc_edges=False).run(sfi)
    keys_set = set()
    rows = {}
    for p in paths:
        if p.outcome == 'raise':
            continue
        fresh = [e[3] for e in p.trace if e[0] == 'setattr' and
                 e[2] == '_dbusProperties']
        stores = [e for e in p.trace if e[0] == 'setsub' and (
            (kind(e[1]) == 'attr' and e[1][2] == '_dbusProperties') or
            e[1] in fresh)]
        ctx.ob('C17.D5', sfi.qualname, 'stores-value',
               len(stores) == 1 and stores[0][3] == val,
               'assignment must store the value in the instance store on '
               'every path')
        for e in stores:
            keys_set.add(_key_form(e[2], p, selft))
        sig = [c for c in p.calls() if kind(c[2]) == 'attr' and
               c[2][2] == 'emitSignal']
        et = {t for c, _ in p.cond for t in walk_term(c) if is_emits(t)}
        if not et:
            ctx.ob('C17.D2', sfi.qualname, 'guarded-by-emits', not sig,
                   'a change signal is emitted on a path that did not '
                   'consult the notification mode')
            continue
        at = next(iter(et))
        for e in EMITS:
            if feasible(p.cond, at, e):
                rows.setdefault(e, set()).add(bool(sig))
        for c in sig:
            ok = len(c[3]) == 4 and c[3][0] == C('PropertiesChanged') and \
                c[3][1] == ('attr', selft, 'interface') and \
                kind(c[3][2]) == 'dict' and c[3][2][1] == (
                    (('attr', selft, 'pname'), val),) and \
                kind(c[3][3]) == 'list' and not c[3][3][1]
            ctx.ob('C17.D2', sfi.qualname, 'signal-shape', ok,
                   'the signal must be PropertiesChanged(interface, {name: '
                   'new value}, []); is %s' % term_str(c)[:120])
            # stored before announced
            i_store = [i for i, e2 in enumerate(p.trace)
                       if e2[0] == 'setsub']
            i_sig = [i for i, e2 in enumerate(p.trace)
                     if e2[0] == 'call' and e2[1] == c]
            ctx.ob('C17.D2', sfi.qualname, 'stored-before-announced',
                   bool(i_store) and bool(i_sig) and i_store[0] < i_sig[0],
                   'the new value must be stored before the change is '
                   'announced', nontrivial=False)
    for e in EMITS:
        want = {e == 'true'}
        ctx.ob('C17.D2', sfi.qualname, 'emits=%s' % e, rows.get(e) == want,
               'assigning a property whose notification mode is %r must '
               'emit %s; the extracted guard gives %s' % (
                   e, 'one PropertiesChanged' if e == 'true' else 'nothing',
                   sorted(rows.get(e, []))))
    keys_get = set()
    for p in Interp(prog, exc_edges=False).run(gfi):
        if p.outcome != 'return':
            continue
        v = p.value
        freshv = [e[3] for e in p.trace if e[0] == 'setattr' and
                  e[2] == '_dbusProperties']
        fresh = bool(freshv)
        ok = kind(v) == 'call' and kind(v[2]) == 'attr' and \
            v[2][2] == 'get' and v[3] and (
                (kind(v[2][1]) == 'attr' and
                 v[2][1][2] == '_dbusProperties') or v[2][1] in freshv)
        ctx.ob('C17.D5', gfi.qualname, 'reads-instance-store',
               ok or (fresh and v == NONE),
               'reading must return the value from the instance store')
        if ok:
            keys_get.add(_key_form(v[3][0], p, selft))
    ctx.ob('C17.D5', 'objects.DBusProperty', 'same-key-expression',
           keys_get == keys_set and len(keys_get) >= 1 and
           None not in keys_get,
           '__get__ and __set__ must address the instance store with the '
           'same key (get: %s, set: %s)' % (sorted(map(str, keys_get)),
                                            sorted(map(str, keys_set))))


def _key_form(k, p, selft):
    """Normalise the storage key: self.key (whatever it was computed from on
    this path) -> the expression it is computed from when assigned in the
    function, else 'self.key'."""
    want = ('binop', '+', ('attr', selft, 'interface'),
            ('attr', selft, 'pname'))
    if k == ('attr', selft, 'key') or k == want:
        return 'interface+pname'
    return None
