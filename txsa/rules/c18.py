"""C18 - validators accept exactly the D-Bus grammar: each validator is
translated into a regular language and compared with the specification's
grammar (language inclusion both ways, shortest witness on failure), for ALL
strings."""
import ast
import re

from .. import spec
from ..automata import (DFA, Alphabet, RegexCompiler, dfa_all, dfa_all_chars,
                        dfa_char_at,
                        dfa_from_words_pred, dfa_len, dfa_none)
from ..loader import AnalysisError, dotted

META = {
    'level': 'proof',
    'rule_text': 'Obligations: per validator, one language-inclusion check '
                 'per grammar component (accepts nothing outside it), one '
                 'for the full grammar, one for completeness (rejects no '
                 'valid name), one for the exception type and one for the '
                 'length bound; plus the constructor-validation obligations '
                 'shared with C03-D7. Each is decided for all strings over '
                 'the symbolic alphabet.',
    'explanation': 'Decision procedure, not sampling: every validator\'s '
                   'body (sequential "if cond: raise", try/except '
                   'conversion, delegation to another validator) is '
                   'translated from the AST into a DFA over the coarsest '
                   'partition of code points U+0000..U+2FFF respected by '
                   'all character tests (128 ASCII singletons + the '
                   'non-ASCII classes separated by \\d, \\w, \\s, '
                   'str.isdigit); compiled regex patterns are read from the '
                   'source and parsed with re._parser; "evaluating the '
                   'condition raises" is tracked as a separate language. '
                   'The result is compared with the specification grammar '
                   'given as component languages; emptiness of each '
                   'difference is decided by BFS with a shortest witness. '
                   'The 255 bound is extracted separately and compared as an '
                   'interval. Constructs outside the fragment give '
                   'ANALYSIS-ERROR, never a verdict.',
    'trusted_base': ['txsa/spec grammars (D-Bus spec, "Valid Names")',
                     'CPython re._parser / re character-class semantics on '
                     'single characters / str.isdigit', 'txsa.automata'],
    'assumptions': ['code points above U+2FFF behave like some class of the '
                    'sample (they are outside every character set the '
                    'grammar allows)'],
    'decided': ['D1 language equality of each validator with the grammar '
                '(all strings)', 'D2 constructor validation (= C03-D7)'],
    'undecided': [],
}

ASCII = [chr(i) for i in range(128)]


def make_alphabet():
    preds = [(lambda ch, c=c: ch == c) for c in ASCII]
    for pat in (r'\d', r'\w', r'\s'):
        rx = re.compile(pat)
        preds.append(lambda ch, rx=rx: rx.fullmatch(ch) is not None)
    preds.append(lambda ch: ch.isdigit())
    preds.append(lambda ch: ch.isalpha())
    preds.append(lambda ch: ch.isalnum())
    preds.append(lambda ch: ord(ch) < 128)
    return Alphabet(preds)


class Lang:
    """(true, raises): strings for which the predicate is true / raises."""

    def __init__(self, true, raises):
        self.true = true
        self.raises = raises

    def false(self):
        return (self.true | self.raises).complement()


class Translator:
    def __init__(self, prog, ab):
        self.prog = prog
        self.ab = ab
        self.rc = RegexCompiler(ab)
        self.ALL = dfa_all(ab.n)
        self._modconst = {}
        self.NONE = dfa_none(ab.n)
        self.cache = {}

    # -- module-level compiled patterns ------------------------------------
    def pattern_of(self, mod, name):
        vals = mod.assigns.get(name)
        if not vals or len(vals) != 1:
            return None
        v = vals[0]
        if isinstance(v, ast.Call) and dotted(v.func) in ('re.compile',) \
                and v.args and isinstance(v.args[0], ast.Constant) and \
                isinstance(v.args[0].value, str):
            flags = 0
            if len(v.args) > 1 or v.keywords:
                raise AnalysisError('re.compile with flags is outside the '
                                    'supported fragment')
            return v.args[0].value
        return None

    # -- expressions ------------------------------------------------------------
    def is_var(self, node, var, env):
        if isinstance(node, ast.Name) and isinstance(
                env.get(node.id), tuple) and env[node.id][:1] == ('view',):
            return False      # (a helper's parameter of the same name that
            #                   is bound to a view of the string)
        return isinstance(node, ast.Name) and (
            node.id == var or env.get(node.id) == ('var',))

    def _base(self, node, var, env):
        """0 for the validated string itself, k for a local bound to
        <var>[k:] (env value ('view', k)), else None."""
        if isinstance(node, ast.Name) and isinstance(
                env.get(node.id), tuple) and env[node.id][:1] == ('view',):
            return env[node.id][1]
        if self.is_var(node, var, env):
            return 0
        return None

    def string_view(self, node, var, env):
        """Recognise <var> or <var>[k:] ; returns shift k or None."""
        b0 = self._base(node, var, env)
        if b0 is not None:
            return b0
        if isinstance(node, ast.Subscript) and \
                self._base(node.value, var, env) is not None and \
                self._base(node.value, var, env) > 0 and \
                isinstance(node.slice, ast.Slice) and \
                node.slice.upper is None and node.slice.step is None and \
                isinstance(node.slice.lower, ast.Constant) and \
                isinstance(node.slice.lower.value, int) and \
                node.slice.lower.value >= 0:
            return self._base(node.value, var, env) + node.slice.lower.value
        if isinstance(node, ast.Subscript) and \
                self.is_var(node.value, var, env) and \
                isinstance(node.slice, ast.Slice) and \
                node.slice.upper is None and node.slice.step is None and \
                isinstance(node.slice.lower, ast.Constant) and \
                isinstance(node.slice.lower.value, int) and \
                node.slice.lower.value >= 0:
            return node.slice.lower.value
        return None

    def shift(self, dfa, k):
        """{ s : s[k:] in L(dfa) }"""
        if k == 0:
            return dfa
        eps_in = dfa.start in dfa.accept
        n0 = k
        trans = []
        acc = set()
        for i in range(k):
            nxt = i + 1 if i + 1 < k else k + dfa.start
            trans.append([nxt] * self.ab.n)
            if eps_in:
                acc.add(i)
        for s in range(dfa.n):
            trans.append([k + t for t in dfa.trans[s]])
            if s in dfa.accept:
                acc.add(k + s)
        return DFA(self.ab.n, trans, 0, acc)

    def char_index(self, node, var, env):
        """<var>[i] with constant i -> i"""
        if isinstance(node, ast.Subscript) and \
                self.is_var(node.value, var, env):
            sl = node.slice
            if isinstance(sl, ast.Constant) and isinstance(sl.value, int):
                return sl.value
            if isinstance(sl, ast.UnaryOp) and isinstance(sl.op, ast.USub) \
                    and isinstance(sl.operand, ast.Constant):
                return -sl.operand.value
        if isinstance(node, ast.Subscript) and (
                self._base(node.value, var, env) or 0) > 0:
            k = self._base(node.value, var, env)
            sl = node.slice
            if isinstance(sl, ast.Constant) and isinstance(sl.value, int) \
                    and sl.value >= 0:
                return k + sl.value       # view[i] is var[k + i]
            if isinstance(sl, ast.UnaryOp) and isinstance(sl.op, ast.USub) \
                    and isinstance(sl.operand, ast.Constant) and \
                    sl.operand.value == 1:
                return ('last', k)        # view[-1]: needs len(var) > k
        return None

    def char_lang(self, i, pred):
        if isinstance(i, tuple):
            return dfa_char_at(self.ab, -1, pred) & \
                dfa_len(self.ab, '>', i[1])
        return dfa_char_at(self.ab, i, pred)

    def raises_at(self, idx):
        """strings for which var[idx] raises IndexError"""
        if isinstance(idx, tuple):
            return dfa_len(self.ab, '<=', idx[1])
        if idx >= 0:
            return dfa_len(self.ab, '<=', idx)
        return dfa_len(self.ab, '<', -idx)

    @staticmethod
    def _inline_locals(node, env):
        """`length = len(n)` ... `if length < 1`: replace a local bound to
        an expression by that expression (locals bound to the validated
        string itself are handled by is_var)."""
        if not any(isinstance(v, ast.AST) for v in env.values()):
            return node

        class T(ast.NodeTransformer):
            def visit_Name(self, n):
                v = env.get(n.id)
                if isinstance(n.ctx, ast.Load) and isinstance(v, ast.AST):
                    return v
                return n
        import copy
        return T().visit(copy.deepcopy(node))

    def _inline_module_constants(self, node, var, env, mod):
        """`if len(n) > _MAX_NAME_LENGTH`: a module-level name bound once to
        an int / str / bool (and never rebound or mutated) is its value."""
        names = {n.id for n in ast.walk(node) if isinstance(n, ast.Name) and
                 isinstance(n.ctx, ast.Load) and n.id not in env and
                 n.id != var}
        sub = {}
        for nm in names:
            vals = mod.assigns.get(nm)
            if not vals or len(vals) != 1 or nm in mod.mutated:
                continue
            key = (mod.name, nm)
            if key not in self._modconst:
                from ..sym import Interp, try_py
                v = Interp(self.prog).eval_in_module(mod, vals[0])
                ok, pv = try_py(v) if v is not None else (False, None)
                self._modconst[key] = ast.Constant(value=pv) if ok and \
                    isinstance(pv, (int, str, bool)) else None
            if self._modconst[key] is not None:
                sub[nm] = self._modconst[key]
        if not sub:
            return node

        class T(ast.NodeTransformer):
            def visit_Name(self, n):
                if isinstance(n.ctx, ast.Load) and n.id in sub:
                    return ast.copy_location(sub[n.id], n)
                return n
        import copy
        return T().visit(copy.deepcopy(node))

    def _first_match(self, v, env, mod):
        """(rows, target, tests) if v is next((... for T in TABLE if
        TESTS), None) over a literal table (in place, a local, or a
        module-level constant); else None."""
        if not (isinstance(v, ast.Call) and isinstance(v.func, ast.Name) and
                v.func.id == 'next' and len(v.args) == 2 and
                isinstance(v.args[1], ast.Constant) and
                v.args[1].value is None and
                isinstance(v.args[0], ast.GeneratorExp) and
                len(v.args[0].generators) == 1):
            return None
        g = v.args[0].generators[0]
        it = g.iter
        if isinstance(it, ast.Name):
            if isinstance(env.get(it.id), ast.AST):
                it = env[it.id]
            else:
                vals = mod.assigns.get(it.id)
                it = vals[0] if vals and len(vals) == 1 else None
        if not isinstance(it, (ast.Tuple, ast.List)) or not g.ifs:
            return None
        return list(it.elts), g.target, list(g.ifs)

    def _first_lang(self, spec, var, env, mod):
        """Lang(some row matches, evaluation raises) for a ('first', rows,
        target, tests) marker: the rows are tried in order, a row is only
        evaluated when all earlier ones were false."""
        _, rows, target, tests = spec
        alive = self.ALL
        hit = self.NONE
        raises = self.NONE
        for row in rows:
            env2 = dict(env)
            if isinstance(target, ast.Name):
                env2[target.id] = row
            elif isinstance(target, ast.Tuple) and \
                    isinstance(row, (ast.Tuple, ast.List)) and \
                    len(row.elts) == len(target.elts):
                for t, e in zip(target.elts, row.elts):
                    env2[t.id] = e
            else:
                raise AnalysisError('rule table outside the fragment')
            test = tests[0] if len(tests) == 1 else ast.BoolOp(
                op=ast.And(), values=tests)
            c = self.cond(test, var, env2, mod)
            raises = raises | (alive & c.raises)
            hit = hit | (alive & c.true)
            alive = alive & c.false()
        return Lang(hit, raises)

    def cond(self, node, var, env, mod):
        ab = self.ab
        # X / X is not None / X is None for X = next((..), None)
        tgt, neg = node, False
        if isinstance(node, ast.Compare) and len(node.ops) == 1 and \
                isinstance(node.ops[0], (ast.Is, ast.IsNot)) and \
                isinstance(node.comparators[0], ast.Constant) and \
                node.comparators[0].value is None:
            tgt, neg = node.left, isinstance(node.ops[0], ast.Is)
        if isinstance(tgt, ast.Name) and isinstance(env.get(tgt.id), tuple) \
                and env[tgt.id][:1] == ('first',):
            la = self._first_lang(env[tgt.id], var, env, mod)
            return Lang(la.false(), la.raises) if neg else la
        if not (isinstance(node, ast.Name) and node.id in env):
            node = self._inline_locals(node, env)
        node = self._inline_module_constants(node, var, env, mod)
        memos = {n for (mn, n) in self.prog.runtime_memos()
                 if mn == mod.name}
        if isinstance(node, ast.Compare) and len(node.ops) == 1:
            l_, r_ = node.left, node.comparators[0]
            # `n in _seen`: a run-time memo of earlier verdicts is
            # transparent (its soundness is the common clause DM's business):
            # the language is the one decided with the memo empty
            if isinstance(node.ops[0], (ast.In, ast.NotIn)) and \
                    isinstance(r_, ast.Name) and r_.id in memos:
                return Lang(self.ALL if isinstance(node.ops[0], ast.NotIn)
                            else self.NONE, self.NONE)
            # `type(n) is str`: the property quantifies over strings
            if isinstance(node.ops[0], (ast.Is, ast.IsNot, ast.Eq,
                                        ast.NotEq)) and \
                    isinstance(l_, ast.Call) and \
                    isinstance(l_.func, ast.Name) and l_.func.id == 'type' \
                    and len(l_.args) == 1 and \
                    self.is_var(l_.args[0], var, env) and \
                    isinstance(r_, ast.Name):
                is_str = r_.id == 'str'
                if isinstance(node.ops[0], (ast.IsNot, ast.NotEq)):
                    is_str = not is_str
                return Lang(self.ALL if is_str else self.NONE, self.NONE)
        if isinstance(node, ast.Call) and isinstance(node.func, ast.Name) \
                and node.func.id == 'isinstance' and len(node.args) == 2 and \
                self.is_var(node.args[0], var, env):
            t_ = node.args[1]
            names = [e.id for e in (t_.elts if isinstance(t_, ast.Tuple)
                                    else [t_]) if isinstance(e, ast.Name)]
            return Lang(self.ALL if 'str' in names else self.NONE, self.NONE)
        if isinstance(node, ast.Constant) and \
                isinstance(node.value, (bool, int, type(None))):
            # an option left at its default (see validator())
            return Lang(self.ALL if node.value else self.NONE, self.NONE)
        if isinstance(node, ast.Call) and isinstance(node.func, ast.Lambda) \
                and not node.keywords and \
                len(node.args) == len(node.func.args.args) and \
                not node.func.args.vararg and not node.func.args.kwarg:
            # (lambda n: P(n))(x)  ==  P(x)
            import copy
            sub = {a.arg: v for a, v in zip(node.func.args.args, node.args)}

            class S(ast.NodeTransformer):
                def visit_Name(self, n):
                    if isinstance(n.ctx, ast.Load) and n.id in sub:
                        return sub[n.id]
                    return n
            return self.cond(S().visit(copy.deepcopy(node.func.body)), var,
                             env, mod)
        if isinstance(node, ast.BoolOp):
            parts = [self.cond(v, var, env, mod) for v in node.values]
            cur = parts[0]
            for nx in parts[1:]:
                if isinstance(node.op, ast.And):
                    t = cur.true & nx.true
                    r = cur.raises | (cur.true & nx.raises)
                else:
                    f = cur.false()
                    t = cur.true | (f & nx.true)
                    r = cur.raises | (f & nx.raises)
                cur = Lang(t, r)
            return cur
        if isinstance(node, ast.UnaryOp) and isinstance(node.op, ast.Not):
            a = self.cond(node.operand, var, env, mod)
            return Lang(a.false(), a.raises)
        if isinstance(node, ast.Name) and node.id in env and \
                isinstance(env[node.id], ast.AST):
            return self.cond(env[node.id], var, env, mod)
        if isinstance(node, ast.Compare) and len(node.ops) == 1:
            op = node.ops[0]
            l, r = node.left, node.comparators[0]
            # const in view / not in
            if isinstance(op, (ast.In, ast.NotIn)) and \
                    isinstance(l, ast.Constant) and isinstance(l.value, str):
                k = self.string_view(r, var, env)
                if k is not None:
                    d = self.shift(dfa_from_words_pred(ab, 'contains',
                                                       l.value), k)
                    if isinstance(op, ast.NotIn):
                        d = d.complement()
                    return Lang(d, self.NONE)
            # var[i] in 'chars'
            if isinstance(op, (ast.In, ast.NotIn)) and \
                    isinstance(r, ast.Constant) and isinstance(r.value, str):
                i = self.char_index(l, var, env)
                if i is not None:
                    chars = r.value
                    d = self.char_lang(i, lambda ch: ch in chars)
                    rs = self.raises_at(i)
                    if isinstance(op, ast.NotIn):
                        d = (d | rs).complement()
                    return Lang(d, rs)
            # len(var) OP k
            if isinstance(l, ast.Call) and isinstance(l.func, ast.Name) and \
                    l.func.id == 'len' and len(l.args) == 1 and \
                    isinstance(r, ast.Constant) and isinstance(r.value, int):
                k = self.string_view(l.args[0], var, env)
                opn = {ast.Gt: '>', ast.GtE: '>=', ast.Lt: '<', ast.LtE: '<=',
                       ast.Eq: '==', ast.NotEq: '!='}.get(type(op))
                if k is not None and opn:
                    if r.value > 64:
                        self.len_atoms.append((opn, r.value + k))
                        self.len_arms.append(getattr(self, '_arm', ()))
                        return Lang(self.NONE, self.NONE)
                    return Lang(self.shift(dfa_len(ab, opn, r.value), k)
                                if k else dfa_len(ab, opn, r.value),
                                self.NONE)
            # var[i] == 'c' / != 'c'
            if isinstance(op, (ast.Eq, ast.NotEq)):
                for a, b in ((l, r), (r, l)):
                    i = self.char_index(a, var, env)
                    if i is not None and isinstance(b, ast.Constant) and \
                            isinstance(b.value, str):
                        c = b.value
                        d = self.char_lang(i, lambda ch: ch == c) \
                            if len(c) == 1 else self.NONE
                        rs = self.raises_at(i)
                        if isinstance(op, ast.NotEq):
                            d = (d | rs).complement()
                        return Lang(d, rs)
                    # var[:k] == 'c'
                    if isinstance(a, ast.Subscript) and \
                            self.is_var(a.value, var, env) and \
                            isinstance(a.slice, ast.Slice) and \
                            a.slice.lower is None and a.slice.step is None \
                            and isinstance(a.slice.upper, ast.Constant) and \
                            isinstance(a.slice.upper.value, int) and \
                            a.slice.upper.value >= 0 and \
                            isinstance(b, ast.Constant) and \
                            isinstance(b.value, str):
                        kk, c = a.slice.upper.value, b.value
                        if len(c) == kk:
                            d = dfa_from_words_pred(ab, 'startswith', c)
                        elif len(c) < kk:
                            d = dfa_from_words_pred(ab, 'equals', c)
                        else:
                            d = self.NONE
                        if isinstance(op, ast.NotEq):
                            d = d.complement()
                        return Lang(d, self.NONE)
                    k = self.string_view(a, var, env)
                    if k is not None and isinstance(b, ast.Constant) and \
                            isinstance(b.value, str):
                        d = self.shift(dfa_from_words_pred(
                            ab, 'equals', b.value), k)
                        if isinstance(op, ast.NotEq):
                            d = d.complement()
                        return Lang(d, self.NONE)
            # X is None / is not None for regex results
            if isinstance(op, (ast.Is, ast.IsNot)) and \
                    isinstance(r, ast.Constant) and r.value is None:
                a = self.cond(l, var, env, mod)
                if isinstance(op, ast.Is):
                    return Lang(a.false(), a.raises)
                return a
        if isinstance(node, ast.Call):
            f = node.func
            if isinstance(f, ast.Attribute):
                # var.startswith('x') / endswith
                k = self.string_view(f.value, var, env)
                if k is not None and f.attr in ('startswith', 'endswith') \
                        and len(node.args) == 1:
                    a = node.args[0]
                    consts = None
                    if isinstance(a, ast.Constant) and \
                            isinstance(a.value, str):
                        consts = [a.value]
                    elif isinstance(a, ast.Tuple) and all(
                            isinstance(e, ast.Constant) and
                            isinstance(e.value, str) for e in a.elts):
                        consts = [e.value for e in a.elts]
                    if consts is not None:
                        d = self.NONE
                        for cst in consts:
                            d = d | dfa_from_words_pred(ab, f.attr, cst)
                        return Lang(self.shift(d, k), self.NONE)
                # var.isalnum() etc. on the whole string (or a tail of it)
                if k is not None and not node.args and f.attr in (
                        'isdigit', 'isalpha', 'isalnum', 'isspace',
                        'isascii'):
                    meth = f.attr
                    d = dfa_all_chars(ab, lambda ch: getattr(ch, meth)(),
                                      empty=(meth == 'isascii'))
                    return Lang(self.shift(d, k), self.NONE)
                # var[i].isdigit() etc.
                i = self.char_index(f.value, var, env)
                if i is not None and not node.args and f.attr in (
                        'isdigit', 'isalpha', 'isalnum', 'isupper',
                        'islower', 'isspace'):
                    meth = f.attr
                    d = self.char_lang(i,
                                    lambda ch: getattr(ch, meth)())
                    return Lang(d, self.raises_at(i))
                # PATTERN.search(var)
                if isinstance(f.value, ast.Name) and \
                        f.attr in ('search', 'match', 'fullmatch') and \
                        len(node.args) == 1:
                    pat = self.pattern_of(mod, f.value.id)
                    k = self.string_view(node.args[0], var, env)
                    if pat is not None and k is not None:
                        key = (pat, f.attr)
                        if key not in self.cache:
                            self.cache[key] = self.rc.language(pat, f.attr)
                        return Lang(self.shift(self.cache[key], k),
                                    self.NONE)
                # re.search(pattern, var)
                if dotted(f) in ('re.search', 're.match', 're.fullmatch') \
                        and len(node.args) == 2 and \
                        isinstance(node.args[0], ast.Constant):
                    k = self.string_view(node.args[1], var, env)
                    if k is not None:
                        d = self.rc.language(node.args[0].value, f.attr)
                        return Lang(self.shift(d, k), self.NONE)
        raise AnalysisError('validator condition outside the supported '
                            'fragment: %s' % ast.unparse(node)[:100])

    # -- statements ----------------------------------------------------------------
    def validator(self, fi, _depth=0):
        """-> dict(accept=DFA, wrong_exc=[(DFA, what)], len_atoms=[...])"""
        if fi.qualname in self.cache:
            return self.cache[fi.qualname]
        if _depth > 4:
            raise AnalysisError('validator delegation too deep')
        var = fi.params()[0]
        self.len_atoms = []
        self.len_arms = []      # the arm of a conditional view each atom
        #                         of len_atoms was met on (parallel list)
        self._arm = ()
        self._arms_seen = {()}
        st = {'alive': self.ALL, 'wrong': [], 'accepted_early': self.NONE}
        self.block(fi.node.body, fi, var, self._option_defaults(fi), st,
                   in_try=False, depth=_depth)
        res = {'accept': (st['alive'] | st['accepted_early']).minimize(),
               'wrong': st['wrong'], 'len_atoms': list(self.len_atoms),
               'len_arms': list(self.len_arms),
               'arms': set(self._arms_seen)}
        self.cache[fi.qualname] = res
        return res

    def _option_defaults(self, fi):
        """Further parameters of a validator are options; the language that
        is decided is the one with every option at its (constant) default,
        which is sound for the property as long as no call in the package
        passes one - the message constructors must get the plain grammar."""
        a = fi.node.args
        extra = a.args[1:] + a.kwonlyargs
        if not extra and not a.vararg and not a.kwarg:
            return {}
        defaults = dict(zip([x.arg for x in a.args][::-1],
                            a.defaults[::-1]))
        defaults.update({x.arg: d for x, d in zip(a.kwonlyargs,
                                                  a.kw_defaults) if d})
        env = {}
        for x in extra:
            d = defaults.get(x.arg)
            if not isinstance(d, ast.Constant):
                raise AnalysisError('validator %s takes a further parameter '
                                    '%r without a constant default'
                                    % (fi.qualname, x.arg))
            env[x.arg] = d
        for f in self.prog.all_funcs.values():
            for n in ast.walk(f.node):
                if isinstance(n, ast.Call) and (
                        (isinstance(n.func, ast.Name) and
                         n.func.id == fi.name) or
                        (isinstance(n.func, ast.Attribute) and
                         n.func.attr == fi.name)) and \
                        (len(n.args) != 1 or n.keywords):
                    raise AnalysisError(
                        '%s: %s is called with an option set; the language '
                        'with options is outside the fragment'
                        % (f.qualname, fi.name))
        return env

    def _is_memo_store(self, s, mod):
        """`_seen.add(n)` / `_seen[n] = True` / `if <anything>: <such
        stores only>` (bounded memo) / `if len(_seen) > N: _seen.clear()` on
        a run-time memo of the module."""
        memos = {n for (mn, n) in self.prog.runtime_memos()
                 if mn == mod.name}
        if not memos:
            return False

        def store(x):
            if isinstance(x, ast.Expr) and isinstance(x.value, ast.Call) and \
                    isinstance(x.value.func, ast.Attribute) and \
                    isinstance(x.value.func.value, ast.Name) and \
                    x.value.func.value.id in memos and \
                    x.value.func.attr in ('add', 'setdefault', 'clear', 'pop',
                                          'popitem', 'discard', 'append'):
                return True
            if isinstance(x, ast.Assign) and len(x.targets) == 1 and \
                    isinstance(x.targets[0], ast.Subscript) and \
                    isinstance(x.targets[0].value, ast.Name) and \
                    x.targets[0].value.id in memos:
                return True
            if isinstance(x, ast.If) and not any(
                    isinstance(n, (ast.Raise, ast.Return))
                    for n in ast.walk(x)):
                return all(store(y) for y in x.body + x.orelse)
            return False
        return store(s)

    def exc_name(self, node, mod=None):
        if isinstance(node, ast.Raise) and node.exc is not None:
            e = node.exc
            if isinstance(e, ast.Call):
                e = e.func
            d = dotted(e)
            nm = d.split('.')[-1] if d else '?'
            # `raise _invalid(kind, n, e)`: a module-level helper every
            # return of which is `<ExceptionClass>(...)` builds that class
            for m in ([mod] if mod is not None else
                      self.prog.modules.values()):
                f = m.funcs.get(nm) if isinstance(e, ast.Name) else None
                if f is None:
                    continue
                rets = [n.value for n in ast.walk(f.node)
                        if isinstance(n, ast.Return)]
                names = {(dotted(r.func) or '?').split('.')[-1]
                         if isinstance(r, ast.Call) else '?' for r in rets}
                if rets and len(names) == 1 and '?' not in names and not any(
                        isinstance(n, ast.Raise) for n in ast.walk(f.node)):
                    return names.pop()
            return nm
        return None

    def block(self, stmts, fi, var, env, st, in_try, depth):
        mod = fi.module
        for s in stmts:
            if isinstance(s, ast.Expr) and isinstance(s.value, ast.Constant):
                continue
            if isinstance(s, ast.Pass):
                continue
            if isinstance(s, ast.For) and len(s.orelse) == 1 and \
                    isinstance(s.orelse[0], ast.Assign) and \
                    len(s.body) == 1:
                # the search loop the loader normalises `x = next((E for ..
                # in T if C), D)` into: read it back as that assignment
                inner, ifs = s.body[0], []
                while isinstance(inner, ast.If) and not inner.orelse and \
                        len(inner.body) in (1, 2):
                    ifs.append(inner.test)
                    if len(inner.body) == 2:
                        break
                    inner = inner.body[0]
                if isinstance(inner, ast.If) and len(inner.body) == 2 and \
                        isinstance(inner.body[0], ast.Assign) and \
                        isinstance(inner.body[1], ast.Break) and \
                        ast.dump(inner.body[0].targets[0]) == ast.dump(
                            s.orelse[0].targets[0]):
                    gen = ast.GeneratorExp(
                        elt=inner.body[0].value,
                        generators=[ast.comprehension(
                            target=s.target, iter=s.iter, ifs=ifs,
                            is_async=0)])
                    call = ast.Call(func=ast.Name(id='next', ctx=ast.Load()),
                                    args=[gen, s.orelse[0].value],
                                    keywords=[])
                    s = ast.copy_location(ast.Assign(
                        targets=[s.orelse[0].targets[0]], value=call), s)
                    ast.fix_missing_locations(s)
            if isinstance(s, ast.Assign) and len(s.targets) == 1 and \
                    isinstance(s.targets[0], ast.Name) and \
                    self._first_match(s.value, env, mod) is not None:
                # X = next((msg for test, msg in TABLE if test()), None)
                env = dict(env)
                env[s.targets[0].id] = ('first',) + self._first_match(
                    s.value, env, mod)
                continue
            if isinstance(s, ast.Assign) and len(s.targets) == 1 and \
                    isinstance(s.targets[0], ast.Name) and \
                    isinstance(s.value, ast.IfExp) and \
                    self.string_view(s.value.body, var, env) is not None and \
                    self.string_view(s.value.orelse, var, env) is not None:
                # name = n[1:] if <test> else n: the rest of the block is
                # decided once for each arm, on the strings that take it
                c = self.cond(s.value.test, var, env, mod)
                rest = stmts[stmts.index(s) + 1:]
                outs = []
                base_arm = self._arm
                self._arms_seen.discard(base_arm)
                for lang, arm in ((c.true, s.value.body),
                                  (c.false(), s.value.orelse)):
                    self._arm = base_arm + ((s.lineno, arm is s.value.body),)
                    self._arms_seen.add(self._arm)
                    k_ = self.string_view(arm, var, env)
                    env2 = dict(env)
                    env2[s.targets[0].id] = ('var',) if k_ == 0 else (
                        'view', k_)
                    sub = {'alive': st['alive'] & lang, 'wrong': st['wrong'],
                           'accepted_early': self.NONE}
                    self.block(rest, fi, var, env2, sub, in_try, depth)
                    outs.append(sub)
                self._arm = base_arm
                st['alive'] = outs[0]['alive'] | outs[1]['alive']
                st['accepted_early'] = st['accepted_early'] | \
                    outs[0]['accepted_early'] | outs[1]['accepted_early']
                return
            if isinstance(s, ast.Assign) and len(s.targets) == 1 and \
                    isinstance(s.targets[0], ast.Name):
                env = dict(env)
                if self.is_var(s.value, var, env):
                    env[s.targets[0].id] = ('var',)
                elif (self.string_view(s.value, var, env) or 0) > 0:
                    env[s.targets[0].id] = ('view', self.string_view(
                        s.value, var, env))
                else:
                    env[s.targets[0].id] = s.value
                continue
            if self._is_memo_store(s, mod):
                continue       # remembering a verdict changes no verdict
            if isinstance(s, ast.If):
                self.if_stmt(s, fi, var, env, st, in_try, depth)
                continue
            if isinstance(s, ast.For) and not s.orelse:
                # rules kept as a table: for check, text in TABLE: if
                # check(n): raise ...   - the body once per row
                it = s.iter
                if isinstance(it, ast.Name) and it.id not in env:
                    vals = mod.assigns.get(it.id)
                    it = vals[0] if vals and len(vals) == 1 and \
                        it.id not in mod.mutated else None
                if isinstance(it, (ast.Tuple, ast.List)) and \
                        len(it.elts) <= 32:
                    for row in it.elts:
                        env2 = dict(env)
                        if isinstance(s.target, ast.Name):
                            env2[s.target.id] = row
                        elif isinstance(s.target, ast.Tuple) and \
                                isinstance(row, (ast.Tuple, ast.List)) and \
                                len(row.elts) == len(s.target.elts) and \
                                all(isinstance(t, ast.Name)
                                    for t in s.target.elts):
                            for t, e in zip(s.target.elts, row.elts):
                                env2[t.id] = e
                        else:
                            raise AnalysisError(
                                'loop over a rule table outside the '
                                'fragment in %s' % fi.qualname)
                        self.block(s.body, fi, var, env2, st, in_try, depth)
                    continue
            if isinstance(s, ast.Try):
                handlers_ok = all(self.handler_converts(h) for h in
                                  s.handlers) and not s.finalbody
                if not handlers_ok:
                    raise AnalysisError('try/except shape outside the '
                                        'fragment in %s' % fi.qualname)
                catches_all = any(
                    h.type is None or (dotted(h.type) or '').split('.')[-1]
                    in ('Exception', 'BaseException') for h in s.handlers)
                before = st['alive']
                self.block(s.body, fi, var, env, st,
                           in_try='all' if catches_all else 'marshalling',
                           depth=depth)
                # a handler that prepares its message by unpacking a split
                # of the caught text into a fixed number of names fails
                # (ValueError) when the text - which quotes the rejected name
                # - has another number of parts: the rejection then comes
                # out as the wrong exception
                for h in s.handlers:
                    why = self.handler_can_fail(h)
                    if why:
                        st['wrong'].append((
                            before & st['alive'].complement(),
                            'its handler can fail before it converts (%s), '
                            'for rejected names that contain the separator'
                            % why))
                if s.orelse:
                    self.block(s.orelse, fi, var, env, st, in_try, depth)
                continue
            if isinstance(s, ast.Expr) and isinstance(s.value, ast.Call):
                callee = self.prog.resolve_name_expr(mod, s.value.func)
                if callee and callee[0] == 'func' and \
                        len(s.value.args) == 1 and \
                        self.is_var(s.value.args[0], var, env):
                    saved = self.len_atoms
                    saved_arms, saved_arm, saved_seen = \
                        self.len_arms, self._arm, self._arms_seen
                    sub = self.validator(callee[1], depth + 1)
                    self.len_atoms = saved + sub['len_atoms']
                    self.len_arms = saved_arms + [saved_arm] * len(
                        sub['len_atoms'])
                    self._arm, self._arms_seen = saved_arm, saved_seen
                    st['alive'] = st['alive'] & sub['accept']
                    if in_try != 'all':
                        # (inside a catch-all that converts, whatever the
                        # delegate raises comes out as MarshallingError)
                        st['wrong'].extend(sub['wrong'])
                    continue
            if isinstance(s, ast.Expr) and isinstance(s.value, ast.Call):
                # a helper that takes the string (or a view of it: n[1:], or
                # `n[1:] if <test> else n`) and constants, and only tests and
                # raises: its body is decided in place, parameter for view
                callee = self.prog.resolve_name_expr(mod, s.value.func)
                hf = callee[1] if callee and callee[0] == 'func' else None
                if isinstance(hf, str):
                    hf = self.prog.all_funcs.get(hf)
                a_ = s.value.args
                if hf is not None and a_ and not s.value.keywords and \
                        len(a_) == len(hf.params()) and all(
                            isinstance(x, ast.Constant) for x in a_[1:]) and \
                        not any(isinstance(x, (ast.Return, ast.Yield))
                                for x in ast.walk(hf.node)) and depth < 4:
                    first = a_[0]
                    arms = [(None, first)]
                    if isinstance(first, ast.IfExp):
                        c = self.cond(first.test, var, env, mod)
                        arms = [(c.true, first.body),
                                (c.false(), first.orelse)]
                    if all(self.string_view(e, var, env) is not None
                           for _, e in arms):
                        base_arm = self._arm
                        if len(arms) == 2:
                            self._arms_seen.discard(base_arm)
                        outs = []
                        for lang, e in arms:
                            k_ = self.string_view(e, var, env)
                            env2 = dict(env)
                            env2[hf.params()[0]] = ('var',) if k_ == 0 \
                                else ('view', k_)
                            for prm, cst in zip(hf.params()[1:], a_[1:]):
                                env2[prm] = cst
                            if len(arms) == 2:
                                self._arm = base_arm + (
                                    (s.lineno, e is first.body),)
                                self._arms_seen.add(self._arm)
                            sub = {'alive': st['alive'] if lang is None
                                   else st['alive'] & lang,
                                   'wrong': st['wrong'],
                                   'accepted_early': self.NONE}
                            self.block(hf.node.body, hf, var, env2, sub,
                                       in_try, depth + 1)
                            outs.append(sub)
                        self._arm = base_arm
                        alive = outs[0]['alive']
                        for o in outs[1:]:
                            alive = alive | o['alive']
                        st['alive'] = alive
                        continue
            if isinstance(s, ast.Return):
                st['accepted_early'] = st['accepted_early'] | st['alive']
                st['alive'] = self.NONE
                continue
            if isinstance(s, ast.Raise):
                name = self.exc_name(s)
                if not in_try and name != 'MarshallingError':
                    st['wrong'].append((st['alive'], 'raises %s' % name))
                st['alive'] = self.NONE
                continue
            raise AnalysisError('statement outside the supported fragment '
                                'in %s: %s' % (fi.qualname,
                                               ast.unparse(s)[:80]))

    @staticmethod
    def handler_can_fail(h):
        for st in h.body[:-1]:
            if isinstance(st, ast.Assign) and len(st.targets) == 1 and \
                    isinstance(st.targets[0], (ast.Tuple, ast.List)) and \
                    isinstance(st.value, ast.Call) and \
                    isinstance(st.value.func, ast.Attribute) and \
                    st.value.func.attr in ('split', 'rsplit', 'splitlines'):
                return '%s unpacks into %d names' % (
                    ast.unparse(st.value)[:40], len(st.targets[0].elts))
        return None

    def handler_converts(self, h):
        """except ...: raise MarshallingError(...)"""
        if not h.body or not isinstance(h.body[-1], ast.Raise) or \
                self.exc_name(h.body[-1]) != 'MarshallingError':
            return False
        # statements before the raise may only prepare the message
        for st in h.body[:-1]:
            if not isinstance(st, (ast.Assign, ast.AugAssign, ast.Expr)):
                return False
            if any(isinstance(n, (ast.Raise, ast.Return, ast.Yield))
                   for n in ast.walk(st)):
                return False
        return True

    def if_stmt(self, s, fi, var, env, st, in_try, depth):
        c = self.cond(s.test, var, env, fi.module)
        alive = st['alive']
        hit_r = alive & c.raises
        if in_try != 'all' and not hit_r.is_empty():
            st['wrong'].append((hit_r, 'evaluating "%s" raises IndexError'
                                % ast.unparse(s.test)[:60]))
        # true branch
        sub = {'alive': alive & c.true, 'wrong': st['wrong'],
               'accepted_early': st['accepted_early']}
        self.block(s.body, fi, var, env, sub, in_try, depth)
        # false branch
        sub2 = {'alive': alive & c.false(), 'wrong': st['wrong'],
                'accepted_early': sub['accepted_early']}
        if s.orelse:
            self.block(s.orelse, fi, var, env, sub2, in_try, depth)
        st['alive'] = sub['alive'] | sub2['alive']
        st['accepted_early'] = sub2['accepted_early']


# ---------------------------------------------------------------------------
# the specification's grammars as component languages

ELEM = r'[A-Za-z_][A-Za-z0-9_]*'
BELEM = r'[A-Za-z_\-][A-Za-z0-9_\-]*'
UELEM = r'[A-Za-z0-9_\-]+'

GRAMMARS = {
    'marshal.validateInterfaceName': {
        'full': r'%s(\.%s)+' % (ELEM, ELEM),
        'maxlen': 255,
        'components': [
            ('CHARSET', r'[A-Za-z0-9_.]*', True),
            ('TWO_ELEMENTS', r'[^.]*', False),
            ('EMPTY_FIRST_ELEMENT', r'(\..*)?', False),
            ('EMPTY_MIDDLE_ELEMENT', r'.*\.\..*', False),
            ('TRAILING_DOT', r'.*\.', False),
            ('LEADING_DIGIT', r'([0-9].*|.*\.[0-9].*)', False),
        ],
    },
    'marshal.validateMemberName': {
        'full': ELEM,
        'maxlen': 255,
        'components': [
            ('CHARSET', r'[A-Za-z0-9_]*', True),
            ('EMPTY', r'', False),
            ('LEADING_DIGIT', r'[0-9].*', False),
        ],
    },
    'marshal.validateBusName': {
        'full': r'(:%s(\.%s)+|%s(\.%s)+)' % (UELEM, UELEM, BELEM, BELEM),
        'maxlen': 255,
        'components': [
            ('CHARSET', r'[A-Za-z0-9_.\-:]*', True),
            ('TWO_ELEMENTS', r'[^.]*', False),
            ('COLON_ONLY_FIRST', r'.+:.*', False),
            ('EMPTY_FIRST_ELEMENT', r':?(\..*)?', False),
            ('EMPTY_MIDDLE_ELEMENT', r'.*\.\..*', False),
            ('TRAILING_DOT', r'.*\.', False),
            ('LEADING_DIGIT', r'([0-9].*|[^:].*\.[0-9].*|\.[0-9].*)', False),
        ],
    },
    'marshal.validateObjectPath': {
        'full': r'(/|(/[A-Za-z0-9_]+)+)',
        'maxlen': None,
        'components': [
            ('CHARSET', r'[A-Za-z0-9_/]*', True),
            ('LEADING_SLASH', r'([^/].*)?', False),
            ('EMPTY_ELEMENT', r'.*//.*', False),
            ('TRAILING_SLASH', r'.+/', False),
        ],
    },
}
GRAMMARS['marshal.validateErrorName'] = GRAMMARS[
    'marshal.validateInterfaceName']


def dotall(p):
    # component regexes use "." as "any character including newline"
    return p


def run(ctx):
    prog = ctx.prog
    ab = make_alphabet()
    tr = Translator(prog, ab)
    rc = RegexCompiler(ab, flags=re.DOTALL)
    ctx.extra['alphabet_classes'] = ab.n
    for qn, g in GRAMMARS.items():
        fi = prog.func(qn)
        res = tr.validator(fi)
        acc = res['accept']
        ctx.extra.setdefault('automaton_states', {})[qn] = acc.n
        full = rc.language(g['full'], 'fullmatch')
        # soundness per component
        bad_any = False
        for name, pat, must_be_in in g['components']:
            comp = rc.language(pat, 'fullmatch')
            outside = (acc - comp) if must_be_in else (acc & comp)
            w = outside.witness()
            if w is not None and len(w) > 255:
                w = None
            if w is not None:
                bad_any = True
            ctx.ob('C18.D1', qn, 'accepts-outside:%s' % name, w is None,
                   '%s accepts %r, which the grammar forbids (%s)'
                   % (fi.name, ab.word(w) if w is not None else '',
                      name.replace('_', ' ').lower()),
                   {'witness': ab.word(w)} if w is not None else None)
        w = (acc - full).witness()
        if w is not None and not bad_any:
            ctx.ob('C18.D1', qn, 'accepts-outside:GRAMMAR', False,
                   '%s accepts %r, which is not derivable from the grammar'
                   % (fi.name, ab.word(w)), {'witness': ab.word(w)})
        else:
            ctx.ob('C18.D1', qn, 'accepts-outside:GRAMMAR',
                   w is None or bad_any, 'covered by a component finding'
                   if bad_any else 'accepts only grammar strings')
        w = (full - acc).witness()
        if w is not None and len(w) > 255:
            w = None
        ctx.ob('C18.D1', qn, 'rejects-valid', w is None,
               '%s rejects %r, which the grammar allows'
               % (fi.name, ab.word(w) if w is not None else ''),
               {'witness': ab.word(w)} if w is not None else None)
        # exception discipline
        wrong = [(d.witness(), what) for d, what in res['wrong']]
        wrong = [(w_, what) for w_, what in wrong if w_ is not None]
        ctx.ob('C18.D1', qn, 'only-MarshallingError', not wrong,
               '%s does not answer %r with a marshalling error: %s' % (
                   fi.name, ab.word(wrong[0][0]) if wrong else '',
                   wrong[0][1] if wrong else ''))
        # length bound
        if g['maxlen'] is None:
            ctx.ob('C18.D1', qn, 'no-length-limit', not res['len_atoms'],
                   'the grammar sets no length limit here; the validator '
                   'tests %s' % res['len_atoms'], nontrivial=False)
        else:
            # accepted lengths = complement of the union of rejected ranges
            rej = res['len_atoms']
            arms = res.get('len_arms') or [()] * len(rej)
            max_ok = None
            if rej:
                # per arm of a conditional view (`name = n[1:] if unique else
                # n`) the rejected ranges unite; the validator as a whole
                # accepts what SOME arm accepts
                per_leaf = []
                for leaf in (res.get('arms') or {()}):
                    bounds = []
                    for (op, k), a_ in zip(rej, arms):
                        if leaf[:len(a_)] != a_:
                            continue
                        if op == '>':
                            bounds.append(k)
                        elif op == '>=':
                            bounds.append(k - 1)
                        else:
                            bounds = None
                            break
                    per_leaf.append(min(bounds) if bounds else None)
                if per_leaf and None not in per_leaf:
                    max_ok = max(per_leaf)
            ctx.ob('C18.D1', qn, 'max-length', max_ok == g['maxlen'],
                   'names are limited to %d bytes; %s accepts lengths up to '
                   '%s' % (g['maxlen'], fi.name, max_ok if max_ok is not None
                           else 'unbounded / an unrecognised length test'))
    # D2 = C03.D7, re-reported
    from . import c03
    sub = _Sub(ctx)
    c03.constructor_rules(sub, c03.message_classes(prog))
    # object paths are validated when the path header is encoded
    from ..codec import CodecModel
    from .codec_rules import P, ret_paths
    cm = CodecModel(prog)
    efi = cm.enc['o']
    for le in (True,):
        inl = ['marshal.marshal_string']
        for p in ret_paths(cm.paths(efi, le, inline=inl)):
            ok = any(c[1] == 'marshal.validateObjectPath' and c[3] and
                     c[3][0] == P(efi, 1) for c in p.calls())
            ctx.ob('C18.D2', efi.qualname, 'path-validated-when-encoded', ok,
                   'object paths must pass validateObjectPath before being '
                   'encoded (this is how the path header is validated)')
    ctx.floor('C18.D1', 30)
    ctx.floor('C18.D2', 8)


class _Sub:
    def __init__(self, ctx):
        self.ctx = ctx
        self.prog = ctx.prog

    def ob(self, rule, where, slot, ok, msg, detail=None, nontrivial=True,
           loc=None):
        if slot.startswith('validates:'):
            self.ctx.ob('C18.D2', where, slot, ok, msg, detail, nontrivial)
        return ok


def run_thorough(ctx):
    """Cross-check of the length factoring: build, for every validator with a
    length limit, the full product of its length-free automaton with an
    explicit 0..256 length counter and compare it with grammar x (len <= 255)
    - both inclusions, for all strings."""
    from ..automata import DFA
    prog = ctx.prog
    ab = make_alphabet()
    tr = Translator(prog, ab)
    rc = RegexCompiler(ab, flags=re.DOTALL)

    def len_le(k):
        n = k + 2
        trans = [[min(i + 1, n - 1)] * ab.n for i in range(n)]
        return DFA(ab.n, trans, 0, set(range(k + 1)))
    sizes = {}
    for qn, g in GRAMMARS.items():
        if g['maxlen'] is None:
            continue
        fi = prog.func(qn)
        res = tr.validator(fi)
        bounds = [k if op == '>' else k - 1 for op, k in res['len_atoms']
                  if op in ('>', '>=')]
        if not bounds:
            continue
        impl = res['accept'] & len_le(min(bounds))
        specl = rc.language(g['full'], 'fullmatch') & len_le(g['maxlen'])
        sizes[qn] = impl.n
        w1 = (impl - specl).witness()
        w2 = (specl - impl).witness()
        ctx.ob('C18.D1', qn, 'full-product:accepts-only-grammar', w1 is None,
               'with the length counter in the product, %s accepts a string '
               'of length %d outside the grammar' % (
                   fi.name, len(w1) if w1 else 0),
               {'witness_prefix': ab.word(w1)[:40]} if w1 else None)
        ctx.ob('C18.D1', qn, 'full-product:accepts-all-grammar', w2 is None,
               'with the length counter in the product, %s rejects a valid '
               'name of length %d' % (fi.name, len(w2) if w2 else 0),
               {'witness_prefix': ab.word(w2)[:40]} if w2 else None)
    ctx.extra['full_product_states'] = sizes
